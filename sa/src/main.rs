//! dbgsa — rustc_private driver that exports the resolved, type-checked program
//! (MIR of every body of the analysed crate, plus the monomorphic instance
//! closure of a set of roots) as a JSON fact file.  The rule engines live in
//! /verif/pysa and consume that file; nothing here executes repo code.
#![feature(rustc_private)]
#![allow(clippy::all)]

extern crate rustc_abi;
extern crate rustc_data_structures;
extern crate rustc_driver;
extern crate rustc_hir;
extern crate rustc_interface;
extern crate rustc_middle;
extern crate rustc_span;

mod dump;
mod json;

use rustc_driver::Compilation;
use rustc_interface::interface::Compiler;
use rustc_middle::ty::TyCtxt;

struct Cb;

impl rustc_driver::Callbacks for Cb {
    fn after_analysis<'tcx>(&mut self, _c: &Compiler, tcx: TyCtxt<'tcx>) -> Compilation {
        let want = std::env::var("DBGSA_CRATE").unwrap_or_else(|_| "debruijn".to_string());
        let name = tcx.crate_name(rustc_hir::def_id::LOCAL_CRATE).to_string();
        if name == want {
            dump::run(tcx);
        }
        Compilation::Continue
    }
}

fn main() {
    let mut args: Vec<String> = std::env::args().collect();
    // As RUSTC_WORKSPACE_WRAPPER we are invoked as `dbgsa <rustc> <args…>`.
    if args.len() > 1 && (args[1].ends_with("rustc") || args[1].contains("/rustc")) {
        args.remove(1);
    }
    let mut cb = Cb;
    rustc_driver::run_compiler(&args, &mut cb);
}
