//! Minimal JSON value + writer (the driver has zero cargo dependencies).
use std::fmt::Write;

#[derive(Clone, Debug)]
pub enum J {
    Null,
    Bool(bool),
    Int(i128),
    UInt(u128),
    Str(String),
    Arr(Vec<J>),
    Obj(Vec<(String, J)>),
}

impl J {
    pub fn obj() -> J {
        J::Obj(Vec::new())
    }
    pub fn s(x: impl Into<String>) -> J {
        J::Str(x.into())
    }
    pub fn set(&mut self, k: &str, v: J) -> &mut J {
        if let J::Obj(items) = self {
            items.push((k.to_string(), v));
        }
        self
    }
    pub fn with(mut self, k: &str, v: J) -> J {
        self.set(k, v);
        self
    }
    pub fn write(&self, out: &mut String) {
        match self {
            J::Null => out.push_str("null"),
            J::Bool(b) => out.push_str(if *b { "true" } else { "false" }),
            J::Int(i) => {
                let _ = write!(out, "{}", i);
            }
            J::UInt(i) => {
                let _ = write!(out, "{}", i);
            }
            J::Str(s) => esc(s, out),
            J::Arr(v) => {
                out.push('[');
                for (i, x) in v.iter().enumerate() {
                    if i > 0 {
                        out.push(',');
                    }
                    x.write(out);
                }
                out.push(']');
            }
            J::Obj(v) => {
                out.push('{');
                for (i, (k, x)) in v.iter().enumerate() {
                    if i > 0 {
                        out.push(',');
                    }
                    esc(k, out);
                    out.push(':');
                    x.write(out);
                }
                out.push('}');
            }
        }
    }
}

fn esc(s: &str, out: &mut String) {
    out.push('"');
    for c in s.chars() {
        match c {
            '"' => out.push_str("\\\""),
            '\\' => out.push_str("\\\\"),
            '\n' => out.push_str("\\n"),
            '\r' => out.push_str("\\r"),
            '\t' => out.push_str("\\t"),
            c if (c as u32) < 0x20 => {
                let _ = write!(out, "\\u{:04x}", c as u32);
            }
            c => out.push(c),
        }
    }
    out.push('"');
}
