//! Fact extraction: MIR bodies (generic and monomorphic), ADTs, impls, roots.
use crate::json::J;
use rustc_hir::def::DefKind;
use rustc_hir::def_id::{DefId, LOCAL_CRATE};
use rustc_middle::mir::{
    self, AggregateKind, BasicBlockData, Body, CastKind, Const, ConstValue, Operand, Place,
    ProjectionElem, Rvalue, StatementKind, TerminatorKind,
};
use rustc_middle::ty::print::with_no_trimmed_paths;
use rustc_middle::ty::{
    self, EarlyBinder, GenericArg, GenericArgsRef, Instance, InstanceKind, Ty, TyCtxt, TypingEnv,
};
use rustc_span::Span;
use std::collections::{BTreeMap, BTreeSet, VecDeque};

pub struct Cx<'tcx> {
    tcx: TyCtxt<'tcx>,
    types: BTreeMap<String, J>,
    adts: BTreeMap<String, J>,
    adt_seen: std::collections::HashSet<DefId>,
}

fn tystr<'tcx>(ty: Ty<'tcx>) -> String {
    with_no_trimmed_paths!(ty.to_string())
}

impl<'tcx> Cx<'tcx> {
    fn path(&self, did: DefId) -> String {
        with_no_trimmed_paths!(self.tcx.def_path_str(did))
    }

    fn path_args(&self, did: DefId, args: GenericArgsRef<'tcx>) -> String {
        with_no_trimmed_paths!(self.tcx.def_path_str_with_args(did, args))
    }

    fn loc(&self, span: Span) -> (String, usize, bool) {
        let exp = span.from_expansion();
        let sp = if exp { span.source_callsite() } else { span };
        let sm = self.tcx.sess.source_map();
        let lo = sm.lookup_char_pos(sp.lo());
        let f = match &lo.file.name {
            rustc_span::FileName::Real(r) => match r.local_path() {
                Some(p) => p.to_string_lossy().to_string(),
                None => format!("{:?}", r),
            },
            other => format!("{:?}", other),
        };
        (f, lo.line, exp)
    }

    /// Intern a type: returns its string; records the structured form once.
    fn ty(&mut self, ty: Ty<'tcx>) -> J {
        let s = tystr(ty);
        if !self.types.contains_key(&s) {
            // insert placeholder first to cut recursion on recursive types
            self.types.insert(s.clone(), J::Null);
            let j = self.ty_struct(ty);
            self.types.insert(s.clone(), j);
        }
        J::Str(s)
    }

    fn ty_struct(&mut self, ty: Ty<'tcx>) -> J {
        let tcx = self.tcx;
        match ty.kind() {
            ty::Bool => J::obj().with("k", J::s("bool")),
            ty::Char => J::obj().with("k", J::s("char")),
            ty::Int(i) => J::obj()
                .with("k", J::s("int"))
                .with("w", J::UInt(i.bit_width().unwrap_or(64) as u128)),
            ty::Uint(u) => J::obj()
                .with("k", J::s("uint"))
                .with("w", J::UInt(u.bit_width().unwrap_or(64) as u128)),
            ty::Float(f) => J::obj().with("k", J::s("float")).with("w", J::UInt(f.bit_width() as u128)),
            ty::Adt(def, args) => {
                self.adt(def.did());
                let mut a = Vec::new();
                for ga in args.iter() {
                    if let Some(t) = ga.as_type() {
                        a.push(self.ty(t));
                    } else if let Some(c) = ga.as_const() {
                        a.push(J::s(format!("const {}", c)));
                    }
                }
                // instantiated field types per variant (needed by the interpreter for defaults)
                let mut vars = Vec::new();
                if !def.is_union() {
                    for v in def.variants().iter() {
                        let mut fs = Vec::new();
                        for f in v.fields.iter() {
                            let fty = f.ty(tcx, args);
                            fs.push(self.ty(fty));
                        }
                        vars.push(J::Arr(fs));
                    }
                }
                J::obj()
                    .with("k", J::s("adt"))
                    .with("name", J::s(self.path(def.did())))
                    .with("args", J::Arr(a))
                    .with("vfields", J::Arr(vars))
            }
            ty::Ref(_, inner, m) => {
                let i = self.ty(*inner);
                J::obj().with("k", J::s("ref")).with("mut", J::Bool(m.is_mut())).with("t", i)
            }
            ty::RawPtr(inner, m) => {
                let i = self.ty(*inner);
                J::obj().with("k", J::s("ptr")).with("mut", J::Bool(m.is_mut())).with("t", i)
            }
            ty::Tuple(ts) => {
                let mut v = Vec::new();
                for t in ts.iter() {
                    v.push(self.ty(t));
                }
                J::obj().with("k", J::s("tuple")).with("ts", J::Arr(v))
            }
            ty::Array(elem, len) => {
                let e = self.ty(*elem);
                let n = len.try_to_target_usize(tcx);
                J::obj()
                    .with("k", J::s("array"))
                    .with("t", e)
                    .with("len", n.map(|x| J::UInt(x as u128)).unwrap_or(J::Null))
            }
            ty::Slice(elem) => {
                let e = self.ty(*elem);
                J::obj().with("k", J::s("slice")).with("t", e)
            }
            ty::Str => J::obj().with("k", J::s("str")),
            ty::Never => J::obj().with("k", J::s("never")),
            ty::FnDef(did, args) => J::obj()
                .with("k", J::s("fndef"))
                .with("name", J::s(self.path(*did)))
                .with("key", J::s(self.path_args(*did, args))),
            ty::FnPtr(..) => J::obj().with("k", J::s("fnptr")),
            ty::Closure(did, args) => {
                let mut ups = Vec::new();
                for t in args.as_closure().upvar_tys().iter() {
                    ups.push(self.ty(t));
                }
                J::obj()
                    .with("k", J::s("closure"))
                    .with("name", J::s(self.path(*did)))
                    .with("upvars", J::Arr(ups))
            }
            ty::Param(p) => J::obj().with("k", J::s("param")).with("name", J::s(p.name.to_string())),
            ty::Alias(..) => J::obj().with("k", J::s("alias")),
            ty::Dynamic(..) => J::obj().with("k", J::s("dyn")),
            _ => J::obj().with("k", J::s("other")),
        }
    }

    fn adt(&mut self, did: DefId) {
        if !self.adt_seen.insert(did) {
            return;
        }
        let tcx = self.tcx;
        let def = tcx.adt_def(did);
        let name = self.path(did);
        let mut variants = Vec::new();
        if !def.is_union() {
            for (vi, v) in def.variants().iter_enumerated() {
                let discr = if def.is_enum() {
                    Some(def.discriminant_for_variant(tcx, vi).val)
                } else {
                    None
                };
                let mut fields = Vec::new();
                for f in v.fields.iter() {
                    let fty = tcx.type_of(f.did).instantiate_identity().skip_norm_wip();
                    let vis = match f.vis {
                        ty::Visibility::Public => "pub".to_string(),
                        ty::Visibility::Restricted(d) => format!("restricted:{}", self.path(d)),
                    };
                    fields.push(
                        J::obj()
                            .with("name", J::s(f.name.to_string()))
                            .with("ty", J::s(tystr(fty)))
                            .with("vis", J::s(vis)),
                    );
                }
                variants.push(
                    J::obj()
                        .with("name", J::s(v.name.to_string()))
                        .with("discr", discr.map(J::UInt).unwrap_or(J::Null))
                        .with("fields", J::Arr(fields)),
                );
            }
        }
        let kind = if def.is_enum() {
            "enum"
        } else if def.is_union() {
            "union"
        } else {
            "struct"
        };
        let mut j = J::obj()
            .with("kind", J::s(kind))
            .with("local", J::Bool(did.is_local()))
            .with("variants", J::Arr(variants));
        if did.is_local() {
            let (f, l, _) = self.loc(tcx.def_span(did));
            j.set("file", J::s(f));
            j.set("line", J::UInt(l as u128));
        }
        self.adts.insert(name, j);
    }

    fn place(&mut self, p: &Place<'tcx>) -> J {
        let mut proj = Vec::new();
        for e in p.projection.iter() {
            proj.push(match e {
                ProjectionElem::Deref => J::s("deref"),
                ProjectionElem::Field(f, t) => {
                    let tj = self.ty(t);
                    J::obj().with("f", J::UInt(f.as_usize() as u128)).with("ty", tj)
                }
                ProjectionElem::Index(l) => J::obj().with("idx", J::UInt(l.as_usize() as u128)),
                ProjectionElem::ConstantIndex { offset, min_length, from_end } => J::obj()
                    .with("cidx", J::UInt(offset as u128))
                    .with("min", J::UInt(min_length as u128))
                    .with("from_end", J::Bool(from_end)),
                ProjectionElem::Subslice { from, to, from_end } => J::obj()
                    .with("sub_from", J::UInt(from as u128))
                    .with("sub_to", J::UInt(to as u128))
                    .with("from_end", J::Bool(from_end)),
                ProjectionElem::Downcast(name, vi) => J::obj()
                    .with("downcast", J::UInt(vi.as_usize() as u128))
                    .with("name", name.map(|s| J::s(s.to_string())).unwrap_or(J::Null)),
                ProjectionElem::OpaqueCast(_) => J::s("opaquecast"),
                ProjectionElem::UnwrapUnsafeBinder(_) => J::s("unwrapbinder"),
            });
        }
        J::obj().with("l", J::UInt(p.local.as_usize() as u128)).with("p", J::Arr(proj))
    }

    fn fn_ref(&mut self, did: DefId, args: GenericArgsRef<'tcx>, env: TypingEnv<'tcx>, mono: bool) -> J {
        let tcx = self.tcx;
        let mut j = J::obj()
            .with("path", J::s(self.path(did)))
            .with("key", J::s(self.path_args(did, args)));
        let mut targs = Vec::new();
        for ga in args.iter() {
            if let Some(t) = ga.as_type() {
                targs.push(self.ty(t));
            }
        }
        j.set("targs", J::Arr(targs));
        if let Some(tr) = tcx.trait_of_assoc(did) {
            j.set("trait", J::s(self.path(tr)));
        }
        if let Some(im) = tcx.impl_of_assoc(did) {
            let st = tcx.type_of(im).instantiate_identity().skip_norm_wip();
            j.set("impl_self", J::s(tystr(st)));
        }
        j.set("crate", J::s(tcx.crate_name(did.krate).to_string()));
        if matches!(tcx.def_kind(did), DefKind::Fn | DefKind::AssocFn | DefKind::Closure) {
            if tcx.intrinsic(did).is_some() {
                j.set("intrinsic", J::Bool(true));
            }
            // Resolution: only attempt when args carry no inference/escaping stuff.
            let r = std::panic::catch_unwind(std::panic::AssertUnwindSafe(|| {
                if matches!(tcx.def_kind(did), DefKind::Closure) {
                    return None;
                }
                Instance::try_resolve(tcx, env, did, args).ok().flatten()
            }));
            if let Ok(Some(inst)) = r {
                let rdid = inst.def_id();
                j.set("rpath", J::s(self.path(rdid)));
                j.set("rkey", J::s(inst_key(inst)));
                j.set("rkind", J::s(inst_kind(&inst)));
                if let Some(im) = tcx.impl_of_assoc(rdid) {
                    let st = tcx.type_of(im).instantiate_identity().skip_norm_wip();
                    j.set("rimpl_self", J::s(tystr(st)));
                }
                let _ = mono;
            }
        }
        j
    }

    fn konst(&mut self, c: &Const<'tcx>, env: TypingEnv<'tcx>, mono: bool) -> J {
        let tcx = self.tcx;
        let ty = c.ty();
        let tj = self.ty(ty);
        let mut j = J::obj().with("ty", tj);
        if let ty::FnDef(did, args) = ty.kind() {
            let f = self.fn_ref(*did, args, env, mono);
            j.set("fn", f);
            return j;
        }
        if let ty::Closure(did, _) = ty.kind() {
            j.set("closure", J::s(self.path(*did)));
        }
        // scalar?
        let scalar_ok = ty.is_integral() || ty.is_bool() || ty.is_char();
        if scalar_ok {
            if let Some(si) = c.try_eval_scalar_int(tcx, env) {
                let size = si.size();
                let bits = si.to_bits(size);
                if ty.is_signed() {
                    let v = size.sign_extend(bits) as i128;
                    j.set("int", J::Int(v));
                } else {
                    j.set("int", J::UInt(bits));
                }
                return j;
            }
            j.set("uneval", J::s(format!("{:?}", c)));
            return j;
        }
        // structured constants (enums like Some(Equal), tuples, arrays, small structs, refs to those)
        let is_ref_to_struct = match ty.kind() {
            ty::Ref(_, inner, _) => {
                matches!(inner.kind(), ty::Adt(..) | ty::Tuple(..) | ty::Array(..)) || inner.is_integral() || inner.is_bool() || inner.is_char()
            }
            _ => false,
        };
        if matches!(ty.kind(), ty::Adt(..) | ty::Tuple(..) | ty::Array(..)) || is_ref_to_struct {
            if let Ok(val) = c.eval(tcx, env, rustc_span::DUMMY_SP) {
                if let Some(sj) = self.const_struct(val, ty, 0) {
                    j.set("struct", sj);
                    return j;
                }
            }
        }
        // byte / str slices — literal, or a named constant (`const HEADER: &[u8] = b"…"`) evaluated here
        let is_byte_slice = match ty.kind() {
            ty::Ref(_, inner, _) => inner.is_str() || matches!(inner.kind(), ty::Slice(e) if *e == tcx.types.u8),
            _ => false,
        };
        let evaluated: Option<Const<'tcx>> = if is_byte_slice && !matches!(c, Const::Val(..)) {
            match std::panic::catch_unwind(std::panic::AssertUnwindSafe(|| c.eval(tcx, env, rustc_span::DUMMY_SP))) {
                Ok(Ok(v)) => Some(Const::Val(v, ty)),
                _ => None,
            }
        } else {
            None
        };
        let c = evaluated.as_ref().unwrap_or(c);
        match c {
            Const::Val(ConstValue::Slice { alloc_id, meta }, _) => {
                if let rustc_middle::mir::interpret::GlobalAlloc::Memory(alloc) = tcx.global_alloc(*alloc_id) {
                    let a = alloc.inner();
                    let n = (*meta as usize).min(a.len());
                    let bytes = a.inspect_with_uninit_and_ptr_outside_interpreter(0..n);
                    j.set("bytes", J::Arr(bytes.iter().map(|b| J::UInt(*b as u128)).collect()));
                }
            }
            Const::Val(ConstValue::ZeroSized, _) => {
                j.set("zst", J::Bool(true));
            }
            Const::Val(ConstValue::Indirect { alloc_id, offset }, _) if is_byte_slice => {
                // an evaluated named constant of slice type: a fat pointer (address, length) stored in memory
                let mut done = false;
                if let Some(rustc_middle::mir::interpret::GlobalAlloc::Memory(alloc)) = tcx.try_get_global_alloc(*alloc_id) {
                    let a = alloc.inner();
                    let o = offset.bytes() as usize;
                    if o + 16 <= a.len() {
                        if let Some(prov) = a.provenance().get_ptr(rustc_abi::Size::from_bytes(o as u64)) {
                            let raw = a.inspect_with_uninit_and_ptr_outside_interpreter(o..o + 16);
                            let mut rel: u64 = 0;
                            let mut n: u64 = 0;
                            for k in 0..8 {
                                rel |= (raw[k] as u64) << (8 * k);
                                n |= (raw[8 + k] as u64) << (8 * k);
                            }
                            if let Some(rustc_middle::mir::interpret::GlobalAlloc::Memory(talloc)) = tcx.try_get_global_alloc(prov.alloc_id()) {
                                let ta = talloc.inner();
                                let (rel, n) = (rel as usize, n as usize);
                                if n <= 65536 && rel + n <= ta.len() {
                                    let bytes = ta.inspect_with_uninit_and_ptr_outside_interpreter(rel..rel + n);
                                    j.set("bytes", J::Arr(bytes.iter().map(|b| J::UInt(*b as u128)).collect()));
                                    done = true;
                                }
                            }
                        }
                    }
                }
                if !done {
                    j.set("other", J::s(with_no_trimmed_paths!(format!("{}", c))));
                }
            }
            _ => {
                j.set("other", J::s(with_no_trimmed_paths!(format!("{}", c))));
            }
        }
        j
    }

    /// destructure an evaluated constant into {int} / {adt,variant,fields} / {tuple} / {array}
    fn const_struct(&mut self, val: ConstValue, ty: Ty<'tcx>, depth: usize) -> Option<J> {
        let tcx = self.tcx;
        if depth > 6 {
            return None;
        }
        let tj = self.ty(ty);
        if ty.is_integral() || ty.is_bool() || ty.is_char() {
            if let ConstValue::Indirect { alloc_id, offset } = val {
                // a scalar stored in a (promoted) allocation: read its little-endian bytes
                if let Some(rustc_middle::mir::interpret::GlobalAlloc::Memory(alloc)) = tcx.try_get_global_alloc(alloc_id) {
                    let nbytes: usize = match ty.kind() {
                        ty::Bool => 1,
                        ty::Char => 4,
                        ty::Int(it) => it.bit_width().map(|b| (b / 8) as usize).unwrap_or(8),
                        ty::Uint(ut) => ut.bit_width().map(|b| (b / 8) as usize).unwrap_or(8),
                        _ => return None,
                    };
                    let a = alloc.inner();
                    let o = offset.bytes() as usize;
                    if o + nbytes > a.len() {
                        return None;
                    }
                    let bytes = a.inspect_with_uninit_and_ptr_outside_interpreter(o..o + nbytes);
                    let mut bits: u128 = 0;
                    for (i, b) in bytes.iter().enumerate() {
                        bits |= (*b as u128) << (8 * i);
                    }
                    let mut j = J::obj().with("ty", tj);
                    if ty.is_signed() {
                        let sh = 128 - 8 * nbytes as u32;
                        j.set("int", J::Int(((bits << sh) as i128) >> sh));
                    } else {
                        j.set("int", J::UInt(bits));
                    }
                    return Some(j);
                }
                return None;
            }
            let si = val.try_to_scalar_int()?;
            let size = si.size();
            let bits = si.to_bits(size);
            let mut j = J::obj().with("ty", tj);
            if ty.is_signed() {
                j.set("int", J::Int(size.sign_extend(bits) as i128));
            } else {
                j.set("int", J::UInt(bits));
            }
            return Some(j);
        }
        match ty.kind() {
            ty::Ref(_, inner, _) => {
                // a slice reference stored in a table (`&[u8]`, `&[u32]`, `&str` …): the elements, as an array
                if let ConstValue::Slice { alloc_id, meta } = val {
                    let elem = match inner.kind() {
                        ty::Slice(e) => Some(*e),
                        ty::Str => Some(tcx.types.u8),
                        _ => None,
                    }?;
                    let nbytes: usize = match elem.kind() {
                        ty::Bool => 1,
                        ty::Int(it) => it.bit_width().map(|b| (b / 8) as usize).unwrap_or(8),
                        ty::Uint(ut) => ut.bit_width().map(|b| (b / 8) as usize).unwrap_or(8),
                        _ => return None,
                    };
                    if let Some(rustc_middle::mir::interpret::GlobalAlloc::Memory(alloc)) = tcx.try_get_global_alloc(alloc_id) {
                        let a = alloc.inner();
                        let n = meta as usize;
                        if n * nbytes > a.len() {
                            return None;
                        }
                        let bytes = a.inspect_with_uninit_and_ptr_outside_interpreter(0..n * nbytes);
                        let ej = self.ty(elem);
                        let mut items = Vec::new();
                        for i in 0..n {
                            let mut bits: u128 = 0;
                            for k in 0..nbytes {
                                bits |= (bytes[i * nbytes + k] as u128) << (8 * k);
                            }
                            let mut j = J::obj().with("ty", ej.clone());
                            if elem.is_signed() {
                                let sh = 128 - 8 * nbytes as u32;
                                j.set("int", J::Int(((bits << sh) as i128) >> sh));
                            } else {
                                j.set("int", J::UInt(bits));
                            }
                            items.push(j);
                        }
                        let ij = J::obj().with("ty", self.ty(*inner)).with("array", J::Arr(items));
                        return Some(J::obj().with("ty", tj).with("ref", ij).with("slice_len", J::UInt(n as u128)));
                    }
                    return None;
                }
                // the same, stored in memory as a fat pointer (pointer with provenance + length)
                if let (ConstValue::Indirect { alloc_id, offset }, true) = (val, matches!(inner.kind(), ty::Slice(_) | ty::Str)) {
                    let elem = match inner.kind() {
                        ty::Slice(e) => *e,
                        _ => tcx.types.u8,
                    };
                    let nbytes: usize = match elem.kind() {
                        ty::Bool => 1,
                        ty::Int(it) => it.bit_width().map(|b| (b / 8) as usize).unwrap_or(8),
                        ty::Uint(ut) => ut.bit_width().map(|b| (b / 8) as usize).unwrap_or(8),
                        _ => return None,
                    };
                    let Some(rustc_middle::mir::interpret::GlobalAlloc::Memory(alloc)) = tcx.try_get_global_alloc(alloc_id) else { return None };
                    let a = alloc.inner();
                    let o = offset.bytes() as usize;
                    if o + 16 > a.len() {
                        return None;
                    }
                    let prov = a.provenance().get_ptr(rustc_abi::Size::from_bytes(o as u64))?;
                    let raw = a.inspect_with_uninit_and_ptr_outside_interpreter(o..o + 16);
                    let mut rel: u64 = 0;
                    let mut n: u64 = 0;
                    for k in 0..8 {
                        rel |= (raw[k] as u64) << (8 * k);
                        n |= (raw[8 + k] as u64) << (8 * k);
                    }
                    let Some(rustc_middle::mir::interpret::GlobalAlloc::Memory(talloc)) = tcx.try_get_global_alloc(prov.alloc_id()) else { return None };
                    let ta = talloc.inner();
                    let (rel, n) = (rel as usize, n as usize);
                    if n > 4096 || rel + n * nbytes > ta.len() {
                        return None;
                    }
                    let bytes = ta.inspect_with_uninit_and_ptr_outside_interpreter(rel..rel + n * nbytes);
                    let ej = self.ty(elem);
                    let mut items = Vec::new();
                    for i in 0..n {
                        let mut bits: u128 = 0;
                        for k in 0..nbytes {
                            bits |= (bytes[i * nbytes + k] as u128) << (8 * k);
                        }
                        let mut j = J::obj().with("ty", ej.clone());
                        if elem.is_signed() {
                            let sh = 128 - 8 * nbytes as u32;
                            j.set("int", J::Int(((bits << sh) as i128) >> sh));
                        } else {
                            j.set("int", J::UInt(bits));
                        }
                        items.push(j);
                    }
                    let ij = J::obj().with("ty", self.ty(*inner)).with("array", J::Arr(items));
                    return Some(J::obj().with("ty", tj).with("ref", ij).with("slice_len", J::UInt(n as u128)));
                }
                let sc = val.try_to_scalar()?;
                if let rustc_middle::mir::interpret::Scalar::Ptr(ptr, _) = sc {
                    let (prov, offset) = ptr.prov_and_relative_offset();
                    let mut alloc_id = prov.alloc_id();
                    match tcx.try_get_global_alloc(alloc_id) {
                        Some(rustc_middle::mir::interpret::GlobalAlloc::Memory(_)) => {}
                        Some(rustc_middle::mir::interpret::GlobalAlloc::Static(sdid)) => {
                            // an immutable `static` table: read its initializer
                            if tcx.is_foreign_item(sdid) || tcx.is_mutable_static(sdid) {
                                return None;
                            }
                            let init = std::panic::catch_unwind(std::panic::AssertUnwindSafe(|| tcx.eval_static_initializer(sdid))).ok()?.ok()?;
                            alloc_id = tcx.reserve_and_set_memory_alloc(init);
                        }
                        _ => return None,
                    }
                    let inner_val = ConstValue::Indirect { alloc_id, offset };
                    let ij = self.const_struct(inner_val, *inner, depth + 1)?;
                    return Some(J::obj().with("ty", tj).with("ref", ij));
                }
                None
            }
            ty::Adt(def, _) if !def.is_union() => {
                let d = std::panic::catch_unwind(std::panic::AssertUnwindSafe(|| {
                    tcx.try_destructure_mir_constant_for_user_output(val, ty)
                }))
                .ok()??;
                let vi = d.variant.map(|v| v.as_usize()).unwrap_or(0);
                let mut fs = Vec::new();
                for (fv, fty) in d.fields.iter() {
                    fs.push(self.const_struct(*fv, *fty, depth + 1)?);
                }
                self.adt(def.did());
                Some(
                    J::obj()
                        .with("ty", tj)
                        .with("adt", J::s(self.path(def.did())))
                        .with("variant", J::UInt(vi as u128))
                        .with("fields", J::Arr(fs)),
                )
            }
            ty::Tuple(_) | ty::Array(..) => {
                let d = std::panic::catch_unwind(std::panic::AssertUnwindSafe(|| {
                    tcx.try_destructure_mir_constant_for_user_output(val, ty)
                }))
                .ok()??;
                let mut fs = Vec::new();
                for (fv, fty) in d.fields.iter() {
                    fs.push(self.const_struct(*fv, *fty, depth + 1)?);
                }
                let k = if matches!(ty.kind(), ty::Tuple(_)) { "tuple" } else { "array" };
                Some(J::obj().with("ty", tj).with(k, J::Arr(fs)))
            }
            _ => None,
        }
    }

    fn operand(&mut self, o: &Operand<'tcx>, env: TypingEnv<'tcx>, mono: bool) -> J {
        match o {
            Operand::Copy(p) => J::obj().with("copy", self.place(p)),
            Operand::Move(p) => J::obj().with("move", self.place(p)),
            Operand::Constant(c) => J::obj().with("const", self.konst(&c.const_, env, mono)),
            Operand::RuntimeChecks(rc) => J::obj().with("rtcheck", J::s(format!("{:?}", rc))),
        }
    }

    fn rvalue(&mut self, rv: &Rvalue<'tcx>, env: TypingEnv<'tcx>, mono: bool) -> J {
        match rv {
            Rvalue::Use(o, _) => J::obj().with("k", J::s("use")).with("o", self.operand(o, env, mono)),
            Rvalue::Repeat(o, n) => {
                let nn = n.try_to_target_usize(self.tcx);
                J::obj()
                    .with("k", J::s("repeat"))
                    .with("o", self.operand(o, env, mono))
                    .with("n", nn.map(|x| J::UInt(x as u128)).unwrap_or(J::Null))
            }
            Rvalue::Ref(_, bk, p) => J::obj()
                .with("k", J::s("ref"))
                .with("mut", J::Bool(matches!(bk, mir::BorrowKind::Mut { .. })))
                .with("p", self.place(p)),
            Rvalue::RawPtr(kind, p) => J::obj()
                .with("k", J::s("rawptr"))
                .with("mut", J::Bool(matches!(kind, mir::RawPtrKind::Mut)))
                .with("p", self.place(p)),
            Rvalue::Cast(ck, o, ty) => {
                let kind = match ck {
                    CastKind::IntToInt => "int2int".to_string(),
                    CastKind::Transmute => "transmute".to_string(),
                    CastKind::PtrToPtr => "ptr2ptr".to_string(),
                    CastKind::PointerCoercion(pc, _) => format!("coerce:{:?}", pc),
                    other => format!("{:?}", other),
                };
                let tj = self.ty(*ty);
                J::obj()
                    .with("k", J::s("cast"))
                    .with("ck", J::s(kind))
                    .with("o", self.operand(o, env, mono))
                    .with("ty", tj)
            }
            Rvalue::BinaryOp(op, ab) => J::obj()
                .with("k", J::s("bin"))
                .with("op", J::s(format!("{:?}", op)))
                .with("a", self.operand(&ab.0, env, mono))
                .with("b", self.operand(&ab.1, env, mono)),
            Rvalue::UnaryOp(op, o) => J::obj()
                .with("k", J::s("un"))
                .with("op", J::s(format!("{:?}", op)))
                .with("o", self.operand(o, env, mono)),
            Rvalue::Discriminant(p) => J::obj().with("k", J::s("discr")).with("p", self.place(p)),
            Rvalue::Aggregate(ak, ops) => {
                let mut j = J::obj().with("k", J::s("agg"));
                match &**ak {
                    AggregateKind::Array(t) => {
                        let tj = self.ty(*t);
                        j.set("ak", J::s("array"));
                        j.set("ty", tj);
                    }
                    AggregateKind::Tuple => {
                        j.set("ak", J::s("tuple"));
                    }
                    AggregateKind::Adt(did, vi, _args, _, active) => {
                        self.adt(*did);
                        let def = self.tcx.adt_def(*did);
                        j.set("ak", J::s("adt"));
                        j.set("adt", J::s(self.path(*did)));
                        j.set("variant", J::UInt(vi.as_usize() as u128));
                        j.set("vname", J::s(def.variant(*vi).name.to_string()));
                        if let Some(a) = active {
                            j.set("active_field", J::UInt(a.as_usize() as u128));
                        }
                    }
                    AggregateKind::Closure(did, cargs) => {
                        j.set("ak", J::s("closure"));
                        j.set("closure", J::s(self.path(*did)));
                        if mono {
                            let ci = Instance::new_raw(*did, cargs);
                            j.set("ckey", J::s(inst_key(ci)));
                        }
                    }
                    AggregateKind::RawPtr(..) => {
                        j.set("ak", J::s("rawptr"));
                    }
                    _ => {
                        j.set("ak", J::s("other"));
                    }
                }
                let mut v = Vec::new();
                for o in ops.iter() {
                    v.push(self.operand(o, env, mono));
                }
                j.set("ops", J::Arr(v));
                j
            }
            Rvalue::CopyForDeref(p) => J::obj()
                .with("k", J::s("use"))
                .with("o", J::obj().with("copy", self.place(p))),
            Rvalue::ThreadLocalRef(_) => J::obj().with("k", J::s("tls")),
            Rvalue::WrapUnsafeBinder(..) => J::obj().with("k", J::s("other")),
        }
    }

    fn block(&mut self, bb: &BasicBlockData<'tcx>, env: TypingEnv<'tcx>, mono: bool) -> J {
        let mut stmts = Vec::new();
        for s in bb.statements.iter() {
            let (_, line, exp) = self.loc(s.source_info.span);
            match &s.kind {
                StatementKind::Assign(b) => {
                    let (p, rv) = &**b;
                    let mut j = J::obj()
                        .with("k", J::s("assign"))
                        .with("p", self.place(p))
                        .with("rv", self.rvalue(rv, env, mono))
                        .with("ln", J::UInt(line as u128));
                    if exp {
                        j.set("x", J::Bool(true));
                    }
                    stmts.push(j);
                }
                StatementKind::SetDiscriminant { place, variant_index } => {
                    stmts.push(
                        J::obj()
                            .with("k", J::s("setdiscr"))
                            .with("p", self.place(place))
                            .with("variant", J::UInt(variant_index.as_usize() as u128))
                            .with("ln", J::UInt(line as u128)),
                    );
                }
                StatementKind::Intrinsic(i) => {
                    stmts.push(J::obj().with("k", J::s("intrinsic")).with("d", J::s(format!("{:?}", i))));
                }
                _ => {}
            }
        }
        let t = bb.terminator();
        let (_, line, exp) = self.loc(t.source_info.span);
        let mut tj = match &t.kind {
            TerminatorKind::Goto { target } => {
                J::obj().with("k", J::s("goto")).with("t", J::UInt(target.as_usize() as u128))
            }
            TerminatorKind::SwitchInt { discr, targets } => {
                let mut ts = Vec::new();
                for (v, b) in targets.iter() {
                    ts.push(J::Arr(vec![J::UInt(v), J::UInt(b.as_usize() as u128)]));
                }
                J::obj()
                    .with("k", J::s("switch"))
                    .with("o", self.operand(discr, env, mono))
                    .with("targets", J::Arr(ts))
                    .with("otherwise", J::UInt(targets.otherwise().as_usize() as u128))
            }
            TerminatorKind::Return => J::obj().with("k", J::s("return")),
            TerminatorKind::Unreachable => J::obj().with("k", J::s("unreachable")),
            TerminatorKind::UnwindResume => J::obj().with("k", J::s("resume")),
            TerminatorKind::UnwindTerminate(_) => J::obj().with("k", J::s("abort")),
            TerminatorKind::Drop { place, target, .. } => J::obj()
                .with("k", J::s("drop"))
                .with("p", self.place(place))
                .with("t", J::UInt(target.as_usize() as u128)),
            TerminatorKind::Call { func, args, destination, target, .. } => {
                let mut av = Vec::new();
                for a in args.iter() {
                    av.push(self.operand(&a.node, env, mono));
                }
                J::obj()
                    .with("k", J::s("call"))
                    .with("f", self.operand(func, env, mono))
                    .with("args", J::Arr(av))
                    .with("dest", self.place(destination))
                    .with("t", target.map(|b| J::UInt(b.as_usize() as u128)).unwrap_or(J::Null))
            }
            TerminatorKind::TailCall { .. } => J::obj().with("k", J::s("tailcall")),
            TerminatorKind::Assert { cond, expected, msg, target, .. } => {
                let kind = match &**msg {
                    mir::AssertKind::BoundsCheck { .. } => "bounds".to_string(),
                    mir::AssertKind::Overflow(op, ..) => format!("overflow:{:?}", op),
                    mir::AssertKind::OverflowNeg(_) => "overflowneg".to_string(),
                    mir::AssertKind::DivisionByZero(_) => "divzero".to_string(),
                    mir::AssertKind::RemainderByZero(_) => "remzero".to_string(),
                    _ => "other".to_string(),
                };
                J::obj()
                    .with("k", J::s("assert"))
                    .with("o", self.operand(cond, env, mono))
                    .with("expected", J::Bool(*expected))
                    .with("msg", J::s(kind))
                    .with("t", J::UInt(target.as_usize() as u128))
            }
            TerminatorKind::FalseEdge { real_target, .. } => {
                J::obj().with("k", J::s("goto")).with("t", J::UInt(real_target.as_usize() as u128))
            }
            TerminatorKind::FalseUnwind { real_target, .. } => {
                J::obj().with("k", J::s("goto")).with("t", J::UInt(real_target.as_usize() as u128))
            }
            _ => J::obj().with("k", J::s("other")),
        };
        tj.set("ln", J::UInt(line as u128));
        if exp {
            tj.set("x", J::Bool(true));
        }
        J::obj()
            .with("s", J::Arr(stmts))
            .with("t", tj)
            .with("cleanup", J::Bool(bb.is_cleanup))
    }

    fn body(&mut self, body: &Body<'tcx>, env: TypingEnv<'tcx>, mono: bool, did: DefId) -> J {
        let tcx = self.tcx;
        let (file, line, _) = self.loc(body.span);
        let mut locals = Vec::new();
        for d in body.local_decls.iter() {
            locals.push(self.ty(d.ty));
        }
        let mut dbg = Vec::new();
        for v in body.var_debug_info.iter() {
            if let mir::VarDebugInfoContents::Place(p) = &v.value {
                dbg.push(
                    J::obj()
                        .with("name", J::s(v.name.to_string()))
                        .with("p", self.place(p))
                        .with("arg", v.argument_index.map(|i| J::UInt(i as u128)).unwrap_or(J::Null)),
                );
            }
        }
        let mut blocks = Vec::new();
        for bb in body.basic_blocks.iter() {
            blocks.push(self.block(bb, env, mono));
        }
        let vis = if matches!(tcx.def_kind(did), DefKind::Fn | DefKind::AssocFn) {
            match tcx.visibility(did) {
                ty::Visibility::Public => "pub".to_string(),
                ty::Visibility::Restricted(d) => format!("restricted:{}", self.path(d)),
            }
        } else {
            "n/a".to_string()
        };
        let mut j = J::obj()
            .with("path", J::s(self.path(did)))
            .with("kind", J::s(format!("{:?}", tcx.def_kind(did))))
            .with("file", J::s(file))
            .with("line", J::UInt(line as u128))
            .with("vis", J::s(vis))
            .with("argc", J::UInt(body.arg_count as u128))
            .with("locals", J::Arr(locals))
            .with("debug", J::Arr(dbg))
            .with("blocks", J::Arr(blocks));
        if let Some(tr) = tcx.trait_of_assoc(did) {
            j.set("trait", J::s(self.path(tr)));
        }
        if let Some(im) = tcx.impl_of_assoc(did) {
            let st = tcx.type_of(im).instantiate_identity().skip_norm_wip();
            j.set("impl_self", J::s(tystr(st)));
            if let Some(tr) = tcx.impl_opt_trait_ref(im) {
                let tr = tr.instantiate_identity().skip_norm_wip();
                j.set("impl_trait", J::s(self.path(tr.def_id)));
            }
            j.set("derived", J::Bool(tcx.is_automatically_derived(im)));
        }
        if matches!(tcx.def_kind(did), DefKind::Closure) {
            let parent = tcx.parent(did);
            j.set("parent", J::s(self.path(parent)));
        }
        j
    }
}

fn inst_key<'tcx>(inst: Instance<'tcx>) -> String {
    with_no_trimmed_paths!(format!("{}", inst))
}

fn inst_kind<'tcx>(inst: &Instance<'tcx>) -> String {
    match inst.def {
        InstanceKind::Item(_) => "item".into(),
        InstanceKind::Intrinsic(_) => "intrinsic".into(),
        InstanceKind::Virtual(..) => "virtual".into(),
        InstanceKind::CloneShim(..) => "cloneshim".into(),
        InstanceKind::DropGlue(..) => "dropglue".into(),
        InstanceKind::FnPtrShim(..) => "fnptrshim".into(),
        InstanceKind::ClosureOnceShim { .. } => "closureonce".into(),
        InstanceKind::ReifyShim(..) => "reify".into(),
        _ => "othershim".into(),
    }
}

const DESCEND_PREFIXES: &[&str] = &[
    "num_traits::",
    "core::ops::",
    "std::ops::",
    "core::num::",
    "core::cmp::",
    "std::cmp::",
    "core::option::",
    "std::option::",
    "core::result::",
    "core::convert::",
    "std::convert::",
    "core::mem::",
    "std::mem::",
    "core::clone::",
    "std::clone::",
    "core::ptr::non_null",
    "core::array::",
    "core::slice::index",
    "core::slice::<impl [T]>::len",
    "core::bool::",
    "core::hint::",
    "core::ub_checks",
    "core::marker::",
    "core::default::",
    "std::default::",
    "core::iter::range",
    "core::iter::traits::collect",
    "core::iter::traits::iterator::Iterator::next",
    "core::iter::Iterator::next",
    "std::iter::Iterator::next",
    "core::core_arch::",
    "std::arch::",
    "core::arch::",
    "core::intrinsics::",
];

fn should_descend<'tcx>(tcx: TyCtxt<'tcx>, inst: &Instance<'tcx>) -> bool {
    let did = inst.def_id();
    if did.is_local() {
        return true;
    }
    match inst.def {
        InstanceKind::CloneShim(..) | InstanceKind::ClosureOnceShim { .. } | InstanceKind::FnPtrShim(..) => {
            return true
        }
        InstanceKind::DropGlue(..) | InstanceKind::Virtual(..) | InstanceKind::Intrinsic(_) => return false,
        _ => {}
    }
    let p = with_no_trimmed_paths!(tcx.def_path_str(did));
    let k = inst_key(*inst);
    DESCEND_PREFIXES.iter().any(|pre| p.starts_with(pre) || k.starts_with(pre) || k.starts_with(&format!("<{}", pre)))
        || k.contains(" as num_traits::")
        || k.contains(" as core::ops::")
        || k.contains(" as std::ops::")
        || k.contains(" as core::cmp::")
        || k.contains(" as std::cmp::")
        || k.contains(" as core::clone::")
        || k.contains(" as std::clone::")
        || k.contains(" as core::convert::")
        || k.contains(" as std::convert::")
        || k.contains(" as core::default::")
        || k.contains(" as std::default::")
        || k.contains(" as core::iter::range::")
        || (k.contains("core::ops::Range<") && k.contains("Iterator"))
        || (k.contains("std::ops::Range<") && k.contains("Iterator"))
}

pub fn run<'tcx>(tcx: TyCtxt<'tcx>) {
    let out = match std::env::var("DBGSA_OUT") {
        Ok(o) => o,
        Err(_) => return,
    };
    let thorough = std::env::var("DBGSA_THOROUGH").map(|v| v == "1").unwrap_or(false);
    let mut cx = Cx { tcx, types: BTreeMap::new(), adts: BTreeMap::new(), adt_seen: std::collections::HashSet::new() };

    // ---- 1. generic bodies of every local body owner
    let mut fns = Vec::new();
    let mut nbodies = 0usize;
    for ldid in tcx.hir_body_owners() {
        let did = ldid.to_def_id();
        let kind = tcx.def_kind(did);
        if !matches!(kind, DefKind::Fn | DefKind::AssocFn | DefKind::Closure) {
            continue;
        }
        if !tcx.is_mir_available(did) {
            continue;
        }
        let body = tcx.optimized_mir(did);
        let env = TypingEnv::post_analysis(tcx, did);
        let j = cx.body(body, env, false, did);
        fns.push(j);
        nbodies += 1;
    }

    // ---- 2. all local ADTs, impls, aliases
    let mut impls = Vec::new();
    let mut aliases = Vec::new();
    let items = tcx.hir_crate_items(());
    for ldid in items.definitions() {
        let did = ldid.to_def_id();
        match tcx.def_kind(did) {
            DefKind::Struct | DefKind::Enum => cx.adt(did),
            DefKind::Impl { .. } => {
                let st = tcx.type_of(did).instantiate_identity().skip_norm_wip();
                let mut j = J::obj()
                    .with("self", J::s(tystr(st)))
                    .with("derived", J::Bool(tcx.is_automatically_derived(did)));
                if let ty::Adt(ad, _) = st.kind() {
                    j.set("self_adt", J::s(cx.path(ad.did())));
                }
                if let Some(tr) = tcx.impl_opt_trait_ref(did) {
                    let tr = tr.instantiate_identity().skip_norm_wip();
                    j.set("trait", J::s(cx.path(tr.def_id)));
                }
                let (f, l, _) = cx.loc(tcx.def_span(did));
                j.set("file", J::s(f));
                j.set("line", J::UInt(l as u128));
                let mut its = Vec::new();
                for it in tcx.associated_items(did).in_definition_order() {
                    its.push(J::s(cx.path(it.def_id)));
                }
                j.set("items", J::Arr(its));
                impls.push(j);
            }
            DefKind::TyAlias => {
                let t = tcx.type_of(did).instantiate_identity().skip_norm_wip();
                if tcx.generics_of(did).count() == 0 {
                    let tj = cx.ty(t);
                    aliases.push(J::obj().with("name", J::s(cx.path(did))).with("ty", tj));
                }
            }
            _ => {}
        }
    }

    // ---- 3. roots for the monomorphic closure
    let mut roots: Vec<(Instance<'tcx>, J)> = Vec::new();
    let env_mono = TypingEnv::fully_monomorphized();
    let find_trait = |name: &str| -> Option<DefId> {
        tcx.traits(LOCAL_CRATE).iter().copied().find(|d| tcx.item_name(*d).as_str() == name)
    };
    // (a crate may hold private stand-ins with the same identifier in a nested module — serde wire forms, say: the outermost one is meant)
    let find_adt = |name: &str| -> Option<DefId> {
        let mut best: Option<(usize, DefId)> = None;
        for id in items.free_items() {
            let did = id.owner_id.to_def_id();
            if matches!(tcx.def_kind(did), DefKind::Struct | DefKind::Enum) && tcx.item_name(did).as_str() == name {
                let depth = tcx.def_path(did).data.len();
                if best.map_or(true, |(d, _)| depth < d) {
                    best = Some((depth, did));
                }
            }
        }
        best.map(|(_, d)| d)
    };
    let t_kmer = find_trait("Kmer");
    let t_mer = find_trait("Mer");
    let t_vmer = find_trait("Vmer");
    let t_ksize = find_trait("KmerSize");

    // k-mer types
    let mut ktypes: Vec<(Ty<'tcx>, String)> = Vec::new();
    let mut seen_kt = BTreeSet::new();
    let implements = |tr: DefId, meth: &str, t: Ty<'tcx>| -> bool {
        for it in tcx.associated_items(tr).in_definition_order() {
            if it.name().as_str() == meth {
                let args = tcx.mk_args(&[GenericArg::from(t)]);
                let r = std::panic::catch_unwind(std::panic::AssertUnwindSafe(|| {
                    Instance::try_resolve(tcx, env_mono, it.def_id, args).ok().flatten()
                }));
                return matches!(r, Ok(Some(_)));
            }
        }
        false
    };
    if let Some(tk) = t_kmer {
        for id in items.free_items() {
            let did = id.owner_id.to_def_id();
            if matches!(tcx.def_kind(did), DefKind::TyAlias) && tcx.generics_of(did).count() == 0 {
                let t = tcx.type_of(did).instantiate_identity().skip_norm_wip();
                if matches!(t.kind(), ty::Adt(..)) && implements(tk, "k", t) {
                    if seen_kt.insert(tystr(t)) {
                        ktypes.push((t, cx.path(did)));
                    }
                }
            }
        }
        // markers × storage types (VarIntKmer<T, KS>)
        if let (Some(ks), Some(var)) = (t_ksize, find_adt("VarIntKmer")) {
            let var_def = tcx.adt_def(var);
            let ints: [(Ty<'tcx>, u64); 5] = [
                (tcx.types.u8, 8),
                (tcx.types.u16, 16),
                (tcx.types.u32, 32),
                (tcx.types.u64, 64),
                (tcx.types.u128, 128),
            ];
            for im in tcx.all_impls(ks) {
                let st = tcx.type_of(im).instantiate_identity().skip_norm_wip();
                // constant returned by K()
                let mut kval: Option<u64> = None;
                for it in tcx.associated_items(im).in_definition_order() {
                    if it.name().as_str() == "K" && tcx.is_mir_available(it.def_id) {
                        let b = tcx.optimized_mir(it.def_id);
                        for bb in b.basic_blocks.iter() {
                            for s in bb.statements.iter() {
                                if let StatementKind::Assign(a) = &s.kind {
                                    if let Rvalue::Use(Operand::Constant(c), _) = &a.1 {
                                        if a.0.local == mir::RETURN_PLACE {
                                            if let Some(si) = c.const_.try_eval_scalar_int(tcx, env_mono) {
                                                kval = Some(si.to_bits(si.size()) as u64);
                                            }
                                        }
                                    }
                                }
                            }
                        }
                    }
                }
                let Some(k) = kval else { continue };
                let mut first = true;
                for (it, bits) in ints.iter() {
                    if 2 * k > *bits {
                        continue;
                    }
                    // quick: only the smallest storage that fits, and only if no alias covers this marker
                    let args = tcx.mk_args(&[GenericArg::from(*it), GenericArg::from(st)]);
                    let t = Ty::new_adt(tcx, var_def, args);
                    let covered = ktypes.iter().any(|(kt, _)| {
                        if let ty::Adt(d, a) = kt.kind() {
                            d.did() == var && a.len() == 2 && a[1].as_type() == Some(st)
                        } else {
                            false
                        }
                    });
                    let take = if thorough { true } else { first && !covered };
                    first = false;
                    if take && implements(tk, "k", t) && seen_kt.insert(tystr(t)) {
                        ktypes.push((t, format!("(marker {} on {})", tystr(st), tystr(*it))));
                    }
                }
            }
        }
    }

    let mut kt_json = Vec::new();
    for (t, alias) in ktypes.iter() {
        let tj = cx.ty(*t);
        kt_json.push(J::obj().with("ty", tj).with("alias", J::s(alias.clone())));
    }

    // helper: add every assoc fn of trait `tr` for self type `t` (no own generics), or with one
    // extra type parameter instantiated by each k-mer type.
    let mut add_trait_methods = |cx: &mut Cx<'tcx>, tr: DefId, t: Ty<'tcx>, roots: &mut Vec<(Instance<'tcx>, J)>| {
        for it in tcx.associated_items(tr).in_definition_order() {
            if !it.is_fn() {
                continue;
            }
            let g = tcx.generics_of(it.def_id);
            let own_ty: Vec<_> = g
                .own_params
                .iter()
                .filter(|p| matches!(p.kind, ty::GenericParamDefKind::Type { .. }))
                .collect();
            let own_lt = g.own_params.iter().filter(|p| matches!(p.kind, ty::GenericParamDefKind::Lifetime)).count();
            if own_ty.len() == 0 {
                let mut v: Vec<GenericArg<'tcx>> = vec![GenericArg::from(t)];
                for _ in 0..own_lt {
                    v.push(GenericArg::from(tcx.lifetimes.re_erased));
                }
                if g.count() != v.len() {
                    continue;
                }
                let args = tcx.mk_args(&v);
                let r = std::panic::catch_unwind(std::panic::AssertUnwindSafe(|| {
                    Instance::try_resolve(tcx, env_mono, it.def_id, args).ok().flatten()
                }));
                if let Ok(Some(inst)) = r {
                    let meta = J::obj()
                        .with("trait", J::s(cx.path(tr)))
                        .with("method", J::s(it.name().to_string()))
                        .with("self", J::s(tystr(t)));
                    roots.push((inst, meta));
                }
            } else if own_ty.len() == 1 && own_lt == 0 && g.count() == 2 {
                for (kt, _) in ktypes.iter() {
                    let args = tcx.mk_args(&[GenericArg::from(t), GenericArg::from(*kt)]);
                    let r = std::panic::catch_unwind(std::panic::AssertUnwindSafe(|| {
                        Instance::try_resolve(tcx, env_mono, it.def_id, args).ok().flatten()
                    }));
                    if let Ok(Some(inst)) = r {
                        let meta = J::obj()
                            .with("trait", J::s(cx.path(tr)))
                            .with("method", J::s(it.name().to_string()))
                            .with("self", J::s(tystr(t)))
                            .with("k", J::s(tystr(*kt)));
                        roots.push((inst, meta));
                    }
                }
            }
        }
    };

    if let (Some(tm), Some(tk)) = (t_mer, t_kmer) {
        let t_immut = find_trait("MerImmut");
        for (t, _) in ktypes.clone().iter() {
            add_trait_methods(&mut cx, tm, *t, &mut roots);
            add_trait_methods(&mut cx, tk, *t, &mut roots);
            if let Some(ti) = t_immut {
                add_trait_methods(&mut cx, ti, *t, &mut roots);
            }
        }
    }
    // comparison traits of the k-mer types (derived impls: eq / partial_cmp / cmp / lt …)
    {
        let li = tcx.lang_items();
        let mut cmp_traits: Vec<DefId> = Vec::new();
        if let Some(d) = li.eq_trait() {
            cmp_traits.push(d);
        }
        if let Some(d) = li.partial_ord_trait() {
            cmp_traits.push(d);
        }
        if let Some(d) = tcx.get_diagnostic_item(rustc_span::sym::Ord) {
            cmp_traits.push(d);
        }
        // text rendering of the k-mer types ({:?} / {})
        if let Some(d) = tcx.get_diagnostic_item(rustc_span::sym::Debug) {
            cmp_traits.push(d);
        }
        if let Some(d) = tcx.get_diagnostic_item(rustc_span::sym::Display) {
            cmp_traits.push(d);
        }
        for (t, _) in ktypes.iter() {
            for tr in cmp_traits.iter() {
                let n = tcx.generics_of(*tr).count();
                let v: Vec<GenericArg<'tcx>> = (0..n).map(|_| GenericArg::from(*t)).collect();
                for it in tcx.associated_items(*tr).in_definition_order() {
                    if !it.is_fn() || tcx.generics_of(it.def_id).count() != n {
                        continue;
                    }
                    let args = tcx.mk_args(&v);
                    let r = std::panic::catch_unwind(std::panic::AssertUnwindSafe(|| {
                        Instance::try_resolve(tcx, env_mono, it.def_id, args).ok().flatten()
                    }));
                    if let Ok(Some(inst)) = r {
                        let meta = J::obj()
                            .with("trait", J::s(cx.path(*tr)))
                            .with("method", J::s(it.name().to_string()))
                            .with("self", J::s(tystr(*t)));
                        roots.push((inst, meta));
                    }
                }
            }
        }
    }
    // containers
    let mut containers: Vec<Ty<'tcx>> = Vec::new();
    if let Some(d) = find_adt("DnaString") {
        containers.push(Ty::new_adt(tcx, tcx.adt_def(d), tcx.mk_args(&[])));
    }
    if let Some(d) = find_adt("DnaStringSlice") {
        containers.push(Ty::new_adt(
            tcx,
            tcx.adt_def(d),
            tcx.mk_args(&[GenericArg::from(tcx.lifetimes.re_erased)]),
        ));
    }
    if let Some(d) = find_adt("DnaBytes") {
        containers.push(Ty::new_adt(tcx, tcx.adt_def(d), tcx.mk_args(&[])));
    }
    if let Some(d) = find_adt("DnaSlice") {
        containers.push(Ty::new_adt(
            tcx,
            tcx.adt_def(d),
            tcx.mk_args(&[GenericArg::from(tcx.lifetimes.re_erased)]),
        ));
    }
    if let Some(d) = find_adt("Lmer") {
        let maxn = 6;
        for n in 1..=maxn {
            let arr = Ty::new_array(tcx, tcx.types.u64, n);
            containers.push(Ty::new_adt(tcx, tcx.adt_def(d), tcx.mk_args(&[GenericArg::from(arr)])));
        }
    }
    let mut cont_json = Vec::new();
    for c in containers.iter() {
        cont_json.push(cx.ty(*c));
    }
    if let (Some(tm), Some(tv)) = (t_mer, t_vmer) {
        let t_immut_c = find_trait("MerImmut");
        for c in containers.clone().iter() {
            if implements(tm, "len", *c) {
                add_trait_methods(&mut cx, tm, *c, &mut roots);
                // the immutable writes (blanket impl for every Mer + Clone)
                if let Some(ti) = t_immut_c {
                    if implements(ti, "set", *c) {
                        add_trait_methods(&mut cx, ti, *c, &mut roots);
                    }
                }
            }
            if implements(tv, "max_len", *c) {
                add_trait_methods(&mut cx, tv, *c, &mut roots);
            }
        }
    }
    // comparison and rendering traits of the containers (derived or hand-written): eq / partial_cmp / cmp / fmt
    {
        let li = tcx.lang_items();
        let mut trs: Vec<DefId> = Vec::new();
        if let Some(d) = li.eq_trait() {
            trs.push(d);
        }
        if let Some(d) = li.partial_ord_trait() {
            trs.push(d);
        }
        for sym in [rustc_span::sym::Ord, rustc_span::sym::Debug, rustc_span::sym::Display] {
            if let Some(d) = tcx.get_diagnostic_item(sym) {
                trs.push(d);
            }
        }
        for c in containers.iter() {
            for tr in trs.iter() {
                let n = tcx.generics_of(*tr).count();
                let v: Vec<GenericArg<'tcx>> = (0..n).map(|_| GenericArg::from(*c)).collect();
                for it in tcx.associated_items(*tr).in_definition_order() {
                    if !it.is_fn() || tcx.generics_of(it.def_id).count() != n {
                        continue;
                    }
                    let args = tcx.mk_args(&v);
                    let r = std::panic::catch_unwind(std::panic::AssertUnwindSafe(|| {
                        Instance::try_resolve(tcx, env_mono, it.def_id, args).ok().flatten()
                    }));
                    if let Ok(Some(inst)) = r {
                        let meta = J::obj()
                            .with("trait", J::s(cx.path(*tr)))
                            .with("method", J::s(it.name().to_string()))
                            .with("self", J::s(tystr(*c)));
                        roots.push((inst, meta));
                    }
                }
            }
        }
    }
    // Hash::hash of the k-mer types and the containers with the standard library's DefaultHasher (the hasher type is taken from a body of
    // the crate that creates one — no other way to name it from here)
    {
        let mut hasher_ty: Option<Ty<'tcx>> = None;
        for ldid in tcx.hir_body_owners() {
            let did = ldid.to_def_id();
            if !matches!(tcx.def_kind(did), DefKind::Fn | DefKind::AssocFn) || !tcx.is_mir_available(did) {
                continue;
            }
            let body = tcx.optimized_mir(did);
            for bb in body.basic_blocks.iter() {
                if let TerminatorKind::Call { func, destination, .. } = &bb.terminator().kind {
                    if let Some((cd, _)) = func.const_fn_def() {
                        if tcx.def_path_str(cd).ends_with("DefaultHasher::new") {
                            hasher_ty = Some(destination.ty(&body.local_decls, tcx).ty);
                        }
                    }
                }
            }
        }
        if let (Some(hty), Some(t_hash)) = (hasher_ty, tcx.get_diagnostic_item(rustc_span::sym::Hash)) {
            let hm = tcx.associated_items(t_hash).in_definition_order().find(|it| it.is_fn() && it.name().as_str() == "hash").map(|it| it.def_id);
            if let Some(hm) = hm {
                let mut tys: Vec<Ty<'tcx>> = ktypes.iter().map(|(t, _)| *t).collect();
                tys.extend(containers.iter().copied());
                for t in tys.iter() {
                    let args = tcx.mk_args(&[GenericArg::from(*t), GenericArg::from(hty)]);
                    let r = std::panic::catch_unwind(std::panic::AssertUnwindSafe(|| {
                        Instance::try_resolve(tcx, env_mono, hm, args).ok().flatten()
                    }));
                    if let Ok(Some(inst)) = r {
                        roots.push((
                            inst,
                            J::obj().with("trait", J::s("Hash")).with("method", J::s("hash")).with("self", J::s(tystr(*t))),
                        ));
                    }
                }
            }
        }
    }
    // base iteration over the containers: `<&C as IntoIterator>::into_iter` and, for the (crate-local) iterator type it returns, every
    // method of its `impl Iterator` (next and any overridden provided method)
    if let (Some(t_into), Some(t_iter)) =
        (tcx.get_diagnostic_item(rustc_span::sym::IntoIterator), tcx.get_diagnostic_item(rustc_span::sym::Iterator))
    {
        let into_m = tcx.associated_items(t_into).in_definition_order().find(|it| it.is_fn() && it.name().as_str() == "into_iter").map(|it| it.def_id);
        if let Some(into_m) = into_m {
            // things iterated: &C for every container; a graph node's k-mer handle NodeKmer<'_, K, ()> for a spread of k-mer types
            let mut iterated: Vec<(Ty<'tcx>, Ty<'tcx>)> = Vec::new();
            for c in containers.iter() {
                iterated.push((Ty::new_imm_ref(tcx, tcx.lifetimes.re_erased, *c), *c));
            }
            if let Some(nk) = find_adt("NodeKmer") {
                if tcx.generics_of(nk).count() == 3 {
                    for (kt, _) in ktypes.iter() {
                        let sname = tystr(*kt);
                        if sname.contains("K3>") || sname == "kmer::IntKmer<u64>" || sname.contains("K48>") || thorough {
                            let t = Ty::new_adt(
                                tcx,
                                tcx.adt_def(nk),
                                tcx.mk_args(&[GenericArg::from(tcx.lifetimes.re_erased), GenericArg::from(*kt), GenericArg::from(tcx.types.unit)]),
                            );
                            iterated.push((t, t));
                        }
                    }
                }
            }
            for (rty, c) in iterated.iter() {
                let rty = *rty;
                let args = tcx.mk_args(&[GenericArg::from(rty)]);
                let r = std::panic::catch_unwind(std::panic::AssertUnwindSafe(|| {
                    Instance::try_resolve(tcx, env_mono, into_m, args).ok().flatten()
                }));
                let Ok(Some(inst)) = r else { continue };
                if !inst.def_id().is_local() {
                    continue;
                }
                roots.push((
                    inst,
                    J::obj().with("trait", J::s("IntoIterator")).with("method", J::s("into_iter")).with("self", J::s(tystr(rty))),
                ));
                let rt = std::panic::catch_unwind(std::panic::AssertUnwindSafe(|| {
                    let body = tcx.instance_mir(inst.def);
                    let t0 = body.local_decls[mir::RETURN_PLACE].ty;
                    inst.instantiate_mir_and_normalize_erasing_regions(tcx, env_mono, EarlyBinder::bind(t0))
                }));
                let Ok(ity) = rt else { continue };
                let ty::Adt(iad, _) = ity.kind() else { continue };
                if !iad.did().is_local() {
                    continue;
                }
                for imp in tcx.all_impls(t_iter) {
                    if !imp.is_local() {
                        continue;
                    }
                    let st = tcx.type_of(imp).instantiate_identity().skip_norm_wip();
                    let ty::Adt(ad, _) = st.kind() else { continue };
                    if ad.did() != iad.did() {
                        continue;
                    }
                    for it in tcx.associated_items(imp).in_definition_order() {
                        if !it.is_fn() {
                            continue;
                        }
                        let Some(tm_) = it.trait_item_def_id() else { continue };
                        if tcx.generics_of(tm_).count() != 1 {
                            continue;
                        }
                        let a2 = tcx.mk_args(&[GenericArg::from(ity)]);
                        let r2 = std::panic::catch_unwind(std::panic::AssertUnwindSafe(|| {
                            Instance::try_resolve(tcx, env_mono, tm_, a2).ok().flatten()
                        }));
                        if let Ok(Some(i2)) = r2 {
                            roots.push((
                                i2,
                                J::obj()
                                    .with("trait", J::s("Iterator"))
                                    .with("method", J::s(tcx.item_name(tm_).to_string()))
                                    .with("self", J::s(tystr(ity)))
                                    .with("of", J::s(tystr(*c))),
                            ));
                        }
                    }
                }
            }
        }
    }
    // base iteration through the trait's own `Mer::iter` (k-mer types and containers alike): for the crate-local iterator type it returns,
    // every method of its `impl Iterator`
    if let (Some(tm), Some(t_iter)) = (t_mer, tcx.get_diagnostic_item(rustc_span::sym::Iterator)) {
        let iter_m = tcx.associated_items(tm).in_definition_order().find(|it| it.is_fn() && it.name().as_str() == "iter").map(|it| it.def_id);
        if let Some(iter_m) = iter_m {
            let mut subjects: Vec<Ty<'tcx>> = Vec::new();
            for (kt, _) in ktypes.iter() {
                subjects.push(*kt);
            }
            for c in containers.iter() {
                subjects.push(*c);
            }
            for sty in subjects.iter() {
                let sty = *sty;
                let args = tcx.mk_args(&[GenericArg::from(sty)]);
                let r = std::panic::catch_unwind(std::panic::AssertUnwindSafe(|| {
                    Instance::try_resolve(tcx, env_mono, iter_m, args).ok().flatten()
                }));
                let Ok(Some(inst)) = r else { continue };
                if !inst.def_id().is_local() {
                    continue;
                }
                let rt = std::panic::catch_unwind(std::panic::AssertUnwindSafe(|| {
                    let body = tcx.instance_mir(inst.def);
                    let t0 = body.local_decls[mir::RETURN_PLACE].ty;
                    inst.instantiate_mir_and_normalize_erasing_regions(tcx, env_mono, EarlyBinder::bind(t0))
                }));
                let Ok(ity) = rt else { continue };
                let ty::Adt(iad, _) = ity.kind() else { continue };
                if !iad.did().is_local() {
                    continue;
                }
                for imp in tcx.all_impls(t_iter) {
                    if !imp.is_local() {
                        continue;
                    }
                    let st = tcx.type_of(imp).instantiate_identity().skip_norm_wip();
                    let ty::Adt(ad, _) = st.kind() else { continue };
                    if ad.did() != iad.did() {
                        continue;
                    }
                    for it in tcx.associated_items(imp).in_definition_order() {
                        if !it.is_fn() {
                            continue;
                        }
                        let Some(tm_) = it.trait_item_def_id() else { continue };
                        if tcx.generics_of(tm_).count() != 1 {
                            continue;
                        }
                        let a2 = tcx.mk_args(&[GenericArg::from(ity)]);
                        let r2 = std::panic::catch_unwind(std::panic::AssertUnwindSafe(|| {
                            Instance::try_resolve(tcx, env_mono, tm_, a2).ok().flatten()
                        }));
                        if let Ok(Some(i2)) = r2 {
                            roots.push((
                                i2,
                                J::obj()
                                    .with("trait", J::s("Iterator"))
                                    .with("method", J::s(tcx.item_name(tm_).to_string()))
                                    .with("self", J::s(tystr(ity)))
                                    .with("of", J::s(tystr(sty)))
                                    .with("via", J::s("Mer::iter")),
                            ));
                        }
                    }
                }
            }
        }
    }
    // the k-mer iterators over sequence containers: every method of `impl Iterator for KmerIter / KmerExtsIter` (next and any
    // overridden provided method), for every container x a spread of k-mer types
    if let Some(t_iter) = tcx.get_diagnostic_item(rustc_span::sym::Iterator) {
        let mut kpick: Vec<Ty<'tcx>> = Vec::new();
        for (kt, _) in ktypes.iter() {
            let sname = tystr(*kt);
            if sname.contains("K3>") || sname == "kmer::IntKmer<u8>" || sname == "kmer::IntKmer<u64>" || sname.contains("K48>") || thorough {
                kpick.push(*kt);
            }
        }
        for iname in ["KmerIter", "KmerExtsIter"] {
            if let Some(idid) = find_adt(iname) {
                let g = tcx.generics_of(idid);
                if g.count() != 3 {
                    continue;
                }
                // the impl's own (overridden) methods
                let mut meths: Vec<DefId> = Vec::new();
                for imp in tcx.all_impls(t_iter) {
                    if !imp.is_local() {
                        continue;
                    }
                    let st = tcx.type_of(imp).instantiate_identity().skip_norm_wip();
                    if let ty::Adt(ad, _) = st.kind() {
                        if ad.did() == idid {
                            for it in tcx.associated_items(imp).in_definition_order() {
                                if it.is_fn() {
                                    if let Some(tm_) = it.trait_item_def_id() {
                                        meths.push(tm_);
                                    }
                                }
                            }
                        }
                    }
                }
                for c in containers.clone().iter() {
                    for kt in kpick.iter() {
                        let selfty = Ty::new_adt(
                            tcx,
                            tcx.adt_def(idid),
                            tcx.mk_args(&[GenericArg::from(tcx.lifetimes.re_erased), GenericArg::from(*kt), GenericArg::from(*c)]),
                        );
                        for m in meths.iter() {
                            if tcx.generics_of(*m).count() != 1 {
                                continue;
                            }
                            let args = tcx.mk_args(&[GenericArg::from(selfty)]);
                            let r = std::panic::catch_unwind(std::panic::AssertUnwindSafe(|| {
                                Instance::try_resolve(tcx, env_mono, *m, args).ok().flatten()
                            }));
                            if let Ok(Some(inst)) = r {
                                let meta = J::obj()
                                    .with("trait", J::s("Iterator"))
                                    .with("method", J::s(tcx.item_name(*m).to_string()))
                                    .with("self", J::s(tystr(selfty)));
                                roots.push((inst, meta));
                            }
                        }
                    }
                }
            }
        }
    }
    // free generic fns with exactly one type parameter bounded by Kmer (e.g. filter::bucket)
    for ldid in tcx.hir_body_owners() {
        let did = ldid.to_def_id();
        if !matches!(tcx.def_kind(did), DefKind::Fn) {
            continue;
        }
        let g = tcx.generics_of(did);
        if g.count() == 1 && g.own_params.len() == 1 && matches!(g.own_params[0].kind, ty::GenericParamDefKind::Type { .. }) {
            // the single type parameter must be bounded by Kmer (so that every k-mer type is a legal instantiation)
            let Some(tk) = t_kmer else { continue };
            let param_ty = Ty::new_param(tcx, g.own_params[0].index, g.own_params[0].name);
            let mut bounded = false;
            for (clause, _) in tcx.predicates_of(did).predicates.iter() {
                if let Some(tp) = clause.as_trait_clause() {
                    let tp = tp.skip_binder();
                    if tp.def_id() == tk && tp.self_ty() == param_ty {
                        bounded = true;
                    }
                }
            }
            if !bounded {
                continue;
            }
            for (kt, _) in ktypes.iter() {
                let args = tcx.mk_args(&[GenericArg::from(*kt)]);
                let r = std::panic::catch_unwind(std::panic::AssertUnwindSafe(|| {
                    Instance::try_resolve(tcx, env_mono, did, args).ok().flatten()
                }));
                if let Ok(Some(inst)) = r {
                    let meta = J::obj().with("free", J::s(cx.path(did))).with("k", J::s(tystr(*kt)));
                    roots.push((inst, meta));
                }
            }
        }
    }
    // every non-generic local fn is its own instance
    for ldid in tcx.hir_body_owners() {
        let did = ldid.to_def_id();
        if !matches!(tcx.def_kind(did), DefKind::Fn | DefKind::AssocFn) {
            continue;
        }
        let g = tcx.generics_of(did);
        if g.requires_monomorphization(tcx) {
            continue;
        }
        let args = ty::GenericArgs::for_item(tcx, did, |p, _| match p.kind {
            ty::GenericParamDefKind::Lifetime => GenericArg::from(tcx.lifetimes.re_erased),
            _ => panic!("unexpected generic param"),
        });
        let r = std::panic::catch_unwind(std::panic::AssertUnwindSafe(|| {
            Instance::try_resolve(tcx, env_mono, did, args).ok().flatten()
        }));
        if let Ok(Some(inst)) = r {
            let meta = J::obj().with("nongeneric", J::s(cx.path(did)));
            roots.push((inst, meta));
        }
    }

    // ---- 4. instance closure
    let mut insts: Vec<J> = Vec::new();
    let mut externs: Vec<J> = Vec::new();
    let mut seen: BTreeSet<String> = BTreeSet::new();
    let mut work: VecDeque<Instance<'tcx>> = VecDeque::new();
    let mut roots_json = Vec::new();
    for (inst, meta) in roots.iter() {
        let key = inst_key(*inst);
        roots_json.push(meta.clone().with("key", J::s(key.clone())));
        if seen.insert(key) {
            work.push_back(*inst);
        }
    }
    let max_insts: usize = std::env::var("DBGSA_MAX_INSTS").ok().and_then(|s| s.parse().ok()).unwrap_or(20000);
    while let Some(inst) = work.pop_front() {
        if insts.len() >= max_insts {
            break;
        }
        let key = inst_key(inst);
        let did = inst.def_id();
        let has_mir = match inst.def {
            InstanceKind::Item(d) => tcx.is_mir_available(d),
            InstanceKind::Intrinsic(_) | InstanceKind::Virtual(..) => false,
            _ => true,
        };
        if !has_mir || !should_descend(tcx, &inst) {
            externs.push(
                J::obj()
                    .with("key", J::s(key))
                    .with("path", J::s(cx.path(did)))
                    .with("kind", J::s(inst_kind(&inst)))
                    .with("has_mir", J::Bool(has_mir)),
            );
            continue;
        }
        let r = std::panic::catch_unwind(std::panic::AssertUnwindSafe(|| {
            let body = tcx.instance_mir(inst.def);
            inst.instantiate_mir_and_normalize_erasing_regions(tcx, env_mono, EarlyBinder::bind(body.clone()))
        }));
        let body = match r {
            Ok(b) => b,
            Err(_) => {
                externs.push(J::obj().with("key", J::s(key)).with("path", J::s(cx.path(did))).with("kind", J::s("failed")));
                continue;
            }
        };
        // collect callees
        for bb in body.basic_blocks.iter() {
            if let TerminatorKind::Call { func, .. } = &bb.terminator().kind {
                if let Operand::Constant(c) = func {
                    if let ty::FnDef(cd, cargs) = c.const_.ty().kind() {
                        let r = std::panic::catch_unwind(std::panic::AssertUnwindSafe(|| {
                            Instance::try_resolve(tcx, env_mono, *cd, cargs).ok().flatten()
                        }));
                        if let Ok(Some(ci)) = r {
                            let ck = inst_key(ci);
                            if seen.insert(ck) {
                                work.push_back(ci);
                            }
                        }
                    }
                }
            }
            // closures constructed here may only be invoked from library code we do not descend into
            // (Iterator::fold, map, …): add their bodies explicitly
            for st in bb.statements.iter() {
                if let StatementKind::Assign(a) = &st.kind {
                    if let Rvalue::Aggregate(ak, _) = &a.1 {
                        if let AggregateKind::Closure(cd, cargs) = &**ak {
                            let ci = Instance::new_raw(*cd, cargs);
                            let ck = inst_key(ci);
                            if seen.insert(ck) {
                                work.push_back(ci);
                            }
                        }
                    }
                }
            }
        }
        let mut j = cx.body(&body, env_mono, true, did);
        j.set("key", J::s(key));
        j.set("ikind", J::s(inst_kind(&inst)));
        let mut targs = Vec::new();
        for ga in inst.args.iter() {
            if let Some(t) = ga.as_type() {
                targs.push(cx.ty(t));
            }
        }
        j.set("targs", J::Arr(targs));
        insts.push(j);
    }

    // ---- 5. write
    let mut types = Vec::new();
    for (k, v) in cx.types.iter() {
        types.push((k.clone(), v.clone()));
    }
    let mut adts = Vec::new();
    for (k, v) in cx.adts.iter() {
        adts.push((k.clone(), v.clone()));
    }
    let top = J::obj()
        .with("crate", J::s(tcx.crate_name(LOCAL_CRATE).to_string()))
        .with("n_bodies", J::UInt(nbodies as u128))
        .with("thorough", J::Bool(thorough))
        .with("fns", J::Arr(fns))
        .with("insts", J::Arr(insts))
        .with("externs", J::Arr(externs))
        .with("roots", J::Arr(roots_json))
        .with("kmer_types", J::Arr(kt_json))
        .with("containers", J::Arr(cont_json))
        .with("impls", J::Arr(impls))
        .with("aliases", J::Arr(aliases))
        .with("adts", J::Obj(adts))
        .with("types", J::Obj(types));
    let mut s = String::new();
    top.write(&mut s);
    std::fs::write(&out, s).expect("write facts");
}
