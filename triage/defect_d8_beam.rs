use debruijn::*;
use debruijn::dna_string::*;
use debruijn::kmer::*;
use debruijn::compression::*;
use debruijn::filter::*;

#[test] fn beam_cycle() {
    // circular contig read more than once round: a single node whose right end links to its own left end
    let unit = "ACGTTGCAAGGCTTAACCGGATATCGCGAATTCC";
    let read = format!("{}{}{}", unit, unit, &unit[..10]);
    let seqs = vec![(DnaString::from_dna_string(&read), Exts::empty(), ())];
    let (idx, _) = filter_kmers::<Kmer8, _, _, _, _>(&seqs, &Box::new(CountFilter::new(1)), true, false, 4);
    let spec = SimpleCompress::new(|a: u16, b: &u16| a.saturating_add(*b));
    let g = compress_kmers_with_hash(true, &spec, &idx).finish();
    println!("nodes {}", g.len());
    g.print();
    let p = g.max_path_beam(5, |d| *d as f32, |_| true);
    println!("beam path {:?}", p);
    let mut ids: Vec<usize> = p.iter().map(|x| x.0).collect();
    let n = ids.len(); ids.sort(); ids.dedup();
    assert_eq!(n, ids.len(), "beam path repeats a node: {:?}", p);
    let p2 = g.max_path(|d| *d as f32, |_| true);
    println!("greedy path {:?}", p2);
}
