use debruijn::*;
use debruijn::dna_string::*;
use debruijn::kmer::*;
use debruijn::compression::*;
use debruijn::graph::*;
use debruijn::filter::*;

#[test] fn d1_hamming() {
    let a = DnaString::from_bytes(&vec![0u8; 1024]);
    let mut bb = vec![0u8; 1024]; bb[0] = 1;
    let b = DnaString::from_bytes(&bb);
    assert_eq!(a.slice(0,1024).hamming_dist(&b.slice(0,1024)), 1);
    let a = DnaString::from_bytes(&vec![0u8; 2048]);
    let mut bb = vec![0u8; 2048]; bb[1] = 1; bb[40]=2; bb[2047]=3;
    let b = DnaString::from_bytes(&bb);
    assert_eq!(a.slice(0,2048).hamming_dist(&b.slice(0,2048)), 3);
}
#[test] fn d2_debug() {
    let s = DnaString::from_dna_string("AACG");
    let r = s.slice(0,4).rc();
    assert_eq!(format!("{}", r), "CGTT");
    assert_eq!(format!("{:?}", r), "CGTT");
}
fn graph(reads: &[&str], stranded: bool) -> DebruijnGraph<Kmer4, u16> {
    let seqs: Vec<(DnaString, Exts, ())> = reads.iter().map(|r| (DnaString::from_dna_string(r), Exts::empty(), ())).collect();
    let (idx, _) = filter_kmers::<Kmer4, _, _, _, _>(&seqs, &Box::new(CountFilter::new(1)), stranded, false, 4);
    let spec = SimpleCompress::new(|a: u16, b: &u16| a.saturating_add(*b));
    compress_kmers_with_hash(stranded, &spec, &idx).finish()
}
#[test] fn d3_nth() {
    let g = graph(&["ACGATTCAGGCATCA"], true);
    for n in &g { 
        let cnt = n.clone().into_iter().count();
        let mut it = n.clone().into_iter();
        assert!(it.nth(cnt + 5).is_none());
        assert!(it.next().is_none());
    }
}
#[test] fn d4_json() {
    let g = graph(&["AAAAC", "AAAAG", "CCCCC"], true);
    let mut out = Vec::new();
    g.to_json_rest(|d| serde_json::json!(*d), &mut out, None);
    let s = String::from_utf8(out).unwrap();
    let r: Result<serde_json::Value, _> = serde_json::from_str(&s);
    assert!(r.is_ok(), "{}\n{:?}", s, r);
}
#[test] fn d5_gfa() {
    let seqs = vec![(DnaString::from_dna_string("GGACATGT"), Exts::empty(), ())];
    let (idx, _) = filter_kmers::<Kmer5, _, _, _, _>(&seqs, &Box::new(CountFilter::new(1)), false, false, 4);
    let spec = SimpleCompress::new(|a: u16, b: &u16| a.saturating_add(*b));
    let g = compress_kmers_with_hash(false, &spec, &idx).finish();
    let mut out = Vec::new();
    g.write_gfa(&mut out).unwrap();
    let s = String::from_utf8(out).unwrap();
    let mut n_self = 0;
    for i in 0..g.len() { let n = g.get_node(i); for (t,d,_) in n.r_edges() { if t==i { if let Dir::Right = d { n_self+=1; } } } }
    let nl = s.lines().filter(|l| l.starts_with("L")).count();
    assert!(n_self > 0);
    assert!(s.lines().any(|l| { let f: Vec<&str> = l.split('\t').collect(); f[0]=="L" && f[1]==f[3] && f[2]=="+" && f[4]=="-" }), "{} nl={}", s, nl);
}
#[test] fn d6_noexts() {
    let ks: Vec<(Kmer4, u16)> = vec![(Kmer4::from_ascii(b"TTTA"),1),(Kmer4::from_ascii(b"TTAC"),1)];
    let spec = SimpleCompress::new(|a: u16, b: &u16| a.saturating_add(*b));
    let g = compress_kmers_no_exts(true, &spec, &ks);
    assert_eq!(g.len(), 1);
}
#[test] fn d7_u16() {
    let k = 40000; let seq = DnaString::from_bytes(&vec![0u8; 80010]);
    let sc = msp::Scanner::new(&seq, |p: &Kmer5| p.to_u64() as usize, k);
    let r = std::panic::catch_unwind(std::panic::AssertUnwindSafe(|| sc.scan()));
    match r { Err(_) => (), Ok(v) => { for i in &v { assert!(i.len as usize >= k, "len {} < k", i.len); } } }
}
