#!/bin/sh
# development aid: harvest wave-2 refactorings /tmp/ref/Rn/out2/r{1..4}.diff -> /verif/refactors/Rn/r{5..8}.diff (+ meta2.json)
n=$1
for i in 1 2 3 4; do
  src=/tmp/ref/R$n/out2/r$i.diff
  [ -f $src ] && cp $src /verif/refactors/R$n/r$((i+4)).diff && echo "harvested R$n r$((i+4))"
done
[ -f /tmp/ref/R$n/out2/meta.json ] && cp /tmp/ref/R$n/out2/meta.json /verif/refactors/R$n/meta2.json
