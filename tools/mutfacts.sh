#!/bin/sh
# development aid: facts of /repo HEAD + seeded/<id>/patch.diff  ->  /tmp/mf_<id>.json   (worktree removed afterwards)
id=$1; wt=/tmp/mfwt.$$
git -C /repo worktree add --detach -f $wt HEAD >/dev/null 2>&1
git -C $wt apply /verif/seeded/$id/patch.diff || { echo "apply failed"; }
cd /verif && VERIF_REPO=$wt python3 - $id "$2" <<'PY'
import sys, json
sys.path.insert(0, '/verif')
from pysa import facts
d, info = facts.run_driver(thorough=(sys.argv[2] == '--thorough'))
json.dump(d, open('/tmp/mf_%s.json' % sys.argv[1], 'w'))
print(info)
PY
git -C /repo worktree remove --force $wt; git -C /repo worktree prune
