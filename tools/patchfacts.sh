#!/bin/sh
# development aid: facts of /repo HEAD + an arbitrary patch file  ->  /tmp/pf_<name>.json   (worktree removed afterwards)
# usage: tools/patchfacts.sh <patch.diff> <name> [sed-expression file-to-edit]
pf=$1; name=$2; wt=/tmp/pfwt.$$
git -C /repo worktree add --detach -f $wt HEAD >/dev/null 2>&1
git -C $wt apply $pf || { echo "apply failed"; }
if [ -n "$3" ]; then sed -i "$3" $wt/$4; (cd $wt && cargo build --offline 2>&1 | tail -2); fi
cd /verif && VERIF_REPO=$wt python3 - $name <<'PY'
import sys, json
sys.path.insert(0, '/verif')
from pysa import facts
d, info = facts.run_driver(thorough=False)
json.dump(d, open('/tmp/pf_%s.json' % sys.argv[1], 'w'))
print(info)
PY
rm -rf $wt/target; git -C /repo worktree remove --force $wt; git -C /repo worktree prune
