#!/bin/sh
# development aid: harvest wave-7 refactorings /tmp/ref/Rn/out7/r{1..3}.diff -> /verif/refactors/Rn/r{27..29}.diff (+ meta10.json, patch names rewritten)
n=$1
for i in 1 2 3; do
  src=/tmp/ref/R$n/out7/r$i.diff
  [ -f $src ] && cp $src /verif/refactors/R$n/r$((i+26)).diff && echo "harvested R$n r$((i+26))"
done
[ -f /tmp/ref/R$n/out7/meta.json ] && sed -e 's/"r1.diff"/"r27.diff"/; s/"r2.diff"/"r28.diff"/; s/"r3.diff"/"r29.diff"/' /tmp/ref/R$n/out7/meta.json > /verif/refactors/R$n/meta10.json
