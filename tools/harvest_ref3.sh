#!/bin/sh
# development aid: harvest wave-3 refactorings /tmp/ref/Rn/out3/r{1..4}.diff -> /verif/refactors/Rn/r{9..12}.diff (+ meta3.json)
n=$1
for i in 1 2 3 4; do
  src=/tmp/ref/R$n/out3/r$i.diff
  [ -f $src ] && cp $src /verif/refactors/R$n/r$((i+8)).diff && echo "harvested R$n r$((i+8))"
done
[ -f /tmp/ref/R$n/out3/meta.json ] && cp /tmp/ref/R$n/out3/meta.json /verif/refactors/R$n/meta3.json
