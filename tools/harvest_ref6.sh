#!/bin/sh
# development aid: harvest wave-6 refactorings /tmp/ref/Rn/out6/r{1..3}.diff -> /verif/refactors/Rn/r{24..26}.diff (+ meta9.json, patch names rewritten)
# (r23 in R1 is a correct variant constructed from a repaired seeded change, see R1/meta8.json)
n=$1
for i in 1 2 3; do
  src=/tmp/ref/R$n/out6/r$i.diff
  [ -f $src ] && cp $src /verif/refactors/R$n/r$((i+23)).diff && echo "harvested R$n r$((i+23))"
done
[ -f /tmp/ref/R$n/out6/meta.json ] && sed -e 's/"r1.diff"/"r24.diff"/; s/"r2.diff"/"r25.diff"/; s/"r3.diff"/"r26.diff"/' /tmp/ref/R$n/out6/meta.json > /verif/refactors/R$n/meta9.json
