#!/bin/sh
# run every claimed quick (or $1=thorough) check against /repo, 4 at a time; print one line each
cd /verif
TIER=${1:-quick}
python3 - "$TIER" <<'PY'
import json, subprocess, sys, time
from concurrent.futures import ThreadPoolExecutor
tier = sys.argv[1]
m = json.load(open('/verif/MANIFEST.json'))
def one(c):
    t = time.time()
    cmd = c['quick_cmd'] if tier == 'quick' else c['thorough_cmd']
    r = subprocess.run(cmd, shell=True, cwd='/verif', capture_output=True, text=True)
    last = [l for l in r.stdout.splitlines() if l.startswith('[')]
    return c['property_id'], r.returncode, round(time.time() - t, 1), (last[-1] if last else r.stdout[-300:] + r.stderr[-300:])
with ThreadPoolExecutor(4) as ex:
    for pid, rc, dt, last in ex.map(one, m['checks']):
        print(pid, 'exit', rc, dt, 's', last)
PY
