#!/usr/bin/env python3
"""confirm every seeded mutant independently: in a scratch worktree of /repo
   (1) demo passes on the clean tree, (2) patch applies, builds, the 51 unit tests pass (test_msp_scanner skipped),
   (3) demo fails with the patch.  Writes the outcome into seeded/<id>/meta.json under "confirmed"."""
import json, os, subprocess, sys, shutil, tempfile
from concurrent.futures import ThreadPoolExecutor
VERIF = os.path.dirname(os.path.dirname(os.path.abspath(__file__)))
ENV = dict(os.environ, CARGO_NET_OFFLINE="true")

def sh(cmd, cwd, timeout=1500):
    try:
        r = subprocess.run(cmd, shell=True, cwd=cwd, env=ENV, capture_output=True, text=True, timeout=timeout)
        return r.returncode, (r.stdout + r.stderr)
    except subprocess.TimeoutExpired:
        return 124, "timeout"

def one(name):
    d = os.path.join(VERIF, "seeded", name)
    meta = json.load(open(os.path.join(d, "meta.json")))
    if meta.get("confirmed", {}).get("ok") and "--force" not in sys.argv:
        return name, meta["confirmed"]
    wt = tempfile.mkdtemp(prefix="conf.", dir="/tmp"); os.rmdir(wt)
    subprocess.check_call(["git", "-C", "/repo", "worktree", "add", "--detach", "-f", wt, "HEAD"], stdout=subprocess.DEVNULL, stderr=subprocess.DEVNULL)
    res = {}
    try:
        os.makedirs(os.path.join(wt, "tests"), exist_ok=True)
        shutil.copy(os.path.join(d, "demo.rs"), os.path.join(wt, "tests", "demo.rs"))
        rc, out = sh("cargo test --offline --test demo 2>&1 | tail -5", wt)
        res["demo_on_clean_tree"] = "passes" if "test result: ok" in out else "FAILS: " + out[-300:]
        rc, out = sh("git apply %s" % os.path.join(d, "patch.diff"), wt)
        res["patch_applies"] = rc == 0
        rc, out = sh("cargo test --offline --lib -- --skip test_msp_scanner 2>&1 | tail -4", wt)
        res["unit_tests_with_patch"] = "51 passed" if "51 passed; 0 failed" in out else "NOT ALL PASS: " + out[-300:]
        rc, out = sh("cargo test --offline --test demo 2>&1 | tail -8", wt)
        res["demo_with_patch"] = "fails" if ("FAILED" in out or "panicked" in out or "failed" in out) and "test result: ok" not in out else "DOES NOT FAIL: " + out[-300:]
        res["ok"] = (res["demo_on_clean_tree"] == "passes" and res["patch_applies"] and res["unit_tests_with_patch"] == "51 passed" and res["demo_with_patch"] == "fails")
    finally:
        subprocess.call(["git", "-C", "/repo", "worktree", "remove", "--force", wt], stdout=subprocess.DEVNULL, stderr=subprocess.DEVNULL)
        shutil.rmtree(wt, ignore_errors=True)
    meta["confirmed"] = res
    meta["confirmed_by"] = "tools/confirm_seeded.py in a scratch worktree of /repo HEAD (cargo test --offline --test demo before/after; cargo test --offline --lib -- --skip test_msp_scanner with the patch)"
    json.dump(meta, open(os.path.join(d, "meta.json"), "w"), indent=1)
    return name, res

names = sorted(n for n in os.listdir(os.path.join(VERIF, "seeded")) if os.path.isdir(os.path.join(VERIF, "seeded", n)))
flt = [a for a in sys.argv[1:] if not a.startswith("-")]
if flt:
    names = [n for n in names if any(f in n for f in flt)]
with ThreadPoolExecutor(int(os.environ.get("CONFIRM_JOBS", "3"))) as ex:
    for name, res in ex.map(one, names):
        print(name, "OK" if res.get("ok") else "PROBLEM", {k: v for k, v in res.items() if k != "ok"} if not res.get("ok") else "")
subprocess.call(["git", "-C", "/repo", "worktree", "prune"])
