#!/bin/sh
# development aid: facts of /repo HEAD + refactors/<Rn>/<rK>.diff -> /tmp/rf_<Rn>_<rK>.json
area=$1; r=$2; wt=/tmp/rfwt.$$
git -C /repo worktree add --detach -f $wt HEAD >/dev/null 2>&1
git -C $wt apply /verif/refactors/$area/$r.diff || echo "apply failed"
cd /verif && VERIF_REPO=$wt python3 - $area $r <<'PY'
import sys, json
sys.path.insert(0, '/verif')
from pysa import facts
d, info = facts.run_driver(thorough=False)
json.dump(d, open('/tmp/rf_%s_%s.json' % (sys.argv[1], sys.argv[2]), 'w'))
print(info)
PY
git -C /repo worktree remove --force $wt; git -C /repo worktree prune
