#!/usr/bin/env python3
"""development tool: apply a seeded patch to a scratch worktree of /repo and run checks against it.
usage: tools/mutest.py <seeded-dir-or-patch> [Cxx ...]     (default: the property in meta.json)
Never touches /repo's working tree; the scratch worktree is removed afterwards."""
import json, os, subprocess, sys, tempfile, shutil

VERIF = os.path.dirname(os.path.dirname(os.path.abspath(__file__)))


def main():
    target = sys.argv[1]
    props = sys.argv[2:]
    patch = target if target.endswith(".diff") else os.path.join(target, "patch.diff")
    if not props:
        meta = json.load(open(os.path.join(os.path.dirname(patch), "meta.json")))
        props = [meta["property"]]
    wt = tempfile.mkdtemp(prefix="mutest.", dir="/tmp")
    os.rmdir(wt)
    subprocess.check_call(["git", "-C", "/repo", "worktree", "add", "--detach", "-f", wt, "HEAD"], stdout=subprocess.DEVNULL, stderr=subprocess.DEVNULL)
    rc_all = 0
    try:
        subprocess.check_call(["git", "-C", wt, "apply", os.path.abspath(patch)])
        env = dict(os.environ, VERIF_REPO=wt)
        for p in props:
            r = subprocess.run([os.path.join(VERIF, "check"), p], env=env, stdout=subprocess.PIPE, stderr=subprocess.STDOUT, text=True)
            lines = r.stdout.strip().splitlines()
            viol = [l for l in lines if l.startswith("VIOLATION")]
            print("== %s on %s: exit %d, %d violation line(s)" % (p, target, r.returncode, len(viol)))
            for l in lines:
                if not l.startswith("VIOLATION") and not l.startswith("["):
                    print("   " + l[:400])
            print("   " + [l for l in lines if l.startswith("[")][-1] if any(l.startswith("[") for l in lines) else "")
            rc_all |= r.returncode
    finally:
        subprocess.call(["git", "-C", "/repo", "worktree", "remove", "--force", wt], stdout=subprocess.DEVNULL, stderr=subprocess.DEVNULL)
        shutil.rmtree(wt, ignore_errors=True)
        subprocess.call(["git", "-C", "/repo", "worktree", "prune"])
    return 0


if __name__ == "__main__":
    sys.exit(main())
