#!/bin/sh
# development aid: harvest wave-5 refactorings /tmp/ref/Rn/out5/r{1..3}.diff -> /verif/refactors/Rn/r{20..22}.diff (+ meta7.json, patch names rewritten)
# (r19 is a correct variant constructed from a repaired seeded change, see R8/meta6.json)
n=$1
for i in 1 2 3; do
  src=/tmp/ref/R$n/out5/r$i.diff
  [ -f $src ] && cp $src /verif/refactors/R$n/r$((i+19)).diff && echo "harvested R$n r$((i+19))"
done
[ -f /tmp/ref/R$n/out5/meta.json ] && sed -e 's/"r1.diff"/"r20.diff"/; s/"r2.diff"/"r21.diff"/; s/"r3.diff"/"r22.diff"/' /tmp/ref/R$n/out5/meta.json > /verif/refactors/R$n/meta7.json
