#!/bin/sh
# development aid: harvest wave-4 refactorings /tmp/ref/Rn/out4/r{1..4}.diff -> /verif/refactors/Rn/r{15..18}.diff (+ meta5.json)
# (r13, r14 are correct variants constructed from repaired seeded changes, see meta4.json)
n=$1
for i in 1 2 3 4; do
  src=/tmp/ref/R$n/out4/r$i.diff
  [ -f $src ] && cp $src /verif/refactors/R$n/r$((i+14)).diff && echo "harvested R$n r$((i+14))"
done
[ -f /tmp/ref/R$n/out4/meta.json ] && cp /tmp/ref/R$n/out4/meta.json /verif/refactors/R$n/meta5.json
