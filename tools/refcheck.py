#!/usr/bin/env python3
"""false-alarm test: apply behaviour-preserving refactoring patches (from /tmp/ref/R*/out or /verif/refactors/*) to a scratch
worktree and run the relevant checks; any VIOLATION is a false alarm, INCONCLUSIVE is acceptable but noted."""
import json, os, subprocess, sys, tempfile, shutil, glob
from concurrent.futures import ThreadPoolExecutor
VERIF = os.path.dirname(os.path.dirname(os.path.abspath(__file__)))
AREA = {"R1": ["C01", "C02", "C04", "C06", "C03", "C09"], "R2": ["C09", "C02", "C04", "C06", "C03"], "R3": ["C03", "C19", "C04", "C06", "C01", "C09", "C02"],
        "R4": ["C20", "C18", "C19", "C03"], "R5": ["C05", "C06", "C03", "C02", "C04"], "R6": ["C07", "C08", "C04", "C06"],
        "R7": ["C10", "C11", "C12", "C13", "C05", "C02", "C01", "C06", "C08"], "R8": ["C13", "C14", "C15", "C16", "C17", "C12", "C18", "C20", "C06"]}
ALL = ["C%02d" % i for i in range(1, 21)]
USE_ALL = "--all" in sys.argv

def one(job):
    area, patch = job
    wt = tempfile.mkdtemp(prefix="ref.", dir="/tmp"); os.rmdir(wt)
    subprocess.check_call(["git", "-C", "/repo", "worktree", "add", "--detach", "-f", wt, "HEAD"], stdout=subprocess.DEVNULL, stderr=subprocess.DEVNULL)
    out = []
    try:
        r = subprocess.run(["git", "-C", wt, "apply", "--3way", patch], capture_output=True, text=True)
        if r.returncode != 0:
            r = subprocess.run(["git", "-C", wt, "apply", patch], capture_output=True, text=True)
        if r.returncode != 0:
            return job, [("apply", "FAILED", r.stderr[:200])]
        evd = tempfile.mkdtemp(prefix="ev.", dir="/tmp")
        env = dict(os.environ, VERIF_REPO=wt, VERIF_EVIDENCE_DIR=evd)
        for p in (os.environ["REFCHECK_PROPS"].split(",") if os.environ.get("REFCHECK_PROPS") else (ALL if USE_ALL else AREA[area])):
            r = subprocess.run([os.path.join(VERIF, "check"), p], env=env, capture_output=True, text=True)
            lines = r.stdout.splitlines()
            v = [l for l in lines if l.startswith("VIOLATION")]
            inc = [l.strip() for l in lines if l.strip().startswith("INCONCLUSIVE")]
            first = next((l.strip() for l in lines if l.startswith("  ") and not l.strip().startswith("INCONCLUSIVE")), "")
            out.append((p, "FALSE-ALARM" if v else ("inconclusive(%d)" % len(inc) if inc else "ok"), (first or (inc[0] if inc else ""))[:300]))
        shutil.rmtree(evd, ignore_errors=True)
    finally:
        subprocess.call(["git", "-C", "/repo", "worktree", "remove", "--force", wt], stdout=subprocess.DEVNULL, stderr=subprocess.DEVNULL)
        shutil.rmtree(wt, ignore_errors=True)
    return job, out

jobs = []
roots = sorted(glob.glob("/verif/refactors/R*/r*.diff")) or sorted(glob.glob("/tmp/ref/R*/out/r*.diff"))
flt = [a for a in sys.argv[1:] if not a.startswith("-")]
for p in roots:
    area = [x for x in p.split("/") if x.startswith("R") and x[1:].isdigit()][0]
    if flt and not any(f in p for f in flt):
        continue
    jobs.append((area, p))
with ThreadPoolExecutor(int(os.environ.get('REFCHECK_J', '4'))) as ex:
    for (area, patch), res in ex.map(one, jobs):
        for p, st, msg in res:
            print("%s %-8s %-4s %-18s %s" % (area, os.path.basename(patch), p, st, msg if st != "ok" else ""))
subprocess.call(["git", "-C", "/repo", "worktree", "prune"])
