#!/usr/bin/env python3
"""regenerate /verif/MANIFEST.json from the table below (keeps it valid and consistent)"""
import json
import os

VERIF = os.path.dirname(os.path.dirname(os.path.abspath(__file__)))

TB = ("Trusted base: rustc nightly's MIR for /repo as built by `cargo check --lib` on x86-64 with the pinned Cargo.lock "
      "(debug-assertions and overflow-checks off so that debug_assert! does not count as a guard); the dbgsa fact exporter; "
      "the transfer functions and ~300 library models of the pysa abstract interpreter (self-tested against the real library at development time, tools/probe); the specification tables in "
      "pysa/lemmas.py and pysa/rules (written from the property statement, not from the code). ")

CLAIMS = {
    "C10": dict(
        category="proof", design_ref="DESIGN.md §4 C10, Appendix C",
        technique="abstract interpretation of monomorphic MIR with a per-bit provenance (ANF) domain: bit-vector lemmas per k-mer type × position × run length; CFG lockstep rules for default methods",
        text="Decides S(C10), the lane-map lemmas, not the behaviour by testing: for each of the 20 (storage, K) k-mer types "
             "(every valid marker×storage pair in the thorough tier) every result bit of get/set_mut/set_slice_mut/rc/extend_left/"
             "extend_right/extend/from_u64/to_u64/hamming_dist/at_count/gc_count/empty/len is shown equal to the bit the K-letter-string "
             "semantics prescribe, for ALL 4^K values at once (the k-mer is one abstract bit-vector; only positions and run lengths are "
             "partitioned, exhaustively). Plus the five reverse_by_twos/lower_of_two ladders and lockstep rules for from_bytes/from_ascii/"
             "to_string/kmers_from_*. A wrong mask, shift, lane or a dropped clear is reported with the offending bit and both terms. "
             "Proof level because every obligation is discharged for all values; an obligation the domain cannot decide is reported "
             "INCONCLUSIVE and downgrades the run to `other`.",
        note=TB + "Preconditions: base arguments < 4, rank < 4^K, padding bits of inputs zero (C11 shows they stay zero)."),
    "C11": dict(
        category="proof", design_ref="DESIGN.md §4 C11",
        technique="abstract interpretation (decision table over the ordering of two abstract storages with captured comparison operands) + derive/field-order query + who-writes-field enumeration with a padding-preservation lemma per writer",
        text="Decides S(C11): (1) eq/ne/lt/le/gt/ge/cmp/partial_cmp of every k-mer type compare exactly the two storage integers as "
             "unsigned numbers (result table over <,=,> and the operands handed to the comparison are bit-identical to the inputs); Hash/Eq are "
             "#[derive]d with storage first; (2) L-get: the layout is injective and order-preserving; (3) the padding invariant is inductive — every "
             "function writing `storage` is enumerated from MIR and has a discharged lemma whose post-state has zero padding. Together: same string ⇒ "
             "same storage ⇒ equal/ordered/hashed as the string, whatever history produced it. A new or weakened writer, a comparison on a "
             "derived/truncated value, or a field reorder is reported.",
        note=TB + "Out of scope, stated: direct writes to the pub field by external code; Deserialize of arbitrary integers; derive(Hash) contract."),
    "C12": dict(
        category="proof", design_ref="DESIGN.md §4 C12",
        technique="bit-vector lemmas (rc lane maps for k-mers, Lmer, Exts, 2-bit complement) and decision tables (canonical form, palindrome, slice remap) by abstract interpretation of MIR",
        text="Decides S(C12): L-rc for every k-mer type (base j <- complement of base K-1-j, padding zero: involution and the positional law are "
             "consequences), min_rc/min_rc_flip/is_palindrome tables over ord(self, rc) for every type, Lmer::rc for every capacity and every "
             "length 0..=max_len, Exts::complement/reverse/rc and the 2-bit complement as 8-bit lemmas, and the DnaStringSlice remap tables.",
        note=TB + "Commutation with k-mer extraction for DnaString-backed containers is covered through C13's block-walk lemmas."),
    "C17": dict(
        category="proof", design_ref="DESIGN.md §4 C17",
        technique="bit-vector lemmas over Lmer<[u64;N]> instances by abstract interpretation: capacity × length × position × run length partitioned exhaustively, bases abstract",
        text="Decides S(C17): for capacities 1–3 (1–6 thorough) and all lengths: new/len/max_len, get, set_mut, set_slice_mut (all (pos, n) incl. "
             "word-crossing runs and runs in the word holding the length byte: exactly the addressed bases change, never the length byte), rc, "
             "get_kmer for every k-mer type and position; Eq/Ord/Hash derived over the storage, fields private, the only writers are new/set_mut/"
             "set_slice_mut and each preserves `unused lanes zero`.",
        note=TB + "Preconditions: in-range positions, bases < 4."),
}

DT_TECH = ("abstract interpretation of the generic MIR in decision-table mode: data-consulting calls are oracles with finite domains identified by callee + "
           "provenance of their arguments, oracle outcomes enumerated exhaustively (trace partitioning), every leaf compared with a specification function "
           "written from the property statement")
DT_NOTE = TB + ("Oracle role assignment (which call is `the availability test`, `the neighbour's extensions`) is by callee identity and argument provenance; "
                "an unassignable call makes the row INCONCLUSIVE, never a violation. ")

CLAIMS.update({
    "C01": dict(
        category="other", design_ref="DESIGN.md §4 C01, Appendix B.5", technique=DT_TECH + "; abstract walks with a scripted step function; typestate of the availability set",
        text="Decides S(C01) — necessary structural clauses, not the partition itself: (1) availability typestate of the growth loop on scripted walks of "
             "0–2 accepted steps: every placed k-mer is removed from the availability set before the step function is consulted again, (current, dir) "
             "advance to the step's result, the loop leaves only on Terminal; (2) the node builder on every pair of scripted walks and orientations "
             "(K=3,5): exactly one correctly oriented base per placed k-mer at the correct end, one payload fold per k-mer, terminal extensions "
             "complemented exactly when the last entry is reversed; (3) the driver: every id made available, each id still available at its turn seeds "
             "exactly one node, each node added once; (4) the three public entry points reach the driver once with the caller's strandedness and table "
             "(compress_kmers_no_exts: extension bit ⇔ neighbour in the key set, neighbour canonicalised iff unstranded); (5) BaseGraph::add keeps the "
             "parallel arrays aligned. A tree on which one of these fails has an input (cycle, hairpin, shard boundary, stranded table) on which C01 fails.",
        note=DT_NOTE + "Not decided: that the walk reaches every k-mer and termination on cycles (data-dependent)."),
    "C02": dict(
        category="other", design_ref="DESIGN.md §4 C02, Appendix B.1/B.2", technique=DT_TECH + "; bit-vector lemmas for the Exts queries and the palindrome/canonical-form tables",
        text="Decides S(C02): the complete decision tables of BOTH step functions equal the step rule of the statement row by row — Unique ⇔ one "
             "extension ∧ not a palindrome (when unstranded) ∧ neighbour present ∧ available ∧ one incoming extension ∧ neighbour not a palindrome ∧ join "
             "predicate accepts — in both directions of the iff (missing conjunct = over-merge, extra conjunct = under-merge), for stranded and "
             "unstranded, both walking directions, with and without strand flip; rows no test executes (stranded ∧ palindrome, join=false, flipped "
             "arrival) are ordinary rows. Also: the side asked of the neighbour, the canonicalisation, join/availability operands; growth loops leave "
             "only on Terminal and are run Left and Right from every seed; is_palindrome/min_rc tables and the Exts bit layout lemmas.",
        note=DT_NOTE + "Rows where the neighbour reports no incoming extension are outside the property's precondition. Global uniqueness of the decomposition is not decided."),
    "C03": dict(
        category="other", design_ref="DESIGN.md §4 C03, Appendix B.3/B.4", technique=DT_TECH,
        text="Decides S(C03): find_link's table (which end index is probed with which strand; returned side/flip), the index identity (left index = "
             "first k-mers → node id, right = last k-mers), find_edges (one edge per extension whose probe resolves, probes from the correct end in the "
             "correct direction), get_valid_exts / remove_censored_exts / remove_censored_exts_sharded (8 items × item states × backgrounds × strandedness: "
             "an extension is removed exactly when its target is absent/censored; the searched key is canonical iff unstranded), fix_exts lockstep, "
             "max_path on ~2900 scripted neighbourhoods never repeats a node (edges back to the start node or the node just visited included), and "
             "sequence_of_path's K-1 overlap and orientation.",
        note=DT_NOTE + "Not decided: that the resolvable edge set equals the input's (K+1)-mers; which neighbour the greedy walk prefers."),
    "C09": dict(
        category="other", design_ref="DESIGN.md §4 C09, Appendix B.2/B.5", technique=DT_TECH + "; event-order check of the driver",
        text="Decides S(C09): availability typestate of the graph-route growth loop; the complete decision table of the graph-route step function "
             "(incl. the link triple, node-length and palindrome conjuncts, stranded and unstranded); the graph-route node builder (node path with "
             "flipped entries, payload fold, complemented terminal extensions) on all scripted walk pairs; and the driver's order on every censoring "
             "scenario: censored ids removed first → prune against exactly the surviving nodes → build every surviving available id once → finish → prune "
             "again → return that graph.",
        note=DT_NOTE + "Not decided: idempotence and equality with the direct route (relational runtime facts)."),
    "C19": dict(
        category="other", design_ref="DESIGN.md §4 C19", technique="abstract interpretation of finish/finish_serial with the index constructor as observation point (sibling equality), who-uses-field query over resolved callees, find_link decision table",
        text="Decides S(C19): finish and finish_serial hand identical (keys, values) to the index constructor and differ only in the constructor; the two "
             "end indices are private, key-verifying, and only ever queried through `get` (answers independent of MPHF slot layout ⇒ of the schedule "
             "that built it); find_link finds a k-mer exactly when it is a key of the probed end index. Concurrency the crate itself might add is "
             "reported INCONCLUSIVE, not decided.",
        note=TB + "Assumes boomphf's parallel builder yields a valid MPHF under every schedule (dependency code)."),
})

BV_TECH = "abstract interpretation of monomorphic MIR with a per-bit provenance (ANF) domain; lengths / positions partitioned exhaustively, sequence contents abstract"
AFF_TECH = DT_TECH + "; integer quantities carried as affine forms over named atoms, comparisons decided by lazily refined intervals (both outcomes explored), violations reported with a small integer witness found by a decision procedure over the recorded linear constraints"

CLAIMS.update({
    "C04": dict(
        category="other", design_ref="DESIGN.md §4 C04", technique=DT_TECH + " (composition of the combine, step, driver, piece and score tables) + call-graph effect query",
        text="Weakest claim of the set, stated as such: the equality of the sharded and the unsharded pipeline is a relational runtime fact and is NOT decided. "
             "Decided are its mechanisms, each a necessary condition: BaseGraph::combine is a faithful concatenation in node order (and refuses mixed strandedness); "
             "shard-boundary extensions survive (every Terminal row of the step table carries the untouched extensions; filter_kmers reaches no pruning "
             "function); the re-compression driver prunes → builds → finishes → prunes for every censoring scenario, with the complete graph-route step table, "
             "growth loop and builder; pieces and their boundary extensions use the same (start, len) of the same read; the shard score is a permutation "
             "look-up that is strand-symmetric in reverse-complement mode.",
        note=DT_NOTE + "Not decided: equality of the two resulting graphs."),
    "C05": dict(
        category="other", design_ref="DESIGN.md §4 C05, Appendix B.7", technique=DT_TECH + "; library models for stable sort / group_by; bit-vector lemma for bucket()",
        text="Decides S(C05): pass ranges tile [0,256) as consecutive half-open intervals for 14 memory budgets (1…5000 slices); abstract runs of filter_kmers "
             "with scripted observations — all identity patterns of three observations × all placements of their k-mers in first/middle/last buckets × 1 and 3 "
             "passes (thorough 1,2,3,7 × stranded/unstranded): each observation summarised exactly once, with its k-mer's other observations, in input order, "
             "with its sequence's label, all_kmers ascending; canonicalisation table (key form, extensions reverse-complemented on flip, bucket computed from "
             "the stored key); emission table; bucket() = first four bases for every k-mer type; both summarizers (accept ⇔ count ≥ untruncated threshold; "
             "union of extensions; data); the flanking-extension iterator.",
        note=DT_NOTE + "Models: slice::sort_by_key is stable, itertools::group_by groups consecutive equal keys (library contracts). Not decided: equality with a reference grouping on data. "
             "The suggested run-time hook (forcing many passes) is not needed and not used: pass counts are driven abstractly."),
    "C06": dict(
        category="other", design_ref="DESIGN.md §4 C06", technique=DT_TECH + " restricted to the strandedness columns; bit-vector lemmas for canonical forms and Exts::rc",
        text="Decides S(C06): STRAND-GUARD — canonicalising operations (min_rc, min_rc_flip, reverse-complement index probes, palindrome stops) are reached exactly "
             "when unstranded in both step functions, find_link, filter_kmers, both censoring functions and compress_kmers_no_exts (rows of their tables); "
             "min_rc_flip/min_rc/is_palindrome tables for every k-mer type (reported key = smaller strand); Exts::rc lemma and its use on flipped observations; "
             "flag plumbing through every public entry, the drivers and combine.",
        note=DT_NOTE + "Not decided: invariance of whole outputs under reverse-complementing reads (relational)."),
    "C07": dict(
        category="other", design_ref="DESIGN.md §4 C07, Appendix B.8", technique=AFF_TECH + "; bit-level support check of the comparison; dominance rule for narrowing casts",
        text="Decides S(C07): MinPos::cmp/partial_cmp tables (score first, ties to the larger position, Equal on the diagonal only) and that the comparison depends on all "
             "64 bits of both scores; Scanner::scan interpreted on 8 (thorough 11) small windows (len,k,p) with the p-mer scores unknown — every ordering of the scores "
             "incl. ties explored, the produced intervals checked against all clauses of the statement (start order, exact k-1 overlap, lengths in [k,2k-p], "
             "minimizer = p-mer at the reported position, inside every k-mer, minimal, no early end); scores never truncated before comparison; every narrowing "
             "`as` cast in scan dominated by a bounding assertion.",
        note=DT_NOTE + "Window sizes are bounded; the general case rests on the uniformity of the loop body in the position."),
    "C08": dict(
        category="other", design_ref="DESIGN.md §4 C08, Appendix B.9", technique=AFF_TECH,
        text="Decides S(C08): the shard score is perm[rank(p)] and, in reverse-complement mode, the minimum of the permutation look-ups of both strands (both "
             "msp_sequence and simple_scan); the shard id is the rank of the canonical minimizer; every piece is read[start..start+len] and its boundary extensions "
             "are from_slice_bounds(read, start, len) — same read, same bounds; the flank tables (left ⇔ start>0 from base start-1, right ⇔ start+len<len(read) "
             "from base start+len, nibble placement, none at a read end); Vmer::from_slice writes every base; plus C07's scan and order tables.",
        note=DT_NOTE + "That two occurrences of one k-mer see the same minimizer follows from C07's clauses and is not re-derived."),
    "C13": dict(
        category="other", design_ref="DESIGN.md §4 C13", technique=BV_TECH + "; " + AFF_TECH,
        text="Decides S(C13): block-walk lemmas — DnaString::get_kmer and Lmer::get_kmer return exactly bases pos..pos+K for every k-mer type and every start "
             "position across up to five storage words (incl. K>32 spanning three words), with the container abstract; k-mer iterator tables with affine "
             "positions (yield while pos ≤ len, roll by extend_right(bases[pos]), start at pos=K with the k-mer at 0 ⇒ exactly max(0,n-K+1) items in order; "
             "flanking extensions, caller's boundary extensions only at the two ends); first/last/terminal accessors; byte containers; slice remap tables; bulk "
             "constructors' lockstep.",
        note=DT_NOTE + "Containers are assumed to satisfy their representation invariant (C14/C17 show every writer preserves it)."),
    "C14": dict(
        category="other", design_ref="DESIGN.md §4 C14", technique=BV_TECH + "; who-writes-field enumeration; derive/field-order query",
        text="Decides S(C14): the representation invariant (ceil(len/32) words, zero padding, base i in word i/32 lane 31-i%32) is established by new/with_capacity/"
             "blank(n) (n=0..70)/clear and preserved by push at every length 0..66, extend from lengths {0,1,31,32,33} by 0..70 bases, from_bytes, set_mut, "
             "from_acgt_bytes on both the AVX2 and scalar path for lengths 0..100; get/rc/reverse/to_bytes/ndiffs lemmas; every writer of (storage,len) found in "
             "MIR is covered; fields private; Eq/Ord/Hash derived with storage before len; PackedDnaStringSet::get/add tables.",
        note=TB + "Pushed values are masked to two bits by the code (checked); extend asserts bases < 4."),
    "C15": dict(
        category="other", design_ref="DESIGN.md §4 C15, Appendix B.10", technique=AFF_TECH + "; view-discipline harness (reads of the backing string outside the view are observed)",
        text="Decides S(C15): remap tables with affine coordinates for get/get_kmer/slice/rc under the flag and for prefix/suffix/slice constructors with their "
             "range guards (closed under composition ⇒ any nesting depth); every renderer/converter/comparison (bytes, ascii, to_dna_string, to_owned, Display, Debug, "
             "==) reads positions 0..len through the view and never the backing string; hamming_dist covers every position exactly once, self against other at "
             "equal view positions, for lengths across block boundaries (0…1029) and forward / reverse-complemented / mixed operands, following derived views.",
        note=DT_NOTE),
    "C16": dict(
        category="other", design_ref="DESIGN.md §4 C16", technique="exhaustive 256-entry tables of the byte functions from MIR; abstract interpretation of the AVX2 kernels with models of the 16 intrinsics (provenance lemma + per-lane table with all other lanes unconstrained); " + BV_TECH,
        text="Decides S(C16): scalar tables for all 256 byte values and their mutual agreement (round trip = upper-cased input, non-ACGT→A); pack_32_bases places "
             "byte i's two low bits in base lane i (same as the scalar packer); convert_bases' output byte in a lane is a constant equal to base_to_bits(value) for "
             "all 256 values in 4 lanes (thorough: all 32) with every other lane unconstrained (lane independence + table); from_acgt_bytes gives canonical storage "
             "with every byte converted exactly once for lengths 0..100 on both paths; from_dna_string uses the same table; from_dna_only_string returns exactly the "
             "maximal valid runs for every validity pattern up to length 5 (thorough 7); from_acgt_bytes_hashn on {A,c,G,t,N,0xff}^≤3 leaves ACGT untouched and "
             "substitutes hash(name,position)%4 with a fixed-key hasher; no random state reachable.",
        note=TB + "Intel's documented semantics of the 16 AVX2 intrinsics (pysa/avx.py); std's chunks(32) contract; str input is ASCII."),
    "C18": dict(
        category="other", design_ref="DESIGN.md §4 C18, Appendix B.11", technique=AFF_TECH,
        text="Decides S(C18) with affine counters under the struct invariant kmer_id ≤ num_kmers: next() returns None exactly at the end and otherwise yields/rolls/"
             "advances by one; nth(n) returns None exactly when kmer_id+n ≥ num_kmers; after either call the counter is still ≤ num_kmers (no endless stream) and "
             "every base/k-mer read lies inside the node (no neighbour's k-mer, no out-of-range panic) — violations come with a concrete (kmer_id, num_kmers, n, K); "
             "into_iter, size_hint, node iterators; fields private.",
        note=DT_NOTE + "debug_assert! is compiled out and does not count as a guard. Not decided: boomphf's MPHF built from the iteration."),
    "C20": dict(
        category="other", design_ref="DESIGN.md §4 C20, Appendix B.12", technique="abstract interpretation of the writer functions on scripted graph shapes with `write!` templates decoded from the fmt::Arguments encoding in MIR; emitted text checked against JSON (parser) and the GFA line grammar + once-per-adjacency count; derive and field-count queries for serde",
        text="Decides S(C20): JSON — for every shape with ≤3 nodes and 0–2 right-going links per node and five kinds of `rest`, the reconstructed output parses as "
             "JSON and lists every node and every right-going link once; GFA — for every two-node graph with ≤3 (thorough ≤4) of the 10 possible adjacencies (incl. "
             "circular self-links and both hairpins) one S line per node and each adjacency exactly once with correct orientation and K-1 overlap, for both "
             "writers; Serialize/Deserialize derived for the nine persisted types and every declared field written.",
        note=TB + "Graph shapes are bounded; value equality after a serde round trip is serde's contract; `rest` keys are assumed quote-free."),
})

NA_PENDING = "checker for this property is still being built in this commit; planned static clauses: DESIGN.md §4"


# tables added after the first version of the claims (DESIGN.md §0.3, §7.2–§7.4): appended to the claim texts
ADDENDA = {
    "C01": " Also: the builder is run together with the real growth function (only the step function is scripted), the driver's own step queries are oracles, and the canonical-form tables (min_rc_flip for every k-mer type, odd K included) are part of the check. Since waves 7-8: the k-mer route's step, growth and builder functions interpreted together on scripted lines, rings and hairpins (the availability typestate is decided there, whoever does the claiming); long-walk rows at mined size constants; stranded builder rows; filter_kmers tables; PackedDnaStringSet::add and DnaString::extend lemmas; byte-container k-mer reads.",
    "C02": " Also: pruning tables (get_valid_exts, fix_exts, both censor functions, semantic sorted-table model), both summarizer tables, self-neighbour rows. Since waves 7-8: both chain tables (lines, rings, hairpins), index-builder and find_link tables, is_compressed soundness (no false report: compress_graph asserts on it), the no-extensions entry point with reverse-complement provenance, filter_kmers tables. Wave 10: the sort models consult the entry-point table's key-order oracle (a permuted index must keep every key with its own payload).",
    "C03": " Also: stranded rows of find_edges, gapped packed store in the index-builder table, summarizer tables, bucket lemma (sorted all-k-mers list for the sharded pruning), beam expansion with end-on-path scenarios; max_path is judged on the returned path only. Since waves 7-8: graph driver (censor list), both chain tables, flank tables (Exts::from_slice_bounds / from_dna_string).",
    "C04": " Also: find_link / pruning / censor tables, Exts::from_dna_string and slice-bounds tables, combine with empty shard graphs. Since waves 7-8: scanner tables (coverage, 2k-p bound), index-builder tables, both chain tables, filter_kmers tables, DnaString::blank lemma (piece containers).",
    "C05": " Also: canonical-form tables for every k-mer type, end-to-end k-mer iterator lemmas (next/nth/size_hint on monomorphic instances), pass-membership sweep, large-group rows at mined sizes. Since waves 7-8: exact threshold witness for the set summarizer, byte-container k-mer reads, override table for the k-mer iterators.",
    "C06": " Also: scanner score/order/scan tables, slice view tables, and the persisted strandedness flag (serde all-fields rule for the graph types). Since waves 7-8: container rc lemmas (DnaString, Lmer), both chain tables with every stored orientation.",
    "C07": " Also: score closures, poly-A sentinel oracle, counter-model search over score assignments, short-read rows. Since waves 7-8: long-sequence rows one block past every size constant the scanner mentions (none on the pinned tree), byte-container k-mer reads.",
    "C08": " Also: canonical-form tables (bucket id = rank of min_rc of the minimizer), capacity guard, Lmer::from_slice lemma, long-read rows at mined sizes (MAX_SCAN_LEN+1). Since waves 7-8: ranked mode of the score table (p-mers scripted as the 16 two-letter k-mers when scores are pre-computed), DnaString::blank lemma.",
    "C09": " Also: find_link, get_valid_exts (incl. via find_edges / subtractive form), fix_exts, sequence_of_path (bases in normal form), payload-equality oracle in the builder, builder composed with the real growth function. Since waves 7-8: graph chain table, index-builder tables, is_compressed soundness, entry points of the k-mer route (incl. the one that finds the extensions), faithful node path in the scripted builder, packed-set add lemmas. Wave 10: the k-mer route's step table and chain table also run here (the 'same partition as compressing the k-mer table directly' clause).",
    "C10": " Also: monomorphic lemmas for the default methods and for Debug/Display of every k-mer type; case-splitting harness; compiler-evaluated static tables. Since waves 7-8: sum-field domain (in-register counting proved / refuted lane by lane), checked conversions by case split, immutable writes (MerImmut), base iteration through Mer::iter, the ASCII byte tables. Wave 10: alias-length rule (a public alias KmerN reports k() = N).",
    "C11": " Also: canonical-form exploration tables, from_bytes/from_ascii lemmas. Since waves 7-8: immutable writes, k-mers read out of sequence containers (store lemmas, terminal accessors at lengths K+1..K+5), the ASCII byte tables.",
    "C12": " Also: exact view lemmas (conversions, get_kmer and terminal accessors on reverse-complemented views). Since waves 7-8: store k-mer lemmas (k-mer extraction on both sides of the commutation).",
    "C13": " Also: exact get_kmer / first_kmer / last_kmer / term_kmer / both_term_kmer lemmas on views at offsets straddling two and three storage words, end-to-end iterator lemmas, byte-container lemmas. Since waves 7-8: Lmer new/len for every capacity, override table for the k-mer iterators (differential against next()), end-to-end k-mer iterator lemmas over views, accessor lemmas at lengths K+1..K+5. Wave 10: scalar byte table and vector-kernel table of the ASCII route (C13.8); Lmer terminal-accessor lemmas for every capacity.",
    "C14": " Also: render and order lemmas (hand-written comparison impls are decided by the interpreted order table), vector kernels and byte tables, base iteration by reference. Since waves 7-8: hashed-N table, exact to_owned lemma (canonical representation), white-space row of from_dna_string.",
    "C15": " Also: exact view lemmas on symbolic backing strings (incl. backings whose length is a multiple of 32 and the empty string), view get_kmer for wide k-mers, base iteration of views. The abbreviated debug form of views >= 256 bases is treated as outside the clause (DESIGN.md C15). Since waves 7-8: exact Hamming lemmas (whole blocks over two symbolic backings; whole string against a prefix of a longer one), override table for the k-mer iterators, receiver-type dispatch in the generic tables.",
    "C16": " Also: final-state hashed-N table (lower case, vector path), the whole ASCII alphabet through from_dna_string, DnaString render lemmas. Since waves 7-8: str::trim* modelled, white-space row. Wave 10: _mm256_set1_* / setr_* intrinsics modelled.",
    "C17": " Also: from_slice lemma, == / != table on structured operand pairs (when written by hand), Debug lemma per capacity. Since waves 7-8: immutable writes (MerImmut::set / set_slice incl. 32-base runs) for every capacity. Wave 10: first_kmer / last_kmer / term_kmer / both_term_kmer lemmas for every capacity and k-mer type at lengths K+1, K+2, 2K-1, 2K and the maximum.",
    "C18": " Also: end-to-end lemma on monomorphic instances (NodeKmer::into_iter + scripted interleavings of next / nth(n), n up to usize::MAX), machine-arithmetic obligation on the affine counters, empty-graph row of the node iterators. Since waves 7-8: override table for the node iterators (differential against next()). Wave 10: PackedDnaStringSet::add table incl. rows with a legal but inexact size hint (the node length n of 'n-K+1 k-mers').",
    "C19": " Also: terminal k-mer order / equality oracles (incl. the all-A key) and map semantics in the builder table, explicit schedules of crate-spawned tasks, index layer with keyless hashes, find_link and find_edges tables (stranded and unstranded). Since waves 7-8: the finished graph must be the graph handed in (strandedness, vectors, packed sequences), capacity management modelled as a no-op.",
    "C20": " Also: serde conversions (try_from/from) interpreted on every serialized DnaString, Debug builders rendered, exact to_dna_string lemmas on views, empty `rest` object. Since waves 7-8: OpenOptions sinks (truncation), a writer whose write() accepts one byte per call, to_gfa in the GFA tables, serde buffered-Content rule (128-bit k-mers).",
}


def main():
    props = [json.loads(l) for l in open(os.path.join(VERIF, "properties.jsonl"))]
    checks = []
    na = []
    for p in props:
        pid = p["id"]
        c = CLAIMS.get(pid)
        if not c or not os.path.exists(os.path.join(VERIF, "pysa", "rules", pid.lower() + ".py")):
            na.append({"property_id": pid, "reason": NA_PENDING})
            continue
        checks.append({
            "property_id": pid,
            "quick_cmd": "./check %s --tier quick" % pid,
            "thorough_cmd": "./check %s --tier thorough" % pid,
            "evidence_file": "/verif/evidence/%s.json" % pid,
            "replay_cmd_template": "./check %s --explain {path}" % pid,
            "engine": "pysa",
            "level_claimed": {"category": c["category"], "text": c["text"] + ADDENDA.get(pid, ""), "design_ref": c["design_ref"]},
            "level_note": c["note"],
            "technique": c["technique"],
        })
    m = {
        "version": 1,
        "setup_cmd": "cd /verif/sa && CARGO_NET_OFFLINE=true cargo build --offline --release",
        "hooks": {
            "guard": "debruijn_verif",
            "enable": "no hooks: static analysis reads /repo's tree as it is (cargo +nightly check --lib through the dbgsa RUSTC_WORKSPACE_WRAPPER)",
            "baseline_off_cmd": "cd /repo && cargo test --offline --lib -- --skip test_msp_scanner",
            "source_commits": [],
            "add_only": True,
        },
        "engines": [
            {"name": "dbgsa", "path": "/verif/sa", "serves_properties": [c["property_id"] for c in checks],
             "kind_free_text": "rustc_private driver exporting resolved MIR (generic bodies + monomorphic instance closure) as JSON facts"},
            {"name": "pysa", "path": "/verif/pysa", "serves_properties": [c["property_id"] for c in checks],
             "kind_free_text": "static analysers over the facts: CFG rule primitives, abstract interpreter (decision tables, bit-vector provenance), who-writes/derive queries"},
        ],
        "checks": checks,
        "not_applicable": na,
        "notes": "Technique family: static analysis only. Every check rebuilds its facts from /repo's working tree on every run (fresh cargo target dir). "
                 "Repairs of genuine defects D1-D8 are `fix:` commits in /repo, listed in known_findings.json as fixed.",
    }
    with open(os.path.join(VERIF, "MANIFEST.json"), "w") as f:
        json.dump(m, f, indent=1)
    print("claimed:", [c["property_id"] for c in checks], "n/a:", len(na))


if __name__ == "__main__":
    main()
