#!/usr/bin/env python3
"""regenerate /verif/MANIFEST.json from the table below (keeps it valid and consistent)"""
import json
import os

VERIF = os.path.dirname(os.path.dirname(os.path.abspath(__file__)))

TB = ("Trusted base: rustc nightly's MIR for /repo as built by `cargo check --lib` on x86-64 with the pinned Cargo.lock "
      "(debug-assertions and overflow-checks off so that debug_assert! does not count as a guard); the dbgsa fact exporter; "
      "the transfer functions and ~40 library models of the pysa abstract interpreter; the specification tables in "
      "pysa/lemmas.py and pysa/rules (written from the property statement, not from the code). ")

CLAIMS = {
    "C10": dict(
        category="proof", design_ref="DESIGN.md §4 C10, Appendix C",
        technique="abstract interpretation of monomorphic MIR with a per-bit provenance (ANF) domain: bit-vector lemmas per k-mer type × position × run length; CFG lockstep rules for default methods",
        text="Decides S(C10), the lane-map lemmas, not the behaviour by testing: for each of the 20 (storage, K) k-mer types "
             "(every valid marker×storage pair in the thorough tier) every result bit of get/set_mut/set_slice_mut/rc/extend_left/"
             "extend_right/extend/from_u64/to_u64/hamming_dist/at_count/gc_count/empty/len is shown equal to the bit the K-letter-string "
             "semantics prescribe, for ALL 4^K values at once (the k-mer is one abstract bit-vector; only positions and run lengths are "
             "partitioned, exhaustively). Plus the five reverse_by_twos/lower_of_two ladders and lockstep rules for from_bytes/from_ascii/"
             "to_string/kmers_from_*. A wrong mask, shift, lane or a dropped clear is reported with the offending bit and both terms. "
             "Proof level because every obligation is discharged for all values; an obligation the domain cannot decide is reported "
             "INCONCLUSIVE and downgrades the run to `other`.",
        note=TB + "Preconditions: base arguments < 4, rank < 4^K, padding bits of inputs zero (C11 shows they stay zero)."),
    "C11": dict(
        category="proof", design_ref="DESIGN.md §4 C11",
        technique="abstract interpretation (decision table over the ordering of two abstract storages with captured comparison operands) + derive/field-order query + who-writes-field enumeration with a padding-preservation lemma per writer",
        text="Decides S(C11): (1) eq/ne/lt/le/gt/ge/cmp/partial_cmp of every k-mer type compare exactly the two storage integers as "
             "unsigned numbers (result table over <,=,> and the operands handed to the comparison are bit-identical to the inputs); Hash/Eq are "
             "#[derive]d with storage first; (2) L-get: the layout is injective and order-preserving; (3) the padding invariant is inductive — every "
             "function writing `storage` is enumerated from MIR and has a discharged lemma whose post-state has zero padding. Together: same string ⇒ "
             "same storage ⇒ equal/ordered/hashed as the string, whatever history produced it. A new or weakened writer, a comparison on a "
             "derived/truncated value, or a field reorder is reported.",
        note=TB + "Out of scope, stated: direct writes to the pub field by external code; Deserialize of arbitrary integers; derive(Hash) contract."),
    "C12": dict(
        category="proof", design_ref="DESIGN.md §4 C12",
        technique="bit-vector lemmas (rc lane maps for k-mers, Lmer, Exts, 2-bit complement) and decision tables (canonical form, palindrome, slice remap) by abstract interpretation of MIR",
        text="Decides S(C12): L-rc for every k-mer type (base j <- complement of base K-1-j, padding zero: involution and the positional law are "
             "consequences), min_rc/min_rc_flip/is_palindrome tables over ord(self, rc) for every type, Lmer::rc for every capacity and every "
             "length 0..=max_len, Exts::complement/reverse/rc and the 2-bit complement as 8-bit lemmas, and the DnaStringSlice remap tables.",
        note=TB + "Commutation with k-mer extraction for DnaString-backed containers is covered through C13's block-walk lemmas."),
    "C17": dict(
        category="proof", design_ref="DESIGN.md §4 C17",
        technique="bit-vector lemmas over Lmer<[u64;N]> instances by abstract interpretation: capacity × length × position × run length partitioned exhaustively, bases abstract",
        text="Decides S(C17): for capacities 1–3 (1–6 thorough) and all lengths: new/len/max_len, get, set_mut, set_slice_mut (all (pos, n) incl. "
             "word-crossing runs and runs in the word holding the length byte: exactly the addressed bases change, never the length byte), rc, "
             "get_kmer for every k-mer type and position; Eq/Ord/Hash derived over the storage, fields private, the only writers are new/set_mut/"
             "set_slice_mut and each preserves `unused lanes zero`.",
        note=TB + "Preconditions: in-range positions, bases < 4."),
}

NA_PENDING = "checker for this property is still being built in this commit; planned static clauses: DESIGN.md §4"


def main():
    props = [json.loads(l) for l in open(os.path.join(VERIF, "properties.jsonl"))]
    checks = []
    na = []
    for p in props:
        pid = p["id"]
        c = CLAIMS.get(pid)
        if not c or not os.path.exists(os.path.join(VERIF, "pysa", "rules", pid.lower() + ".py")):
            na.append({"property_id": pid, "reason": NA_PENDING})
            continue
        checks.append({
            "property_id": pid,
            "quick_cmd": "./check %s --tier quick" % pid,
            "thorough_cmd": "./check %s --tier thorough" % pid,
            "evidence_file": "/verif/evidence/%s.json" % pid,
            "replay_cmd_template": "./check %s --explain {path}" % pid,
            "engine": "pysa",
            "level_claimed": {"category": c["category"], "text": c["text"], "design_ref": c["design_ref"]},
            "level_note": c["note"],
            "technique": c["technique"],
        })
    m = {
        "version": 1,
        "setup_cmd": "cd /verif/sa && CARGO_NET_OFFLINE=true cargo build --offline --release",
        "hooks": {
            "guard": "debruijn_verif",
            "enable": "no hooks: static analysis reads /repo's tree as it is (cargo +nightly check --lib through the dbgsa RUSTC_WORKSPACE_WRAPPER)",
            "baseline_off_cmd": "cd /repo && cargo test --offline --lib -- --skip test_msp_scanner",
            "source_commits": [],
            "add_only": True,
        },
        "engines": [
            {"name": "dbgsa", "path": "/verif/sa", "serves_properties": [c["property_id"] for c in checks],
             "kind_free_text": "rustc_private driver exporting resolved MIR (generic bodies + monomorphic instance closure) as JSON facts"},
            {"name": "pysa", "path": "/verif/pysa", "serves_properties": [c["property_id"] for c in checks],
             "kind_free_text": "static analysers over the facts: CFG rule primitives, abstract interpreter (decision tables, bit-vector provenance), who-writes/derive queries"},
        ],
        "checks": checks,
        "not_applicable": na,
        "notes": "Technique family: static analysis only. Every check rebuilds its facts from /repo's working tree on every run (fresh cargo target dir). "
                 "Repairs of genuine defects D1-D7 are `fix:` commits in /repo, listed in known_findings.json as fixed.",
    }
    with open(os.path.join(VERIF, "MANIFEST.json"), "w") as f:
        json.dump(m, f, indent=1)
    print("claimed:", [c["property_id"] for c in checks], "n/a:", len(na))


if __name__ == "__main__":
    main()
