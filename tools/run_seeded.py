#!/usr/bin/env python3
"""run every seeded mutant against the checks of its property (and optionally others); print a matrix.
usage: tools/run_seeded.py [-j N] [name-filter] [--props C01,C02]"""
import json, os, subprocess, sys, tempfile, shutil
from concurrent.futures import ThreadPoolExecutor
VERIF = os.path.dirname(os.path.dirname(os.path.abspath(__file__)))

def one(name, props):
    d = os.path.join(VERIF, "seeded", name)
    wt = tempfile.mkdtemp(prefix="seed.", dir="/tmp"); os.rmdir(wt)
    subprocess.check_call(["git", "-C", "/repo", "worktree", "add", "--detach", "-f", wt, "HEAD"], stdout=subprocess.DEVNULL, stderr=subprocess.DEVNULL)
    res = {}
    try:
        r = subprocess.run(["git", "-C", wt, "apply", os.path.join(d, "patch.diff")], capture_output=True, text=True)
        if r.returncode != 0:
            return name, {"apply": "FAILED " + r.stderr[:100]}
        evd = tempfile.mkdtemp(prefix="ev.", dir="/tmp")
        env = dict(os.environ, VERIF_REPO=wt, VERIF_EVIDENCE_DIR=evd)
        for p in props:
            r = subprocess.run([os.path.join(VERIF, "check"), p], env=env, capture_output=True, text=True)
            v = [l for l in r.stdout.splitlines() if l.startswith("VIOLATION")]
            first = next((l.strip() for l in r.stdout.splitlines() if l.startswith("  ") and not l.startswith("  INCONCLUSIVE")), "")
            res[p] = (r.returncode, len(v), first[:200])
        shutil.rmtree(evd, ignore_errors=True)
    finally:
        subprocess.call(["git", "-C", "/repo", "worktree", "remove", "--force", wt], stdout=subprocess.DEVNULL, stderr=subprocess.DEVNULL)
        shutil.rmtree(wt, ignore_errors=True)
    return name, res

def main():
    args = sys.argv[1:]
    j = 6; flt = None; props_override = None
    i = 0
    while i < len(args):
        if args[i] == "-j": j = int(args[i+1]); i += 2
        elif args[i] == "--props": props_override = args[i+1].split(","); i += 2
        else: flt = args[i]; i += 1
    names = sorted(n for n in os.listdir(os.path.join(VERIF, "seeded")) if os.path.isdir(os.path.join(VERIF, "seeded", n)) and (flt is None or flt in n))
    claimed = {c["property_id"] for c in json.load(open(os.path.join(VERIF, "MANIFEST.json")))["checks"]}
    jobs = []
    for n in names:
        meta = json.load(open(os.path.join(VERIF, "seeded", n, "meta.json")))
        props = props_override or [meta["property"]]
        props = [p for p in props if os.path.exists(os.path.join(VERIF, "pysa", "rules", p.lower() + ".py"))]
        jobs.append((n, props))
    with ThreadPoolExecutor(j) as ex:
        for name, res in ex.map(lambda a: one(*a), jobs):
            for p, r in res.items():
                if p == "apply": print("%-10s %s" % (name, r)); continue
                print("%-10s %s %s  %s" % (name, p, "CAUGHT" if r[0] == 1 and r[1] > 0 else ("missed(exit %d)" % r[0]), r[2]))
            if not res: print("%-10s (no check yet)" % name)
    subprocess.call(["git", "-C", "/repo", "worktree", "prune"])

if __name__ == "__main__":
    main()
