#!/bin/sh
# development aid: harvest wave-N mutants written by the sub-agents into /verif/seeded (tools/harvest.sh C14 out2 2)
p=$1; out=${2:-out2}; off=${3:-2}
for i in 1 2; do
  src=/tmp/mut/$p/$out/m$i
  [ -f $src/patch.diff ] || { echo "$p m$i: no patch"; continue; }
  dst=/verif/seeded/$p-m$((i+off))
  mkdir -p $dst && cp $src/patch.diff $src/demo.rs $src/meta.json $dst/ && echo "harvested $dst"
done
