//! model self-test probes (development aid): closed functions using library idioms; each returns a u64 that the
//! abstract interpreter must reproduce exactly.  `cargo test probe_` in a scratch copy checks the expected values
//! against the real library; tools/probe/run.py checks the models against the same values.
#![allow(dead_code, clippy::all)]
use std::cmp::Ordering;

fn h(v: &[u64]) -> u64 {
    let mut x = 1469598103934665603u64;
    for e in v {
        x = (x ^ *e).wrapping_mul(1099511628211);
    }
    x ^ (v.len() as u64)
}

pub fn p_vec_insert_remove() -> u64 {
    let mut v = vec![1u64, 2, 3, 4];
    v.insert(1, 9);
    let r = v.remove(3);
    let s = v.swap_remove(0);
    v.truncate(2);
    h(&v) ^ r ^ (s << 8)
}
pub fn p_vec_resize_split() -> u64 {
    let mut v = vec![5u64, 6];
    v.resize(5, 7);
    let w = v.split_off(3);
    v.extend_from_slice(&w);
    let mut z = vec![1u64];
    z.append(&mut v);
    h(&z) ^ (v.len() as u64)
}
pub fn p_vec_drain() -> u64 {
    let mut v = vec![1u64, 2, 3, 4, 5, 6];
    let d: Vec<u64> = v.drain(1..4).collect();
    h(&v) ^ (h(&d) << 1)
}
pub fn p_slice_ops() -> u64 {
    let mut v = vec![3u64, 1, 4, 1, 5, 9, 2, 6];
    v.reverse();
    v.swap(0, 7);
    v[2..5].reverse();
    let a = v.starts_with(&[3, 2]) as u64;
    let b = v.ends_with(&[1, 6]) as u64;
    let g = *v.get(3).unwrap_or(&77) + *v.get(30).unwrap_or(&77);
    let (f, rest) = v.split_first().unwrap();
    h(&v) ^ a ^ (b << 1) ^ (g << 2) ^ (*f << 9) ^ ((rest.len() as u64) << 20)
}
pub fn p_slice_fill_copy() -> u64 {
    let mut v = vec![0u64; 6];
    v[1..3].fill(8);
    let src = [1u64, 2, 3];
    v[3..6].copy_from_slice(&src);
    h(&v)
}
pub fn p_windows_chunks() -> u64 {
    let v = [1u64, 2, 3, 4, 5, 6, 7];
    let a: u64 = v.windows(3).map(|w| w[0] * w[2]).sum();
    let b: u64 = v.chunks_exact(2).map(|c| c[0] + 10 * c[1]).sum();
    let c: u64 = v.chunks(3).map(|c| c.len() as u64).fold(0, |x, y| x * 10 + y);
    a ^ (b << 10) ^ (c << 30)
}
pub fn p_sort_search() -> u64 {
    let mut v = vec![(3u64, 1u64), (1, 2), (2, 3), (1, 4)];
    v.sort_by_key(|t| t.0);
    let ks: Vec<u64> = v.iter().map(|t| t.1).collect();
    let mut w = vec![5u64, 3, 8, 1];
    w.sort_by(|a, b| b.cmp(a));
    w.sort_unstable();
    let f = w.binary_search(&5).unwrap_or(99) as u64;
    let nf = w.binary_search(&4).unwrap_or_else(|i| i + 50) as u64;
    w.dedup();
    h(&ks) ^ (f << 3) ^ (nf << 9) ^ h(&w)
}
pub fn p_iter_minmax() -> u64 {
    let v = [4u64, 9, 2, 9, 7];
    let mn = *v.iter().min().unwrap();
    let mx = *v.iter().max().unwrap();
    let ik = v.iter().enumerate().min_by_key(|(_, x)| **x).unwrap().0 as u64;
    let jk = v.iter().enumerate().max_by_key(|(_, x)| **x).unwrap().0 as u64;
    let mb = *v.iter().max_by(|a, b| (**a % 5).cmp(&(**b % 5))).unwrap();
    mn ^ (mx << 4) ^ (ik << 8) ^ (jk << 12) ^ (mb << 16)
}
pub fn p_iter_adapters() -> u64 {
    let v = [1u64, 2, 3, 4, 5, 6, 7, 8];
    let a: Vec<u64> = v.iter().cloned().take_while(|x| *x < 4).collect();
    let b: Vec<u64> = v.iter().cloned().skip_while(|x| *x < 6).collect();
    let c = v.iter().nth(2).cloned().unwrap_or(0);
    let d: u64 = v.iter().cloned().filter(|x| x % 2 == 0).product();
    let e = v.iter().rposition(|x| *x < 4).unwrap() as u64;
    let f = v.iter().find_map(|x| if *x > 4 { Some(*x * 3) } else { None }).unwrap();
    let (ev, od): (Vec<u64>, Vec<u64>) = v.iter().partition(|x| **x % 2 == 0);
    let r = v.iter().cloned().reduce(|x, y| x * 2 + y).unwrap();
    h(&a) ^ (h(&b) << 1) ^ c ^ (d << 7) ^ (e << 20) ^ (f << 24) ^ h(&ev) ^ (h(&od) << 2) ^ r
}
pub fn p_iter_zip_unzip() -> u64 {
    let a = [1u64, 2, 3];
    let b = [7u64, 8, 9, 10];
    let (x, y): (Vec<u64>, Vec<u64>) = a.iter().zip(b.iter()).map(|(p, q)| (p * q, p + q)).unzip();
    let eq = a.iter().eq([1u64, 2, 3].iter()) as u64;
    let l = a.iter().chain(b.iter()).rev().skip(1).step_by(2).count() as u64;
    h(&x) ^ (h(&y) << 1) ^ eq ^ (l << 40)
}
pub fn p_int_ops() -> u64 {
    let a = 0xF0F0_0000_0000_1234u64;
    let w = a.wrapping_add(0x2000_0000_0000_0000).wrapping_mul(3);
    let (o, f) = a.overflowing_add(a);
    let c1 = 5u64.checked_mul(7).unwrap_or(0);
    let c2 = u64::MAX.checked_mul(2).unwrap_or(11);
    let c3 = 9u64.checked_div(0).unwrap_or(13);
    let c4 = 1u64.checked_shl(64).unwrap_or(17);
    let ad = 3u64.abs_diff(10);
    let lz = a.leading_zeros() as u64 + (a.trailing_zeros() as u64) * 100 + (a.count_zeros() as u64) * 10000;
    let p2 = 48u64.is_power_of_two() as u64 + 2 * (64u64.is_power_of_two() as u64) + 37u64.next_power_of_two();
    let cl = 15u64.clamp(3, 9) + 1u64.clamp(3, 9) * 16 + 5u64.clamp(3, 9) * 256;
    let mm = 4u64.min(9) + 4u64.max(9) * 16;
    w ^ o ^ (f as u64) ^ c1 ^ (c2 << 8) ^ (c3 << 16) ^ (c4 << 24) ^ (ad << 32) ^ lz ^ (p2 << 40) ^ (cl << 48) ^ (mm << 56)
}
pub fn p_mem_ops() -> u64 {
    let mut a = vec![1u64, 2];
    let mut b = vec![9u64];
    std::mem::swap(&mut a, &mut b);
    let old = std::mem::replace(&mut a, vec![4, 4, 4]);
    let t = std::mem::take(&mut b);
    h(&a) ^ (h(&old) << 1) ^ (h(&t) << 2) ^ (b.len() as u64)
}
pub fn p_option_ops() -> u64 {
    let a = Some(3u64);
    let b: Option<u64> = None;
    let z = a.zip(Some(4u64)).map(|(x, y)| x * y).unwrap_or(0);
    let x = a.xor(b).unwrap_or(50) + b.xor(b).unwrap_or(60);
    let mut c: Option<u64> = None;
    *c.get_or_insert(5) += 1;
    let old = c.replace(20).unwrap();
    let ud = b.unwrap_or_default() + a.unwrap_or_default();
    let it: u64 = a.iter().chain(b.iter()).sum();
    let th = (3 > 2).then_some(8u64).unwrap_or(0) + (1 > 2).then(|| 9u64).unwrap_or(100);
    z ^ (x << 8) ^ (c.unwrap() << 16) ^ (old << 24) ^ (ud << 32) ^ (it << 40) ^ (th << 48)
}
pub fn p_result_ops() -> u64 {
    let a: Result<u64, u64> = Ok(3);
    let b: Result<u64, u64> = Err(4);
    let x = a.unwrap_or(9) + b.unwrap_or(9) * 16;
    let y = a.map(|v| v + 1).unwrap_or(0) + b.map_err(|e| e * 2).unwrap_err() * 16;
    let z = a.and_then(|v| if v > 2 { Err(v) } else { Ok(v) }).err().unwrap_or(77);
    let w = b.unwrap_or_else(|e| e + 100);
    x ^ (y << 8) ^ (z << 16) ^ (w << 24)
}
pub fn p_ordering_ops() -> u64 {
    let o = 3u64.cmp(&5);
    let a = o.is_lt() as u64 + 2 * (o.is_ge() as u64) + 4 * (o.reverse() == Ordering::Greater) as u64;
    let b = o.then(Ordering::Greater) as i8 as u64 & 0xff;
    let c = Ordering::Equal.then_with(|| 7u64.cmp(&2)) as i8 as u64 & 0xff;
    a ^ (b << 8) ^ (c << 16)
}
pub fn p_range_inclusive() -> u64 {
    let mut s = 0u64;
    for i in 2..=5u64 {
        s = s * 10 + i;
    }
    let r = 3..=7usize;
    let c = r.contains(&7) as u64 + 2 * (r.contains(&8) as u64) + 4 * (r.is_empty() as u64);
    let v = [0u64, 1, 2, 3, 4, 5, 6, 7, 8];
    let t: u64 = v[2..=4].iter().sum();
    s ^ (c << 20) ^ (t << 24) ^ ((*r.start() as u64) << 32) ^ ((*r.end() as u64) << 40)
}
pub fn p_string_ops() -> u64 {
    let mut s = String::new();
    s.push('A');
    s.push_str("CG");
    let bl = s.as_bytes().len() as u64;
    let t = String::from_utf8(vec![b'T', b'A']).unwrap();
    s.push_str(&t);
    let n = s.len() as u64;
    let k: u64 = s.bytes().map(|c| c as u64).sum();
    n ^ (k << 8) ^ (bl << 32)
}
pub fn p_dedup_retain() -> u64 {
    let mut v = vec![(1u64, 0u64), (1, 5), (2, 5), (3, 6), (3, 7)];
    v.dedup_by(|a, b| a.0 == b.0);
    let mut w = vec![1u64, 2, 3, 4, 5, 6];
    w.retain(|x| x % 3 != 0);
    let mut u = vec![10u64, 11, 20, 21, 22];
    u.dedup_by_key(|x| *x / 10);
    let has = w.contains(&4) as u64 + 2 * (w.contains(&3) as u64);
    h(&v.iter().map(|t| t.1).collect::<Vec<_>>()) ^ (h(&w) << 1) ^ (h(&u) << 2) ^ has
}

pub fn p_old_iter_adapters() -> u64 {
    let v = vec![1u64, 2, 3, 4, 5, 6, 7, 8, 9];
    let a: Vec<u64> = v.iter().map(|x| x * 2).filter(|x| x % 3 != 0).collect();
    let b: Vec<u64> = v.iter().enumerate().filter_map(|(i, x)| if i % 2 == 0 { Some(*x + i as u64) } else { None }).collect();
    let c: Vec<u64> = v.chunks(4).flat_map(|c| c.iter().rev().cloned()).collect();
    let d: Vec<u64> = v.iter().skip(2).step_by(3).cloned().collect();
    let e: Vec<u64> = v.iter().rev().take(3).cloned().collect();
    let f: u64 = v.iter().zip(v.iter().skip(1)).map(|(x, y)| x * y).sum();
    let g = v.iter().fold(0u64, |acc, x| acc * 3 + x);
    let mut pk = v.iter().peekable();
    let mut runs = 0u64;
    while let Some(x) = pk.next() {
        if let Some(nx) = pk.peek() {
            if **nx == *x + 1 {
                runs += 1;
            }
        }
    }
    let any = v.iter().any(|x| *x == 7) as u64 + 2 * (v.iter().all(|x| *x < 9) as u64);
    let pos = v.iter().position(|x| *x == 4).unwrap() as u64;
    let fnd = *v.iter().find(|x| **x > 5).unwrap();
    let lst = *v.iter().last().unwrap();
    let cnt = v.iter().filter(|x| **x > 3).count() as u64;
    h(&a) ^ (h(&b) << 1) ^ (h(&c) << 2) ^ (h(&d) << 3) ^ (h(&e) << 4) ^ f ^ (g << 5) ^ (runs << 50) ^ (any << 54) ^ (pos << 56) ^ (fnd << 58) ^ lst ^ (cnt << 40)
}
pub fn p_old_deque_option() -> u64 {
    use std::collections::VecDeque;
    let mut q: VecDeque<u64> = VecDeque::new();
    q.push_back(1);
    q.push_back(2);
    q.push_front(0);
    let f = *q.front().unwrap();
    let b = *q.back().unwrap();
    let p = q.pop_front().unwrap_or(99);
    let l = q.len() as u64;
    let s: u64 = q.iter().map(|x| x * 10).sum();
    let o = Some(5u64);
    let m = o.map(|x| x + 1).and_then(|x| if x > 5 { Some(x * 2) } else { None }).unwrap_or(0);
    let n: Option<u64> = None;
    let k = n.map_or(7, |x| x + 1) + o.map_or(7, |x| x + 1) * 16 + n.or(Some(3)).unwrap() * 256 + o.filter(|x| *x > 9).unwrap_or(1) * 4096;
    let t = o.ok_or(1u64).unwrap_or(2) + n.ok_or(1u64).unwrap_or(2) * 16 + (o.is_some_and(|x| x > 2) as u64) * 256;
    f ^ (b << 4) ^ (p << 8) ^ (l << 16) ^ (s << 20) ^ (m << 30) ^ (k << 36) ^ (t << 52)
}
pub fn p_old_int_misc() -> u64 {
    let a = 0x0123_4567_89AB_CDEFu64;
    let r = a.rotate_left(12) ^ a.rotate_right(7) ^ a.swap_bytes() ^ a.reverse_bits();
    let c = a.count_ones() as u64 + (a.leading_zeros() as u64) * 100 + (a.trailing_zeros() as u64) * 10000;
    let s = 5u64.saturating_sub(9) + 9u64.saturating_sub(5) * 16 + u64::MAX.saturating_add(3) / (1 << 60);
    let cs = 5u64.checked_sub(9).unwrap_or(77) + 9u64.checked_sub(5).unwrap_or(77) * 256 + u64::MAX.checked_add(1).unwrap_or(3) * 65536;
    let p = 3u64.pow(5) + std::cmp::min(4u64, 9) * 1000 + std::cmp::max(4u64, 9) * 10000;
    let (lo, hi) = [1u64, 2, 3, 4, 5].split_at(2);
    let bb = 0x1234_5678u32.to_be_bytes();
    let lb = 0x1234_5678u32.to_le_bytes();
    let rb = u32::from_le_bytes(bb) as u64 ^ ((u32::from_be_bytes(lb.map(|x| x.rotate_left(4))) as u64) << 1);
    let r = r ^ (rb << 17);
    r ^ c ^ (s << 3) ^ (cs << 7) ^ (p << 30) ^ ((lo.len() as u64) << 50) ^ ((hi[0]) << 54)
}

pub fn p_w2_iters() -> u64 {
    let mut c = 0u64;
    let v: Vec<u64> = std::iter::from_fn(|| {
        c += 1;
        if c < 5 { Some(c * c) } else { None }
    })
    .collect();
    let z: Vec<u64> = [7u64, 8, 9].iter().copied().zip(3u64..).map(|(a, i)| a * i).collect();
    let d: std::collections::VecDeque<u64> = std::collections::VecDeque::from(vec![4u64, 5, 6]);
    let ds: u64 = d.iter().rev().fold(0, |a, x| a * 10 + x);
    let r: Result<(), u64> = (1u64..10).try_for_each(|x| if x * x > 30 { Err(x) } else { Ok(()) });
    let o: Option<()> = [1u64, 2, 3].iter().try_for_each(|x| if *x > 5 { None } else { Some(()) });
    let (a, (b, cc)): (Vec<u64>, (Vec<u64>, Vec<u64>)) = [1u64, 2, 3].iter().map(|x| (*x, (x * 2, x * 3))).unzip();
    let data = [1u8, 2, 3, 4, 5, 6, 7];
    let mut ch = data.chunks_exact(3);
    let mut acc = 0u64;
    for c3 in &mut ch {
        acc = acc * 100 + c3.iter().map(|x| *x as u64).sum::<u64>();
    }
    let rem = ch.remainder().len() as u64;
    h(&v) ^ (h(&z) << 1) ^ (ds << 8) ^ (r.unwrap_err() << 20) ^ ((o.is_some() as u64) << 28) ^ h(&a) ^ (h(&b) << 2) ^ (h(&cc) << 3) ^ (acc << 30) ^ (rem << 50)
}
pub fn p_w2_misc() -> u64 {
    use std::cmp::Reverse;
    use std::collections::HashSet;
    let t1 = (3u64, Reverse(5u64));
    let t2 = (3u64, Reverse(7u64));
    let c = (t1 < t2) as u64 + 2 * ((t1.cmp(&t2) == std::cmp::Ordering::Greater) as u64) + 4 * ((t1.partial_cmp(&t2) == Some(std::cmp::Ordering::Greater)) as u64);
    let ov: Option<Vec<u64>> = Some(vec![1, 2, 3]);
    let sl: Option<&[u64]> = ov.as_deref();
    let n = sl.map_or(0, |s| s.len() as u64);
    let mut hs: HashSet<u64> = [3u64, 5, 3].iter().copied().collect();
    let i1 = hs.insert(7) as u64;
    let i2 = hs.insert(5) as u64;
    let hc = hs.contains(&3) as u64 + 2 * (hs.contains(&4) as u64);
    let hl = hs.len() as u64;
    let parts: Vec<u64> = "ACNGTnA".split(|ch| ch == 'N' || ch == 'n').filter(|p| !p.is_empty()).map(|p| p.len() as u64).collect();
    const TAB: [u8; 4] = [9, 7, 5, 3];
    let idx = (data_idx() & 3) as usize;
    let tv = TAB[idx] as u64;
    c ^ (n << 4) ^ (i1 << 8) ^ (i2 << 9) ^ (hc << 10) ^ (hl << 12) ^ (h(&parts) << 16) ^ (tv << 60)
}
fn data_idx() -> u64 {
    6
}
pub fn p_w2_threads() -> u64 {
    let data = vec![1u64, 2, 3, 4, 5, 6];
    let (a, b) = std::thread::scope(|s| {
        let h1 = s.spawn(|| data[..3].iter().sum::<u64>());
        let h2 = s.spawn(|| data[3..].iter().product::<u64>());
        (h1.join().unwrap(), h2.join().unwrap())
    });
    a ^ (b << 16)
}

// ---- wave 3 of the refactoring corpus: slice patterns, a user-defined double-ended iterator driven through rev(), references compared
// by value, partition_point / binary_search_by, Option::filter / map_or_else, div_ceil, trailing_zeros bit scans
struct Countdown {
    lo: u64,
    hi: u64,
}
impl Iterator for Countdown {
    type Item = u64;
    fn next(&mut self) -> Option<u64> {
        if self.lo < self.hi {
            self.lo += 1;
            Some(self.lo - 1)
        } else {
            None
        }
    }
}
impl DoubleEndedIterator for Countdown {
    fn next_back(&mut self) -> Option<u64> {
        if self.lo < self.hi {
            self.hi -= 1;
            Some(self.hi)
        } else {
            None
        }
    }
}
pub fn p_w3_slice_patterns() -> u64 {
    let v = [3u64, 1, 4, 1, 5];
    let mut rest: &[u64] = &v;
    let mut acc = 0u64;
    let mut n = 0u64;
    while let [first, tail @ ..] = rest {
        acc = acc * 7 + *first;
        n += 1;
        rest = tail;
    }
    let last = match &v[..] {
        [.., z] => *z,
        [] => 0,
    };
    let mid = match &v[..] {
        [_, m @ .., _] => m.len() as u64,
        _ => 99,
    };
    acc ^ (n << 40) ^ (last << 50) ^ (mid << 56)
}
pub fn p_w3_user_rev() -> u64 {
    let a: Vec<u64> = Countdown { lo: 2, hi: 7 }.rev().collect();
    let mut it = Countdown { lo: 0, hi: 5 };
    let x = it.next().unwrap();
    let y = it.next_back().unwrap();
    let rest: Vec<u64> = it.collect();
    h(&a) ^ (x << 3) ^ (y << 9) ^ (h(&rest) << 1)
}
pub fn p_w7_misc() -> u64 {
    // a user-defined iterator as the second stream of zip; zip with an open range; unzip; capacity management; checked conversions;
    // an in-register population count (mask, shift, add, fold)
    let z: Vec<u64> = [10u64, 20, 30, 40].iter().copied().zip(Countdown { lo: 1, hi: 4 }).map(|(a, b)| a + b).collect();
    let (ks, ids): (Vec<u64>, Vec<u32>) = vec![5u64, 0, 7, 0, 9].into_iter().zip(0u32..).filter(|(k, _)| *k != 0).unzip();
    let mut v: Vec<u64> = Vec::new();
    v.reserve(10);
    v.push(3);
    v.shrink_to_fit();
    let big = 0x1_0000_0000_0000_0005u128;
    let small = 0x0_0000_0000_0000_0007u128;
    let c1 = u64::try_from(big).map(|x| x + 1).unwrap_or(99);
    let c2 = u64::try_from(small).map(|x| x + 1).unwrap_or(99);
    let flags = 0x5145_0411_5005_1441u64;
    let m2 = 0x3333_3333_3333_3333u64;
    let m4 = 0x0f0f_0f0f_0f0f_0f0fu64;
    let mut acc = (flags & m2) + ((flags >> 2) & m2);
    acc = (acc + (acc >> 4)) & m4;
    let mut width = 8;
    while width < 64 {
        acc = acc + (acc >> width);
        width *= 2;
    }
    let pc = acc & 0x7f;
    h(&z) ^ (h(&ks) << 1) ^ ((ids.iter().map(|x| *x as u64).sum::<u64>()) << 7) ^ (h(&v) << 2) ^ (c1 << 12) ^ (c2 << 20) ^ (pc << 30) ^ ((flags.count_ones() as u64) << 40)
}
pub fn p_w3_refs_search() -> u64 {
    let v = [1u64, 3, 3, 5, 8, 13];
    let a = &v[1];
    let b = &v[2];
    let same = (&a == &b) as u64;
    let diff = (&a != &&v[3]) as u64;
    let pp = v.partition_point(|e| *e < 5) as u64;
    let bs = match v.binary_search_by(|e| e.cmp(&8)) {
        Ok(i) => i as u64,
        Err(i) => 100 + i as u64,
    };
    let bs2 = match v.binary_search_by(|e| e.cmp(&4)) {
        Ok(i) => i as u64,
        Err(i) => 100 + i as u64,
    };
    let f = Some(6u64).filter(|x| x % 2 == 0).map_or_else(|| 0, |x| x + 1);
    let g = Some(7u64).filter(|x| x % 2 == 0).map_or(40, |x| x + 1);
    let dc = 7usize.div_ceil(2) as u64;
    let mut bits = 0b1011_0100u8;
    let mut tz = 0u64;
    while bits != 0 {
        tz = tz * 10 + bits.trailing_zeros() as u64;
        bits &= bits - 1;
    }
    same ^ (diff << 1) ^ (pp << 2) ^ (bs << 8) ^ (bs2 << 16) ^ (f << 28) ^ (g << 34) ^ (dc << 42) ^ (tz << 46)
}

#[cfg(test)]
mod probe_tests {
    use super::*;
    #[test]
    fn probe_print() {
        let all: Vec<(&str, u64)> = vec![
            ("p_vec_insert_remove", p_vec_insert_remove()),
            ("p_vec_resize_split", p_vec_resize_split()),
            ("p_vec_drain", p_vec_drain()),
            ("p_slice_ops", p_slice_ops()),
            ("p_slice_fill_copy", p_slice_fill_copy()),
            ("p_windows_chunks", p_windows_chunks()),
            ("p_sort_search", p_sort_search()),
            ("p_iter_minmax", p_iter_minmax()),
            ("p_iter_adapters", p_iter_adapters()),
            ("p_iter_zip_unzip", p_iter_zip_unzip()),
            ("p_int_ops", p_int_ops()),
            ("p_mem_ops", p_mem_ops()),
            ("p_option_ops", p_option_ops()),
            ("p_result_ops", p_result_ops()),
            ("p_ordering_ops", p_ordering_ops()),
            ("p_range_inclusive", p_range_inclusive()),
            ("p_string_ops", p_string_ops()),
            ("p_dedup_retain", p_dedup_retain()),
            ("p_old_iter_adapters", p_old_iter_adapters()),
            ("p_old_deque_option", p_old_deque_option()),
            ("p_old_int_misc", p_old_int_misc()),
            ("p_w2_iters", p_w2_iters()),
            ("p_w2_misc", p_w2_misc()),
            ("p_w2_threads", p_w2_threads()),
            ("p_w3_slice_patterns", p_w3_slice_patterns()),
            ("p_w3_user_rev", p_w3_user_rev()),
            ("p_w3_refs_search", p_w3_refs_search()),
            ("p_w7_misc", p_w7_misc()),
        ];
        for (n, v) in all {
            println!("PROBE {} {}", n, v);
        }
    }
}
