#!/usr/bin/env python3
"""development aid: self-test of the library models.  Adds tools/probe/probe.rs as a module to a scratch worktree of /repo, gets the
expected value of every probe from the real library (cargo test, scratch copy only), then interprets every probe abstractly
and compares.  Not a registered check."""
import json, os, re, subprocess, sys, tempfile, shutil
VERIF = os.path.dirname(os.path.dirname(os.path.dirname(os.path.abspath(__file__))))
sys.path.insert(0, VERIF)
wt = tempfile.mkdtemp(prefix="probe.", dir="/tmp"); os.rmdir(wt)
subprocess.check_call(["git", "-C", "/repo", "worktree", "add", "--detach", "-f", wt, "HEAD"], stdout=subprocess.DEVNULL, stderr=subprocess.DEVNULL)
try:
    shutil.copy(os.path.join(VERIF, "tools/probe/probe.rs"), os.path.join(wt, "src/verif_probe.rs"))
    with open(os.path.join(wt, "src/lib.rs"), "a") as f:
        f.write("\npub mod verif_probe;\n")
    env = dict(os.environ, CARGO_NET_OFFLINE="true")
    r = subprocess.run("cargo test --offline --lib probe_print -- --nocapture 2>&1", shell=True, cwd=wt, env=env, capture_output=True, text=True)
    expect = {m.group(1): int(m.group(2)) for m in re.finditer(r"PROBE (\w+) (\d+)", r.stdout)}
    if not expect:
        print(r.stdout[-3000:]); sys.exit(2)
    os.environ["VERIF_REPO"] = wt
    from pysa import facts
    from pysa.absint import Interp, Harness, Undecided, Unsupported, Diverge
    from pysa.bv import Int
    d, info = facts.run_driver(thorough=False)
    F = facts.Facts(d)
    if "--dump" in sys.argv:
        json.dump(d, open("/tmp/probefacts.json", "w"))
    bad = 0
    for name, want in sorted(expect.items()):
        key = "verif_probe::" + name
        body = F.insts.get(key) or F.fns.get(key)
        if body is None:
            print("MISSING", name); bad += 1; continue
        for mono in (True, False):
            b = F.insts.get(key) if mono else F.fns.get(key)
            if b is None:
                continue
            try:
                out = Interp(F, mono, Harness()).call_body(b, [])
                ok = isinstance(out, Int) and out.is_conc() and out.val == want
                print("%-24s %-7s %s" % (name, "mono" if mono else "generic", "ok" if ok else "WRONG got %r want %d" % (out, want)))
                bad += 0 if ok else 1
            except (Undecided, Unsupported, Diverge) as e:
                print("%-24s %-7s UNSUPPORTED %s" % (name, "mono" if mono else "generic", str(e)[:160])); bad += 1
    print("problems:", bad)
finally:
    subprocess.call(["git", "-C", "/repo", "worktree", "remove", "--force", wt], stdout=subprocess.DEVNULL, stderr=subprocess.DEVNULL)
    shutil.rmtree(wt, ignore_errors=True)
    subprocess.call(["git", "-C", "/repo", "worktree", "prune"])
