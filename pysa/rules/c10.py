"""C10 — packed k-mers behave as length-K strings.
Decided statically (level: proof of the lane maps): for every shipped (storage, K) k-mer type, bit-vector lemmas
L-get, L-set, L-slice, L-rc, L-extL/R, L-rank, L-ham, L-at/gc, L-empty, L-len (Appendix C of DESIGN.md) hold for ALL
2^(2K) k-mer values and all in-range positions / run lengths (positions and lengths are partitioned exhaustively, the
k-mer is one abstract bit-vector); the mask ladders reverse_by_twos/lower_of_two on u8..u128; and the default
constructors/renderers (from_bytes, from_ascii, to_string, kmers_from_*) feed those primitives in lockstep, and — exactly,
on the monomorphic instance of every k-mer type — from_bytes / from_ascii / to_string / kmers_from_bytes / kmers_from_ascii and
the immutable writers MerImmut::set / set_slice (runs up to 32 bases) produce the specified lanes (the byte tables
base_to_bits / bits_to_base being uninterpreted here and decided in C16.1).
This decides the bit-level behaviour of the listed operations, by abstract interpretation of the monomorphic MIR;
nothing is executed and no k-mer value is enumerated.
Added later: in-register counting decided by the sum-field domain, checked conversions by case split, immutable writes, base iteration through Mer::iter, the ASCII byte tables."""
from .. import dt_strings, lemmas, structural, dt_seq
from . import common

THOROUGH_FACTS = True
ASSUMPTIONS = ["a base argument is in range (< 4); rank arguments are < 4^K; the padding bits of inputs are zero (that "
               "this is preserved by every operation is itself an obligation, see C11)"]


def run(F, rep):
    rep.engines.update(["E2-BV", "E1"])
    rep.run(common.kmer_floor, F, rep)
    rep.run(lemmas.ladder_lemmas, F, rep)
    rep.run(common.run_kmer_lemmas, F, rep, {"len", "empty", "get", "set", "slice", "rc", "ext", "rank", "ham", "atgc"})
    rep.run(dt_seq.kmer_default_tables, F, rep, "C10.defaults")
    # "reading a base": also through the trait's base iterator
    rep.run(lemmas.kmer_base_iter_lemmas, F, rep, "L-kmer-iter")
    for ty in common.kmer_type_names(F):
        rep.run(lemmas.kmer_default_lemmas, F, rep, ty, rule="L-default")
    # "construction from ... ASCII": the byte table behind from_ascii / kmers_from_ascii
    rep.run(dt_strings.byte_tables, F, rep, "C10.ascii")
