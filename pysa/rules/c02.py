"""C02 — nodes are exactly the maximal unbranched paths.
Decided statically: the complete decision table of both step functions (k-mer route: stranded × dir × #extensions of
the current k-mer × palindrome(cur) × flip × present × available × #incoming extensions × palindrome(next) × join;
graph route likewise with the link triple) is equal, row by row, to the step rule of the statement — both directions of
the iff: a missing conjunct over-merges, an extra one under-merges; the side asked of the neighbour, the canonicalisation
and the operands of join/availability are the specified ones; the growth loops leave only on Terminal and walk both
directions from every seed; palindrome definition and the Exts query lemmas (one bit layout for all queries).
Added later: both chain tables (lines, rings, hairpins); index-builder tables; is_compressed never reports a pair that cannot be joined; the no-extensions entry point; filter_kmers tables."""
from .. import dt_compress, dt_tables, dt_graph, lemmas, dt_filter
from . import common

ASSUMPTIONS = ["rows where the neighbour reports no incoming extension are outside the property's precondition (symmetric extensions)"]


def run(F, rep):
    rep.engines.update(["E2-DT", "E2-BV", "E1"])
    rep.run(dt_tables.hash_step_table, F, rep, "C02.1")
    rep.run(dt_tables.graph_step_table, F, rep, "C02.2")
    rep.run(dt_compress.extender_table, F, rep, "C02.3", graph_route=False)
    rep.run(dt_compress.extender_table, F, rep, "C02.3", graph_route=True)
    rep.run(dt_compress.hash_builder_table, F, rep, "C02.3")
    # ... and the three private functions of the k-mer route interpreted together on scripted lines of k-mers
    rep.run(dt_compress.kmer_chain_table, F, rep, "C02.3")
    rep.run(dt_compress.graph_builder_table, F, rep, "C02.3")
    # ... and the three private functions of the graph route interpreted together on scripted lines of nodes
    rep.run(dt_compress.graph_chain_table, F, rep, "C02.3")
    rep.run(dt_compress.hash_driver_table, F, rep, "C02.3")
    rep.run(dt_compress.graph_driver_table, F, rep, "C02.3")
    # the pruning the graph route relies on before it walks (a pruned real link hides a branch)
    rep.run(dt_graph.get_valid_exts_table, F, rep, "C02.4")
    rep.run(dt_graph.fix_exts_table, F, rep, "C02.4")
    rep.run(dt_graph.censor_tables, F, rep, "C02.4")
    rep.run(dt_graph.is_compressed_sound_table, F, rep, "C02.4")
    # the graph route resolves every link through the two end indices of the finished graph (a node end that is not indexed is a link lost)
    rep.run(dt_graph.finish_tables, F, rep, "C02.4")
    rep.run(dt_graph.find_link_table, F, rep, "C02.4")
    rep.run(common.run_kmer_lemmas, F, rep, {"canon"})
    rep.run(lemmas.exts_lemmas, F, rep)
    # "the sole extension on both facing sides" is about the extensions observed in the reads: both summarizers must hand every
    # observation's extensions to the table (a dropped one hides a branch inside a node)
    rep.run(dt_filter.summarizer_tables, F, rep, "C02.5")
    # both routes read the terminal k-mers of nodes / the k-mers of the store through Vmer::get_kmer on views of the packed store
    rep.run(common.run_store_kmer_lemmas, F, rep, "C02.6")
    # the entry point that finds the extensions itself: "the sole extension on both facing sides" is decided on the bytes it computes
    rep.run(dt_compress.entry_points_table, F, rep, "C02.7")
    # the statement quantifies over read sets and count thresholds: the k-mer table the graph is built from is filter_kmers' (pass tiling,
    # grouping, canonicalisation, emission)
    rep.run(dt_filter.filter_tables, F, rep, "C02.5")
