"""C20 — exports and persistence are faithful.
Decided statically: the JSON and GFA writers are interpreted abstractly on scripted small graphs with the `write!`
templates decoded from the fmt::Arguments encoding found in MIR, so the emitted text is reconstructed exactly
(placeholders are replaced by a sample of their class: decimal ids, a JSON value, a DNA string, a tag string). JSON: every
shape with up to 3 nodes and 0–2 right-going links per node, and every kind of `rest`, must parse as JSON and list every
node and every right-going link exactly once. GFA: every two-node graph with up to 3 (thorough 4) of the 10 possible
adjacencies — links between the nodes on any sides, circular self-links, left and right hairpins — must give one S line
per node and each adjacency exactly once with correct orientation characters and a K-1 overlap, for both write_gfa and
to_gfa_with_tags. Persistence: Serialize/Deserialize are derived for all nine persisted types and the derived serializer
writes every declared field.
Added later: OpenOptions sinks must truncate, a writer whose write() accepts one byte per call, serde impls that buffer in Content cannot carry 128-bit k-mers."""
from .. import dt_export, lemmas

ASSUMPTIONS = ["value equality after a serde round trip is serde's contract for derived impls (trusted)", "keys of the caller-supplied `rest` object are quote/backslash-free (they are interpolated unescaped)",
               "adjacencies between distinct nodes are reported from both ends (symmetry clause of C03)",
               "graph shapes are bounded (<= 3 nodes JSON, 2 nodes GFA); the writers' loops are uniform in the node index"]


def run(F, rep):
    rep.engines.update(["E3", "E2-DT", "E1"])
    rep.run(dt_export.json_tables, F, rep, "C20.1")
    rep.run(dt_export.gfa_tables, F, rep, "C20.2")
    rep.run(dt_export.serde_rules, F, rep, "C20.4")
    # "lists every node once with its sequence": the S line carries to_dna_string() of the node's view into the packed store — exact for
    # views at every kind of offset (the export tables above take the rendered text as given)
    rep.run(lemmas.slice_exact_lemmas, F, rep, "C20.5", quick=True, only={"to_dna_string"})
