"""C16 — ASCII ingestion is total and path-independent.
Decided statically: the scalar tables for all 256 byte values (base_to_bits, dna_only_base_to_bits, is_valid_base,
bits_to_ascii, bits_to_base and their agreement; round trip = upper-cased input with non-ACGT -> A); the AVX2 kernels by
abstract interpretation with models of the 16 intrinsics: pack_32_bases is the same base placement as the scalar packer
(provenance lemma over 32 symbolic bytes) and convert_bases' output byte in a lane is a constant equal to base_to_bits
for every byte value with all other lanes unconstrained (lane independence + per-lane table); from_acgt_bytes assembles
canonical storage with base i = code(byte i), every byte converted exactly once, for every length 0..100 on both the AVX2
and the scalar path; the str constructor uses the same table; from_dna_only_string returns exactly the maximal valid
runs for every validity pattern; from_acgt_bytes_hashn leaves ACGT untouched and substitutes (hash(name, position) % 4)
with a fixed-key hasher, no random state reachable.
Added later: str::trim* modelled; a row of text that starts and ends with white space."""
import os
from .. import dt_strings, lemmas

ASSUMPTIONS = ["Intel's documented semantics of the 16 AVX2 intrinsics (models in pysa/avx.py)", "str input is ASCII (multi-byte UTF-8 is outside the statement)",
               "slice::chunks(32) yields full chunks followed by at most one short chunk (std contract, modelled)"]


def run(F, rep):
    rep.engines.update(["E4", "E2-BV", "E2-DT"])
    thorough = rep.tier == "thorough"
    rep.run(dt_strings.byte_tables, F, rep, "C16.1")
    rep.run(dt_strings.avx_kernels, F, rep, "C16.2", thorough=thorough)
    rep.run(dt_strings.from_acgt_bytes_lemma, F, rep, "C16.3", maxn=140 if thorough else 100)
    rep.run(dt_strings.dna_only_runs, F, rep, "C16.4", maxn=7 if thorough else 5)
    rep.run(dt_strings.hashn_table, F, rep, "C16.5")
    rep.run(dt_strings.from_str_lemmas, F, rep, "C16.6")
    # "rendering back yields the upper-cased input with every non-ACGT byte replaced by A": to_ascii_vec / to_string / Display / Debug write
    # the letter of base i at position i, for lengths around and on the storage-word boundaries
    rep.run(lemmas.dnastring_render_lemmas, F, rep, "C16.7")
