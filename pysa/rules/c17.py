"""C17 — fixed-size DNA strings (Lmer) behave as strings.
Decided statically (level: proof of the lane maps): for every capacity (1–3 words quick, 1–6 thorough) and every
length 0..=max_len: new/len/max_len, get, set_mut (never touches the length byte or another base), set_slice_mut for
every (position, run length) including runs crossing a word boundary and runs in the word that carries the length byte,
rc for every length, get_kmer for every k-mer type and position; equality/order/hash are derived over the storage array
and every writer preserves "unused lanes are zero".
Added later: immutable writes (set / set_slice incl. 32-base runs) for every capacity."""
from .. import lemmas, structural

THOROUGH_FACTS = True
ASSUMPTIONS = ["base arguments < 4; positions and runs lie within max_len; unused lanes of inputs are zero (preserved by every writer, checked)"]


def run(F, rep):
    rep.engines.update(["E2-BV", "E1"])
    rep.run(lemmas.lmer_lemmas, F, rep)
    structural.check_derives(F, rep, "C17.derive", "vmer::Lmer",
                             ["std::cmp::PartialEq", "std::cmp::Eq", "std::hash::Hash", "std::cmp::PartialOrd", "std::cmp::Ord"])
    # a hand-written == is interpreted (the derive argument does not cover it)
    rep.run(lemmas.lmer_eq_table, F, rep, "C17.eq")
    vis = structural.field_vis(F, "vmer::Lmer")
    if vis and all(v != "pub" for v in vis.values()):
        rep.holds("C17.encaps", "vmer::Lmer/fields-private", "the representation cannot be written from outside the crate")
    else:
        rep.violated("C17.encaps", "vmer::Lmer/fields-private", "Lmer representation field is public: %r" % vis)
    # writers of the storage array
    ws = structural.who_writes_field(F, {"vmer::Lmer"}, 0)
    allowed = {"new": "L-lmer-new", "set_mut": "L-lmer-set", "set_slice_mut": "L-lmer-slice"}
    seen = {}
    for w in ws:
        if structural.is_derived_body(w["body"]):
            continue
        seen.setdefault(w["path"], w)
    n = 0
    for path, w in sorted(seen.items()):
        meth = path.split("::")[-1]
        if w["body"].get("impl_self", "").startswith("vmer::Lmer") and meth in allowed:
            rep.holds("C17.writers", path, "writer covered by lemma %s" % allowed[meth])
            n += 1
        else:
            rep.inconclusive("C17.writers", path, "writes Lmer storage but has no lemma", site=F.site(w["body"], w["line"]))
    if n == 0:
        rep.inconclusive("C17.writers", "none-found", "no writer of Lmer storage was recognised")
