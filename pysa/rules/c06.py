"""C06 — strand symmetry when unstranded, strand separation when stranded.
Decided statically (necessary clauses): STRAND-GUARD — in every function that carries the strandedness flag, the
canonicalising operations (min_rc / min_rc_flip / reverse-complement look-ups / palindrome stops) are reached exactly
when unstranded and never when stranded: rows of the two step tables, of find_link, of the filter canonicalisation
table, of both censoring tables and of compress_kmers_no_exts; the canonical-form tables for every k-mer type (min_rc_flip
returns the smaller of the two strands and the flip flag, min_rc its first component, is_palindrome ⇔ K even ∧ self = rc);
Exts::rc as an 8-bit lemma (sides swapped, bases complemented) and its use on flipped observations; flag plumbing: every
public entry passes its `stranded` argument unchanged to the graph and to the worker, combine keeps it (also when some
shard graphs are empty); reverse-complemented views (the usual way to hand over an rc read) remap get / get_kmer / slice exactly.
Added later: rc lemmas of the read containers, both chain tables with every stored orientation."""
from .. import dt_tables, dt_graph, dt_filter, dt_compress, dt_seq, dt_msp, lemmas, dt_export
from . import common

ASSUMPTIONS = ["invariance of whole outputs under reverse-complementing reads is a relational fact and is not decided; the clauses above are its mechanisms"]


def run(F, rep):
    rep.engines.update(["E2-DT", "E2-BV", "E1"])
    rep.run(dt_tables.hash_step_table, F, rep, "C06.1")
    rep.run(dt_tables.graph_step_table, F, rep, "C06.1")
    # nodes / k-mers stored in either orientation along a line: both routes, end to end
    rep.run(dt_compress.kmer_chain_table, F, rep, "C06.1")
    rep.run(dt_compress.graph_chain_table, F, rep, "C06.1")
    rep.run(dt_graph.find_link_table, F, rep, "C06.5")
    rep.run(dt_filter.filter_tables, F, rep, "C06.1f")
    rep.run(dt_graph.censor_tables, F, rep, "C06.1c")
    rep.run(dt_compress.entry_points_table, F, rep, "C06.6")
    rep.run(dt_compress.hash_driver_table, F, rep, "C06.6")
    rep.run(dt_compress.graph_driver_table, F, rep, "C06.6")
    rep.run(dt_graph.combine_table, F, rep, "C06.6")
    rep.run(common.run_kmer_lemmas, F, rep, {"canon", "rc"})
    rep.run(lemmas.exts_lemmas, F, rep)
    # reads handed over as reverse-complemented views: the view's k-mers are the reverse complements of the substring's k-mers
    rep.run(dt_seq.slice_view_tables, F, rep, "C06.7")
    # ... or as owned reverse complements made by the library's own Mer::rc of the read containers
    rep.run(lemmas.dnastring_lemmas, F, rep, which={"rc"})
    rep.run(lemmas.lmer_lemmas, F, rep, which={"rc"})
    # strand-symmetric sharding: the score is symmetric in a p-mer and its reverse complement and is compared in full
    rep.run(dt_msp.score_closure_tables, F, rep, "C06.8")
    rep.run(dt_msp.minpos_order_tables, F, rep, "C06.8")
    rep.run(dt_msp.scan_tables, F, rep, "C06.8")
    # the sharded / re-compressed variants store shard graphs and read them back: the strandedness flag of a graph must survive that
    # (a graph whose flag is lost is treated as unstranded: reverse-complement look-ups identify a k-mer with its reverse complement)
    rep.run(dt_export.serde_rules, F, rep, "C06.9", types=["graph::BaseGraph", "graph::DebruijnGraph"])
