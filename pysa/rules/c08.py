"""C08 — shard assignment is a pure, strand-symmetric function of the k-mer.
Decided statically (necessary clauses): the score closures of msp_sequence and simple_scan are perm[rank(p)] and, in
reverse-complement mode, min(perm[rank(p)], perm[rank(rc p)]) — a permutation look-up on both strands; the bucket is the
rank of the canonical minimizer; each emitted piece is read[start..start+len], its boundary extensions are
from_slice_bounds on the same read with the same (start, len); from_slice_bounds / from_dna_string tables (left flank ⇔
start > 0 from base start-1 in the low nibble, right flank ⇔ start+len < read length from base start+len in the high
nibble, none at a read end); Vmer::from_slice writes every base; plus the minimizer scan itself (C07's abstract scan and
order tables: the same p-mer wins in every k-mer that contains it).
Added later: ranked mode of the score table (pre-computed score tables), DnaString::blank."""
from .. import dt_msp, lemmas, structural
from . import common

ASSUMPTIONS = ["that two occurrences of one k-mer see the same minimizer follows from C07's clauses (minimal p-mer, ties to the larger position) and is not re-derived here"]


def run(F, rep):
    rep.engines.update(["E2-DT", "affine", "E1"])
    rep.run(dt_msp.score_closure_tables, F, rep, "C08.1")
    rep.run(dt_msp.piece_closure_table, F, rep, "C08.2")
    rep.run(dt_msp.capacity_guard, F, rep, "C08.2")
    rep.run(dt_msp.slice_bounds_tables, F, rep, "C08.3")
    rep.run(dt_msp.from_slice_table, F, rep, "C08.5")
    rep.run(lemmas.lmer_lemmas, F, rep, which={"from_slice"})
    # ... and the growable string as piece container: `from_slice` starts from `blank(n)`, whose word vector must be the canonical one
    rep.run(lemmas.dnastring_lemmas, F, rep, which={"new"})
    rep.run(dt_msp.minpos_order_tables, F, rep, "C08.6")
    rep.run(dt_msp.scan_tables, F, rep, "C08.6")
    # the bucket id of a piece is the rank of min_rc of its minimizer when reverse-complement mode is on (MspIntervalP::bucket): the
    # canonical-form tables for every k-mer type usable as p-mer (odd P included)
    rep.run(common.run_kmer_lemmas, F, rep, {"canon"})
    # the scanner takes its first p-mer of every window with get_kmer on the read, which may be a (reverse-complemented) view
    rep.run(common.run_store_kmer_lemmas, F, rep, "C08.7")
    # "every occurrence of the same k-mer … the same bucket id": the bucket must be a function of the k-mer and the call's parameters, not of
    # earlier calls — state that outlives a call (thread-local caches) must be keyed by everything its content depends on
    rep.run(structural.cache_key_rule, F, rep, "C08.8", ["msp::msp_sequence", "msp::simple_scan"])
