"""C15 — string slices are exact, composable views.
Decided statically: the remap tables with affine coordinates (get / get_kmer / slice / rc under the is_rc flag; prefix /
suffix / slice constructors with their range guards) — closed under composition, so nesting to any depth follows; view
discipline: every renderer / converter / comparison (bytes, ascii, to_dna_string, to_owned, Display, Debug, ==) reads
each base through the view at positions 0..len in order and never reads the backing string directly; and, exactly, on a
symbolic backing string: to_owned / bytes / ascii / to_dna_string / Display / Debug of views at word-aligned and unaligned
starts, lengths across word boundaries and both strands equal the substring's (bit-for-bit canonical DnaString for
to_owned), and == is decided by comparing every view position, over same / different backing strings; the Hamming
distance covers every position exactly once, compares self with other at equal view positions, for lengths across block
boundaries and for forward / reverse-complemented / mixed operands.
Added later: exact Hamming lemmas on symbolic backing strings (whole blocks; whole string against a prefix of a longer one), override table of the k-mer iterators."""
from .. import dt_seq, lemmas

ASSUMPTIONS = ["coordinates do not overflow usize"]


def run(F, rep):
    rep.engines.update(["E2-DT", "affine", "E1"])
    rep.run(dt_seq.slice_view_tables, F, rep, "C15.4")
    rep.run(dt_seq.dnastring_view_ctors, F, rep, "C15.4")
    rep.run(dt_seq.slice_renderers, F, rep, "C15.1")
    rep.run(lemmas.slice_exact_lemmas, F, rep, "C15.1", quick=(rep.tier != "thorough"))
    rep.run(lemmas.slice_getkmer_lemmas, F, rep, "C15.1", quick=(rep.tier != "thorough"))
    rep.run(dt_seq.hamming_dist_table, F, rep, "C15.2")
    rep.run(lemmas.slice_hamming_lemmas, F, rep, "C15.2")
    # base iteration by reference (`for b in &x`): exact, whatever iterator type implements it
    rep.run(lemmas.container_iter_lemmas, F, rep, "C15.6", conts=("slice",), quick=(rep.tier != "thorough"))
    # provided methods of the k-mer iterators that the crate overrides (fold, count, last, nth …) must agree with next()
    rep.run(dt_seq.kmer_iter_override_table, F, rep, "C15.7")
