"""C05 — k-mer counting / filtering equals reference grouping for any pass count.
Decided statically (necessary clauses): the bucket ranges of the passes tile [0,256) as consecutive half-open intervals for
14 memory budgets (1…5000 slices); on abstract runs of filter_kmers with scripted observations — every identity pattern of
three observations, every placement of their k-mers in first/middle/last buckets, 1 and 3 passes (thorough: 1,2,3,7, both
strandedness values) — each observation is summarised exactly once, with the other observations of its k-mer, in input
order (stable sort keyed on the k-mer, grouping keyed on the k-mer), with its own sequence's label; key and extension
canonicalisation table (flip ⇒ extensions reverse-complemented; bucket computed from the stored key); emission table
(all_kmers ⇔ report flag; key/extensions/summary in lockstep ⇔ accepted); bucket() is the first four bases for every
k-mer type (monotone in the k-mer order, < 256); the two summarizers (accept ⇔ count >= untruncated threshold, union of
extensions, data); the flanking-extension iterator table.
Added later: exact threshold witnesses for the set summarizer, k-mer reads on byte containers, override table of the k-mer iterators."""
from .. import lemmas, dt_filter, dt_seq
from . import common

ASSUMPTIONS = ["the reference grouping itself (equality of the returned table with it) needs the data and is not decided",
               "itertools::group_by groups consecutive equal keys; slice::sort_by_key is stable (library contracts, modelled)"]


def run(F, rep):
    rep.engines.update(["E2-DT", "E2-BV", "E1"])
    rep.run(dt_filter.filter_tables, F, rep, "C05")
    rep.run(dt_filter.summarizer_tables, F, rep, "C05.6")
    # bucket(): first four bases; and the canonical-form tables (filter_kmers files every observation under min_rc_flip of its k-mer when
    # unstranded — the filter table above takes that operation as given, these tables decide it for every k-mer type, odd K included)
    rep.run(common.run_kmer_lemmas, F, rep, {"bucket", "canon"})
    rep.run(dt_seq.kmer_iter_tables, F, rep, "C05.8")
    rep.run(lemmas.kmer_iter_e2e_lemmas, F, rep, "L-iter")
    # reads may be handed over as views (forward or reverse-complemented, at any offset of a packed store): the k-mers the filter\n    # sees are read through Vmer::get_kmer on them
    rep.run(common.run_store_kmer_lemmas, F, rep, "C05.9")
    # provided methods of the k-mer iterators that the crate overrides (fold, count, last, nth …) must agree with next()
    rep.run(dt_seq.kmer_iter_override_table, F, rep, "C05.8")
