"""C11 — k-mer equality, order and hash are those of the string.
Decided statically (level: proof), three links: (1) for every k-mer type, eq/ne/lt/le/gt/ge/cmp/partial_cmp are shown by
abstract interpretation to compare exactly the two storage integers as unsigned numbers (decision table over the
ordering of the two abstract storages, operands captured and compared bit for bit with the inputs), and Hash/Eq come from
#[derive] over (storage, zero-sized marker); (2) the layout is injective and order-preserving — lemma L-get puts base 0
in the most significant used lane for every type; (3) the padding invariant (bits >= 2K are zero) is inductive: every
function that can write `storage` is enumerated from MIR (WHO-WRITES) and each has a lemma whose post-state has zero
padding (L-empty, L-rank, L-ext, L-set, L-slice, L-rc) for every instance. Hence two histories spelling the same
string yield the same storage, and comparisons/hash of storages are those of the strings.
Added later: immutable writes, k-mers read out of sequence containers, the ASCII byte tables."""
from .. import lemmas, structural, dt_strings
from . import common

THOROUGH_FACTS = True
ASSUMPTIONS = ["base arguments < 4, rank arguments < 4^K", "external code does not write the `pub storage` field directly and "
               "deserialised integers were produced by Serialize (neither is a value-producing operation of the property)",
               "#[derive(Hash)] hashes the fields in declaration order (rustc's derive contract)"]


def run(F, rep):
    rep.engines.update(["E2-BV", "E2-DT", "E1"])
    rep.run(common.kmer_floor, F, rep)
    for ty in common.kmer_type_names(F):
        rep.run(lemmas.eq_ord_lemmas, F, rep, ty)
    # "hash equal exactly when they spell the same string": what each k-mer type feeds to a hasher determines the k-mer (derived or by hand)
    rep.run(lemmas.kmer_hash_lemmas, F, rep, "L-hash")
    # the comparison / hash impls are derived over `storage` — or written by hand, in which case the interpreted lemmas above (which run the
    # impls of every k-mer type, whatever their origin) are what decides them
    lemma_ok = not [o for o in rep.obls if o.get("status") != "HOLDS"]
    for adt in structural.KMER_ADTS:
        d = structural.derives(F, adt)
        traits = ["std::cmp::PartialEq", "std::cmp::Eq", "std::cmp::PartialOrd", "std::cmp::Ord", "std::hash::Hash"]
        by_hand = [t for t in traits if t in d and not d[t]]
        structural.check_derives(F, rep, "C11.derive", adt, [t for t in traits if t not in by_hand or not lemma_ok])
        for t in by_hand:
            if lemma_ok:
                rep.holds("C11.derive", "%s/%s" % (adt, t.split("::")[-1]), "%s is written by hand; the interpreted comparison / hash lemmas decide it for every k-mer type" % t.split("::")[-1])
        fns = structural.field_names(F, adt)
        if [t for t in by_hand if t.endswith(("Ord", "Hash"))]:
            pass        # the declaration order of the fields only matters to derived impls
        elif not fns or fns[0] != "storage":
            rep.violated("C11.derive", adt + "/field-order", "%s: first field is %r, the derived order/hash must see `storage` first" % (adt, fns))
        else:
            rep.holds("C11.derive", adt + "/field-order", "storage is the first (and only non-zero-sized) field")
    # layout + padding preservation by every writer
    rep.run(lemmas.ladder_lemmas, F, rep)
    rep.run(common.run_kmer_lemmas, F, rep, {"empty", "get", "set", "slice", "rc", "ext", "rank", "canon", "bucket"})      # "bucket": the grouping key of filter_kmers is monotone in the k-mer order
    # construction routes must agree (the same string gives the same k-mer whichever constructor built it)
    for ty in common.kmer_type_names(F):
        rep.run(lemmas.kmer_default_lemmas, F, rep, ty, which={"from_bytes", "from_ascii"}, rule="L-default")
    rep.run(structural.kmer_storage_writers, F, rep)
    # ... "no matter which sequence of operations produced them": k-mers read out of sequence containers (positional reads, terminal
    # accessors) and decoded from ASCII text (the byte table behind from_ascii) are construction routes too
    rep.run(common.run_store_kmer_lemmas, F, rep, "C11.7")
    rep.run(dt_strings.byte_tables, F, rep, "C11.8")
