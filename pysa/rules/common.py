"""shared helpers for the property rule modules"""
from .. import lemmas

KMER_FLOOR = 19   # shipped k-mer types on the pinned tree (18 aliases + K31); the driver also adds K4-on-u8


def kmer_type_names(F):
    return [k["ty"] for k in F.kmer_types]


def kmer_floor(F, rep):
    rep.floor("k-mer types (aliases in `kmer` + unaliased size markers)", KMER_FLOOR, len(F.kmer_types))


def run_kmer_lemmas(F, rep, which):
    for ty in kmer_type_names(F):
        rep.run(lemmas.kmer_lemmas, F, rep, ty, which=which)
