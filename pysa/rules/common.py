"""shared helpers for the property rule modules"""
from .. import lemmas

KMER_FLOOR = 19   # shipped k-mer types on the pinned tree (18 aliases + K31); the driver also adds K4-on-u8


def kmer_type_names(F):
    return [k["ty"] for k in F.kmer_types]


def kmer_floor(F, rep):
    rep.floor("k-mer types (aliases in `kmer` + unaliased size markers)", KMER_FLOOR, len(F.kmer_types))


def run_kmer_lemmas(F, rep, which):
    for ty in kmer_type_names(F):
        rep.run(lemmas.kmer_lemmas, F, rep, ty, which=which)


def run_store_kmer_lemmas(F, rep, rule):
    """the k-mer reads every graph / filter / scanner operation relies on: `get_kmer` on the packed store (DnaString block walk: every
    offset for the k-mer types wider than one storage word) and on views of it (forward and reverse-complemented, offsets that straddle
    two and three words), incl. the terminal accessors.  Run under every property whose statement is observed through those reads."""
    from .. import dt_seq
    rep.run(lemmas.dnastring_lemmas, F, rep, which={"get_kmer"},
            kmer_positions=(lambda K: range(0, 70)) if rep.tier == "thorough" else (lambda K: range(0, 70) if K > 32 else (0, 1, 17, 31, 32, 33, 63)))
    rep.run(lemmas.slice_getkmer_lemmas, F, rep, rule, quick=(rep.tier != "thorough"))
    rep.run(dt_seq.slice_view_tables, F, rep, rule)
    # ... and on the byte containers (reads handed over as plain base bytes): `get_kmer` there is the trait's `from_bytes`
    rep.run(lemmas.byte_container_lemmas, F, rep, "L-bytes")
