"""C14 — the growable DNA string is a faithful sequence container.
Decided statically: the representation invariant (ceil(len/32) words, padding bits zero, base i in word i/32 lane
31-i%32) is established by every constructor and preserved by every writer — bit-vector lemmas for new / with_capacity /
blank(n) / clear / push at every length 0..66 / extend from lengths {0,1,31,32,33} by 0..70 bases / from_bytes /
set_mut / get at every position / rc and reverse / to_bytes / to_ascii_vec / Display / Debug (letter i = table(base i), the
tables themselves being C16.1) / push_bytes (packed 2-bit runs) / ndiffs, with the string abstract and only lengths and
positions partitioned; the writers of (storage, len) are enumerated from MIR and each is covered; the fields are private;
Eq/Ord/Hash are derived with storage before len (lexicographic with a proper prefix first, given the invariant);
PackedDnaStringSet::get returns the stored (start, length) forward view and add keeps its arrays in lockstep.
Added later: hashed-N table, exact to_owned lemma, white-space row of from_dna_string."""
from .. import lemmas, dt_seq, structural, dt_strings

ASSUMPTIONS = ["pushed / extended values are bases (< 4) where the code asserts it; lengths do not overflow usize"]
DS = "dna_string::DnaString"


def run(F, rep):
    rep.engines.update(["E2-BV", "E2-DT", "E1"])
    rep.run(lemmas.dnastring_lemmas, F, rep, which={"new", "get", "push", "extend", "rc", "render", "ndiffs"})
    rep.run(lemmas.dnastring_render_lemmas, F, rep, "C14.3")
    rep.run(lemmas.dnastring_order_lemmas, F, rep, "C14.4")
    # comparison traits: derived over (storage, len) — or written by hand, in which case the order table above (which interprets ==, cmp and
    # partial_cmp whatever their origin) is what decides them
    order_ok = not [o for o in rep.obls if o.get("rule") == "C14.4" and o.get("status") != "HOLDS"]
    d = structural.derives(F, DS)
    cmp_traits = ["std::cmp::PartialEq", "std::cmp::Eq", "std::hash::Hash", "std::cmp::PartialOrd", "std::cmp::Ord"]
    by_hand = [tr for tr in cmp_traits if tr in d and not d[tr]]
    rep.run(structural.check_derives, F, rep, "C14.4", DS, [tr for tr in cmp_traits if tr not in by_hand or tr.endswith("Hash") or not order_ok])
    for tr in by_hand:
        if not tr.endswith("Hash") and order_ok:
            rep.holds("C14.4", "%s/%s" % (DS, tr.split("::")[-1]), "%s is written by hand; the interpreted order / equality table decides it" % tr.split("::")[-1])
    fns = structural.field_names(F, DS)
    if "std::cmp::Ord" in by_hand or "std::cmp::PartialOrd" in by_hand:
        pass        # the declaration order of the fields only matters to a derived comparison
    elif fns == ["storage", "len"]:
        rep.holds("C14.4", "field-order", "derived comparison sees (storage, len): lexicographic order of the bases with a proper prefix first")
    elif not ({"storage", "len"} <= set(fns)):
        # other private field names: which field holds the words and which the length is not known to this rule; the interpreted order
        # table decides the comparison on values (and is itself undecided if it cannot build them)
        ftys = [f.get("ty", "") for f in (F.adts.get(DS) or {"variants": [{"fields": []}]})["variants"][0]["fields"]]
        if len(ftys) == 2 and "Vec<u64>" in ftys[0] and ftys[1] == "usize":
            rep.holds("C14.4", "field-order", "derived comparison sees (%s: the words, %s: the length) in that order" % (fns[0], fns[1]))
        elif len(ftys) == 2 and ftys[0] == "usize" and "Vec<u64>" in ftys[1]:
            rep.violated("C14.4", "field-order", "DnaString declares its length (%s) before its words (%s): the derived order is short-lex, not lexicographic" % (fns[0], fns[1]),
                         witness={"kind": "field-order", "fields": fns})
        else:
            rep.inconclusive("C14.4", "field-order", "the private fields of DnaString are %s: no field-order rule for this representation" % fns)
    else:
        rep.violated("C14.4", "field-order", "DnaString fields are declared as %s; with `len` first the derived order is short-lex, not lexicographic" % fns,
                     witness={"kind": "field-order", "got": fns})
    vis = structural.field_vis(F, DS) or {}
    if vis and all(v != "pub" for v in vis.values()):
        rep.holds("C14.1", "fields-private", "storage and len cannot be written from outside the crate")
    else:
        rep.violated("C14.1", "fields-private", "a representation field of DnaString is public: %s" % vis)
    rep.run(structural.dnastring_writers, F, rep, "C14.1")
    rep.run(dt_seq.dnastring_view_ctors, F, rep, "C14.5")
    rep.run(dt_strings.packed_set_add, F, rep, "C14.5")
    rep.run(dt_strings.from_acgt_bytes_lemma, F, rep, "C14.2")
    # "from bytes/ASCII/str": the lemma above takes the two vector kernels as given (what they do to each lane); these tables decide them —
    # every byte value in every lane converts as the scalar table does, and packing keeps the lane order
    rep.run(dt_strings.avx_kernels, F, rep, "C14.2", thorough=False)
    rep.run(dt_strings.byte_tables, F, rep, "C14.2")
    rep.run(dt_strings.from_str_lemmas, F, rep, "C14.2")
    # the ASCII constructor that substitutes non-ACGT letters: A/C/G/T in either case are the plain vector's bases
    rep.run(dt_strings.hashn_table, F, rep, "C14.2")
    # base iteration by reference (`for b in &x`): exact, whatever iterator type implements it
    rep.run(lemmas.container_iter_lemmas, F, rep, "C14.6", conts=("string",), quick=(rep.tier != "thorough"))
    # "never on how the value was built": an owned string made from a view (to_owned) must be the canonical representation of its bases —
    # equality, order and hash compare the word vector
    rep.run(lemmas.slice_exact_lemmas, F, rep, "C14.7", quick=True, only={"to_owned"})
