"""C18 — node k-mer iteration obeys the iterator contract.
Decided statically with affine counters (kmer_id = c, num_kmers = N, skip = n, node length = N+K-1) and the struct
invariant c <= N as precondition: next() returns None exactly at c = N and otherwise yields, rolls with the base at
c+K and advances by one; nth(n) returns None exactly when c + n >= N; after either call the counter is still <= N (so
the end test stays reachable and no endless stream is possible) and every base / k-mer read lies inside the node (no
k-mer of a neighbouring node, no out-of-range panic) — a violation is reported with a concrete small (c, N, n, K)
found by a decision procedure over the recorded linear constraints; into_iter sets (0, len-K+1, first k-mer),
size_hint reports num_kmers, and the node iterators visit node i for i = 0..len exactly once each; the k-mer reads it relies
on (DnaStringSlice::get_kmer remap, DnaString::get_kmer block walk for every k-mer type) return the K bases at the position.
Added later: override table of the node iterators (differential against next())."""
from .. import dt_seq, dt_strings, structural, lemmas
from . import common

ASSUMPTIONS = ["nodes have at least K bases (num_kmers = len - K + 1 does not underflow)", "debug_assert! does not count as a guard (analysed with debug-assertions off)"]


def run(F, rep):
    rep.engines.update(["E2-DT", "affine", "E1"])
    rep.run(dt_seq.node_kmer_iter_tables, F, rep, "C18.1")
    # the same contract end to end, whatever the iterator's fields are: scripted interleavings on monomorphic instances
    rep.run(lemmas.node_kmer_iter_e2e, F, rep, "C18.7", quick=(rep.tier != "thorough"))
    # consuming methods the iterator overrides itself (fold, for_each, count, last), if any
    rep.run(dt_seq.node_iter_consumer_table, F, rep, "C18.8")
    # every step rolls the k-mer with Kmer::extend_right: its lemma for EVERY k-mer type a graph can be built over (the end-to-end lemma above
    # instantiates the iterator for three of them)
    rep.run(common.run_kmer_lemmas, F, rep, {"ext"})
    # the k-mer reads the iterator relies on (first k-mer in into_iter, re-synchronisation after a long skip in nth): the view remap of
    # DnaStringSlice::get_kmer and the block walk of DnaString::get_kmer (every offset for the k-mer types wider than one word)
    rep.run(dt_seq.slice_view_tables, F, rep, "C18.6")
    lemmas.dnastring_lemmas(F, rep, which={"get_kmer"},
                            kmer_positions=(lambda K: range(0, 70)) if rep.tier == "thorough" else (lambda K: range(0, 70) if K > 32 else (0, 1, 17, 31, 32, 33, 63)))
    vis = structural.field_vis(F, "graph::NodeKmerIter") or {}
    if vis and all(v != "pub" for v in vis.values()):
        rep.holds("C18.5", "fields-private", "the iterator's counters cannot be desynchronised from outside the crate")
    else:
        rep.violated("C18.5", "fields-private", "a field of NodeKmerIter is public: %s" % vis)
    # provided methods of the node iterators that the crate overrides must agree with next()
    rep.run(dt_seq.node_iter_override_table, F, rep, "C18.9")
    # "exactly the node's n-K+1 k-mers ... never a k-mer belonging to a neighbouring node": n is the length the packed store recorded when
    # the node was added — for every legal base iterator, including one whose size hint is not exact (wave 10, C18-m18)
    rep.run(dt_strings.packed_set_add, F, rep, "C18.10")
