"""C04 — sharded assembly equals unsharded assembly.
The equality of two pipelines over all read sets is a relational runtime fact and is NOT decided. Decided statically are
the mechanisms it rests on (each a necessary condition): BaseGraph::combine is a faithful concatenation (sequences,
extensions, payloads in the same node order; common strandedness; mixed inputs refused); shard-boundary extensions are
retained (every Terminal row of the k-mer step table — including `neighbour absent from this shard` — carries the
untouched extensions, and filter_kmers reaches no pruning function); the re-compression driver prunes, builds, finishes
and prunes again in that order for every censoring scenario, with the complete graph-route step table; pieces and their
boundary extensions agree ((start, len) on the same read; flank tables); the shard score is a permutation look-up,
strand-symmetric in reverse-complement mode; the shard id is the rank of the canonical minimizer.
Added later: scanner tables, index-builder tables, both chain tables, filter_kmers tables, DnaString::blank."""
from .. import dt_filter, dt_graph, dt_tables, dt_compress, dt_msp, lemmas
from . import common

ASSUMPTIONS = ["weakest claim of the set: only the listed mechanisms are decided, not the equality of the two resulting graphs"]


def run(F, rep):
    rep.engines.update(["E2-DT", "E1"])
    rep.run(dt_graph.combine_table, F, rep, "C04.1")
    rep.run(dt_tables.hash_step_table, F, rep, "C04.2")
    rep.run(dt_compress.kmer_chain_table, F, rep, "C04.2")
    rep.run(dt_graph.no_pruning_in_filter, F, rep, "C04.2")
    rep.run(dt_compress.graph_driver_table, F, rep, "C04.3")
    rep.run(dt_tables.graph_step_table, F, rep, "C04.3")
    rep.run(dt_compress.extender_table, F, rep, "C04.3", graph_route=True)
    rep.run(dt_compress.graph_builder_table, F, rep, "C04.3")
    # ... and the three private functions of the graph route interpreted together on scripted lines of nodes
    rep.run(dt_compress.graph_chain_table, F, rep, "C04.3")
    rep.run(dt_msp.piece_closure_table, F, rep, "C04.4")
    rep.run(dt_msp.slice_bounds_tables, F, rep, "C04.4")
    rep.run(dt_msp.score_closure_tables, F, rep, "C04.4")
    # the pieces are cut at the scanner's intervals: coverage of every k-mer exactly once and the 2k-p length bound (fixed-size piece
    # containers are dimensioned by it) are the scanner's
    rep.run(dt_msp.scan_tables, F, rep, "C04.4")
    # per-shard pruning keeps links that leave the shard and links to valid k-mers (incl. a k-mer's link to itself); re-compression resolves
    # links through find_link / get_valid_exts under the graph's strandedness
    rep.run(dt_graph.censor_tables, F, rep, "C04.5")
    rep.run(dt_graph.find_link_table, F, rep, "C04.6")
    rep.run(dt_graph.finish_tables, F, rep, "C04.6")
    rep.run(dt_graph.get_valid_exts_table, F, rep, "C04.6")
    rep.run(dt_graph.fix_exts_table, F, rep, "C04.6")
    # recombination looks nodes up by their terminal k-mers (views of the packed store) and reads shard pieces back as k-mers
    rep.run(common.run_store_kmer_lemmas, F, rep, "C04.6")
    # shard pieces are packed into fixed-size strings when the caller asks for them: Lmer::from_slice must keep every base and the length
    rep.run(lemmas.lmer_lemmas, F, rep, which={"from_slice"})
    # ... and the growable string as piece container: `from_slice` starts from `blank(n)`, whose word vector must be the canonical one
    rep.run(lemmas.dnastring_lemmas, F, rep, which={"new"})
    # the statement quantifies over read sets and count thresholds: the k-mer table the graph is built from is filter_kmers' (pass tiling,
    # grouping, canonicalisation, emission)
    rep.run(dt_filter.filter_tables, F, rep, "C04.2")
