"""C01 — the compressed graph is a lossless partition of the input k-mer set.
Decided statically (necessary structural clauses, not the partition itself): the availability typestate of the growth
loop (every placed k-mer is removed before the next step is consulted; only available ids seed a node), one base and one
payload fold per placed k-mer with the orientation table of Appendix B.5, the terminal-extension complement table, the
driver loop (every id visited, build only when available, each built node added exactly once), entry points funnel into
the same driver with the caller's strandedness, node storage keeps sequence / extensions / payload in lockstep; and
the step function itself (complete decision table, as in C02.1): the neighbour it hands to the walk is the k-mer the
recorded extension denotes, looked up under the caller's strandedness, and only when it is present and available.
Added later: the k-mer route's step, growth and builder functions interpreted together on scripted lines, rings and hairpins (decides the availability typestate whoever does the claiming); long-walk rows at mined size constants; filter_kmers tables; PackedDnaStringSet::add / DnaString::extend lemmas."""
from .. import lemmas, dt_strings, dt_filter, dt_compress, dt_tables
from . import common

ASSUMPTIONS = ["extensions are symmetric (presupposed by the property)"]


def run(F, rep):
    rep.engines.update(["E2-DT", "E1"])
    rep.run(dt_tables.hash_step_table, F, rep, "C01.3")
    rep.run(dt_compress.extender_table, F, rep, "C01.1", graph_route=False)
    rep.run(dt_compress.hash_builder_table, F, rep, "C01.2")
    # ... and the three private functions of the k-mer route interpreted together on scripted lines of k-mers
    rep.run(dt_compress.kmer_chain_table, F, rep, "C01.2")
    rep.run(dt_compress.hash_driver_table, F, rep, "C01.4")
    rep.run(dt_compress.entry_points_table, F, rep, "C01.4")
    rep.run(dt_compress.node_storage_rules, F, rep, "C01.5")
    # "its single strand representative when unstranded": the step function moves to min_rc_flip of the neighbour; the canonical-form
    # tables decide that operation for every k-mer type (odd K, self-complementary arms) — a wrong representative is a k-mer that is
    # not in the table
    rep.run(common.run_kmer_lemmas, F, rep, {"canon"})
    # node k-mers are observed through Vmer::get_kmer / iter_kmers on views of the packed store (any k-mer type, any offset)
    rep.run(common.run_store_kmer_lemmas, F, rep, "C01.6")
    # the statement quantifies over read sets and count thresholds: the k-mer table the graph is built from is filter_kmers' (pass tiling,
    # grouping, canonicalisation, emission)
    rep.run(dt_filter.filter_tables, F, rep, "C01.6")
    # every node sequence is stored through PackedDnaStringSet::add (and whatever DnaString operation it appends with)
    rep.run(dt_strings.packed_set_add, F, rep, "C01.7")
    rep.run(lemmas.dnastring_lemmas, F, rep, which={"push", "extend"})
