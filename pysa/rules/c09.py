"""C09 — graph re-compression and node censoring are exact.
Decided statically: availability typestate of the graph-route growth loop, censoring (every censored id removed before
any pruning or building), the complete decision table of the graph-route step function (Appendix B.2), the orientation
table of the graph-route node builder (arrival sides, flipped pushes, complemented terminal extensions), payload fold in
lockstep, the order prune(available) -> build -> finish -> prune(all) -> return; and the pruning itself: find_link's table
(which index, which strand, under which strandedness), get_valid_exts / fix_exts keep an extension exactly when it resolves to
an available node, sequence_of_path spells merged nodes with a K-1 overlap.
Added later: graph chain table, index-builder tables, is_compressed soundness, the k-mer route's entry points, packed-set add lemmas."""
from .. import lemmas, dt_strings, dt_compress, dt_tables, dt_graph
from . import common

ASSUMPTIONS = ["the input graph is valid (extensions symmetric); rows marked ⊥ are outside that precondition"]


def run(F, rep):
    rep.engines.update(["E2-DT", "E1"])
    rep.run(dt_compress.extender_table, F, rep, "C09.1", graph_route=True)
    rep.run(dt_tables.graph_step_table, F, rep, "C09.2")
    rep.run(dt_compress.graph_builder_table, F, rep, "C09.3")
    # ... and the three private functions of the graph route interpreted together on scripted lines of nodes
    rep.run(dt_compress.graph_chain_table, F, rep, "C09.3")
    rep.run(dt_compress.graph_driver_table, F, rep, "C09.5")
    # "no extension left pointing at a removed or absent node": the pruning the driver relies on, and the link resolution under it
    rep.run(dt_graph.find_link_table, F, rep, "C09.6")
    rep.run(dt_graph.is_compressed_sound_table, F, rep, "C09.6")
    rep.run(dt_graph.finish_tables, F, rep, "C09.6")
    rep.run(dt_graph.get_valid_exts_table, F, rep, "C09.6")
    rep.run(dt_graph.fix_exts_table, F, rep, "C09.6")
    rep.run(dt_graph.sequence_of_path_table, F, rep, "C09.6")
    # re-compression identifies nodes by their terminal k-mers: Vmer::get_kmer on views of the packed store
    rep.run(common.run_store_kmer_lemmas, F, rep, "C09.7")
    # "compressing the one-k-mer-per-node graph gives the same partition as compressing the k-mer table directly": the entry points of the
    # k-mer route, including the one that finds the extensions itself
    rep.run(dt_compress.entry_points_table, F, rep, "C09.8")
    # ... and the k-mer route itself: its step function and the step + growth + builder chain (a table route that joins across a
    # palindrome or a branch gives a partition the graph route does not give — wave 10, C09-m18)
    rep.run(dt_tables.hash_step_table, F, rep, "C09.8")
    rep.run(dt_compress.kmer_chain_table, F, rep, "C09.8")
    # every node sequence is stored through PackedDnaStringSet::add (and whatever DnaString operation it appends with)
    rep.run(dt_strings.packed_set_add, F, rep, "C09.9")
    rep.run(lemmas.dnastring_lemmas, F, rep, which={"push", "extend"})
