"""C12 — reverse complement is coherent across all sequence types.
Decided statically: L-rc for every k-mer type (base j <- complement of base K-1-j; involution and the positional law
follow from the lane map), the canonical-form decision tables (min_rc, min_rc_flip, is_palindrome over ord(self, rc)),
Lmer::rc for every capacity and length, the 8-bit lemmas for Exts::complement/reverse/rc and the 2-bit complement,
DnaString::rc's element map, the DnaStringSlice remap tables (get / get_kmer / slice / rc under the is_rc flag), and the exact
conversion lemmas of views on a symbolic backing string (to_owned / bytes / renderings / == of reverse-complemented views).
Added later: store k-mer lemmas (both sides of the commutation with k-mer extraction)."""
from .. import lemmas, structural, dt, dt_seq
from . import common

THOROUGH_FACTS = True
ASSUMPTIONS = ["padding bits of k-mer inputs are zero (C11 shows every writer preserves that)"]


def run(F, rep):
    rep.engines.update(["E2-BV", "E2-DT", "E1"])
    rep.run(common.kmer_floor, F, rep)
    rep.run(lemmas.ladder_lemmas, F, rep)
    rep.run(common.run_kmer_lemmas, F, rep, {"rc", "canon"})
    rep.run(lemmas.exts_lemmas, F, rep)
    rep.run(lemmas.lmer_lemmas, F, rep, which={"rc"})
    rep.run(dt_seq.slice_view_tables, F, rep, "C12.4")
    rep.run(lemmas.dnastring_lemmas, F, rep, which={"rc"})
    # "commutes with k-mer extraction": both sides of the equation read k-mers out of the packed store / its views, for every k-mer type
    rep.run(common.run_store_kmer_lemmas, F, rep, "C12.7")
    # conversions of reverse-complemented views: slice.rc().to_owned() / bytes / renderings equal the substring's reverse complement
    rep.run(lemmas.slice_exact_lemmas, F, rep, "C12.6", quick=True)
