"""C03 — extensions and edges denote exactly the real adjacencies, symmetrically.
Decided statically (necessary clauses): the decision table of find_link (which end index is consulted with which strand
of the k-mer, what triple is returned), index identity (left index keyed by first k-mers, right by last k-mers, values =
node ids), find_edges (one edge per extension base whose probe resolves; probes built from the right end in the right
direction), the pruning tables of get_valid_exts / remove_censored_exts / remove_censored_exts_sharded (an extension is
removed exactly when its target is absent or censored; neighbour canonicalised exactly when unstranded), fix_exts
lockstep, the best-path walk never repeats a node, sequence_of_path spells nodes with a K-1 overlap in the given
orientation; and for graphs produced by compression: the node builders' terminal-extension tables (taken from the last
path k-mer / node, complemented when traversed flipped) and the complete step tables of both routes (a node that absorbs a
palindrome or a branch has an edge with no way back).
Added later: the graph driver's censor handling, both chain tables, the flank tables of read pieces."""
from .. import dt_msp, dt_graph, dt_compress, dt_tables, dt_filter
from . import common

ASSUMPTIONS = ["that the set of resolvable edges equals the input's (K+1)-mers is a data-dependent fact not decided here"]


def run(F, rep):
    rep.engines.update(["E2-DT", "E1"])
    rep.run(dt_graph.find_link_table, F, rep, "C03.1")
    rep.run(dt_graph.finish_tables, F, rep, "C03.2")
    rep.run(dt_graph.find_edges_table, F, rep, "C03.3")
    rep.run(dt_graph.get_valid_exts_table, F, rep, "C03.4")
    rep.run(dt_graph.fix_exts_table, F, rep, "C03.4")
    rep.run(dt_graph.censor_tables, F, rep, "C03.5")
    # "... or censored": the driver of the graph route is where the caller's censor list becomes the set the pruning runs against
    rep.run(dt_compress.graph_driver_table, F, rep, "C03.5")
    rep.run(dt_graph.max_path_table, F, rep, "C03.7")
    rep.run(dt_graph.beam_expand_table, F, rep, "C03.7")
    rep.run(dt_graph.sequence_of_path_table, F, rep, "C03.8")
    # edge symmetry of graphs produced by (re)compression: terminal extensions of built nodes and the step rule of both routes
    rep.run(dt_compress.hash_builder_table, F, rep, "C03.6")
    # ... and the three private functions of the k-mer route interpreted together on scripted lines of k-mers
    rep.run(dt_compress.kmer_chain_table, F, rep, "C03.6")
    rep.run(dt_compress.graph_builder_table, F, rep, "C03.6")
    rep.run(dt_compress.graph_chain_table, F, rep, "C03.6")
    rep.run(dt_tables.hash_step_table, F, rep, "C03.6")
    rep.run(dt_tables.graph_step_table, F, rep, "C03.6")
    # the edge set equals the observed (K+1)-mers only if every observation's flanking bases reach the table: both summarizers
    rep.run(dt_filter.summarizer_tables, F, rep, "C03.9")
    # graphs built from k-mers WITHOUT extensions: the extension bits are computed on the fly — a bit exactly when the neighbour is a key,
    # whatever order the caller lists the keys in
    rep.run(dt_compress.entry_points_table, F, rep, "C03.11")
    # the sharded pruning variant binary-searches the list of all observed k-mers that filter_kmers returns; that list is the concatenation
    # of the per-bucket sorted lists in bucket order, which is sorted only because bucket() is monotone in the k-mer order (first 4 bases)
    rep.run(common.run_kmer_lemmas, F, rep, {"bucket"})
    # find_link / find_edges / the index builders see a node through its terminal k-mers: Vmer::get_kmer on views of the packed store
    rep.run(common.run_store_kmer_lemmas, F, rep, "C03.10")
    # "the set of resolvable edges equals the set of (K+1)-mers observed in the input": the boundary extensions of read pieces
    rep.run(dt_msp.slice_bounds_tables, F, rep, "C03.12")
