"""C19 — index construction is schedule-independent and look-ups are exact.
Decided statically: finish and finish_serial hand identical keys (first / last k-mer of node i, in index order) and values
(i) to the index constructor and build the same aggregate — they differ only in the constructor called; the two end
indices are private, of the key-verifying map type, and the only operation ever applied to them in the crate is the
key-verified `get` (so answers cannot depend on the MPHF's slot layout, whatever schedule built it); find_link's
decision table (a k-mer is found exactly when it is a key of the consulted end index, with the specified side/flip) and find_edges'
table, both over an index layer whose ground truth is "this probe is / is not the end k-mer of a node": key-verified look-ups answer from
it, keyless hashes may alias an absent probe to an arbitrary node (so every unconfirmed use shows as a phantom link); the crate's own
threads, if any, are explored as explicit schedules (each spawned closure atomic, every order of the pending ones).
Added later: the finished graph must be the graph handed in (strandedness, vectors, packed sequences)."""
from .. import dt_graph, structural, lemmas
from . import common

ASSUMPTIONS = ["boomphf's parallel builder returns a valid MPHF under every schedule (dependency code; its validity is the assumption "
               "under which slot-layout independence gives schedule independence)"]


def run(F, rep):
    rep.engines.update(["E2-DT", "E1"])
    rep.run(dt_graph.finish_tables, F, rep, "C19.1")
    rep.run(dt_graph.index_usage_rules, F, rep, "C19.2")
    rep.run(structural.own_concurrency, F, rep, "C19.3")
    rep.run(dt_graph.find_link_table, F, rep, "C19.4")
    rep.run(dt_graph.find_edges_table, F, rep, "C19.4")
    # the index keys are the terminal k-mers of the nodes: Vmer::get_kmer on views of the packed store
    rep.run(common.run_store_kmer_lemmas, F, rep, "C19.5")
    # "perfect-hash lookup": the index is a minimal perfect hash over the terminal k-mers — it can only be built, and only answers exactly, if
    # different k-mers feed the hasher different data
    rep.run(lemmas.kmer_hash_lemmas, F, rep, "C19.6")
