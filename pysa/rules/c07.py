"""C07 — the minimizer partition covers every k-mer exactly once with a true minimizer.
Decided statically: the (score, position) order tables of MinPos::cmp / partial_cmp (score first, ties to the larger
position, Equal only on the diagonal, and the comparison depends on all 64 bits of both scores); Scanner::scan
interpreted abstractly on small windows (len, k, p) with the p-mer scores as unknowns — every ordering of the scores
including ties is explored and the resulting intervals are checked against the clauses of the statement (start order,
exact k-1 overlap, lengths in [k, 2k-p], minimizer = the p-mer at the reported position, inside every k-mer of the
interval, minimal there, and no interval ends early); every narrowing `as` cast in scan is dominated by an assertion
bounding it; scores are never truncated before comparison.
Added later: long-sequence rows one block past every size constant the scanner mentions; k-mer reads on byte containers."""
from .. import dt_msp, structural, lemmas
from . import common

ASSUMPTIONS = ["window sizes are bounded (len <= 6 quick, <= 8 thorough); the loop body is uniform in the position, the general case rests on that uniformity",
               "score functions are arbitrary (all orderings and ties of the window's p-mer scores are explored)"]


def run(F, rep):
    rep.engines.update(["E2-DT", "affine", "E1"])
    rep.run(dt_msp.minpos_order_tables, F, rep, "C07.1")
    rep.run(dt_msp.scan_tables, F, rep, "C07.2")
    rep.run(dt_msp.cast_guards, F, rep, "C07.6")
    # the wrappers (simple_scan, msp_sequence) hand the documented score to the scanner: perm[rank(p)], min over both strands in rc mode
    rep.run(dt_msp.score_closure_tables, F, rep, "C07.7")
    # the scanner takes its first p-mer of every window with get_kmer on the read, which may be a (reverse-complemented) view
    rep.run(common.run_store_kmer_lemmas, F, rep, "C07.6")
    # the partition of a read must not depend on earlier calls: thread-local caches must be keyed by everything their content depends on
    rep.run(structural.cache_key_rule, F, rep, "C07.7", ["msp::msp_sequence", "msp::simple_scan"] + [k for k in F.fns if k.startswith("msp::Scanner") and k.endswith("::scan")])
