"""C13 — k-mer extraction agrees across all containers.
Decided statically: block-walk lemmas of DnaString::get_kmer and Lmer::get_kmer for every k-mer type and every
start position over several storage words (result base j = base pos+j of the container, padding zero); the k-mer
iterator tables with affine positions (KmerIter / KmerExtsIter: yield while pos <= len, roll by extend_right(bases[pos]),
start at pos = K with the k-mer at 0 — hence exactly max(0, n-K+1) items in order; flanking extensions with the caller's
boundary extensions only at the two ends); first/last/terminal accessors; byte containers (from_bytes of bytes[pos..pos+K]);
the slice remap tables; the bulk constructors' lockstep rules, and exactly on every k-mer type: from_bytes / from_ascii build the
K bases given, kmers_from_bytes / kmers_from_ascii of n = K-1, K, K+2 bases yield max(0, n-K+1) items, item i = bases i..i+K.
Added later: Lmer new/len for every capacity, override table of the k-mer iterators, end-to-end iterator lemmas over views, accessors at lengths K+1..K+5."""
from .. import lemmas, dt_seq, dt_strings, structural
from . import common

THOROUGH_FACTS = True
ASSUMPTIONS = ["index arithmetic does not overflow usize", "containers satisfy their representation invariant (C14/C17 show every writer preserves it)"]


def run(F, rep):
    rep.engines.update(["E2-BV", "E2-DT", "E1"])
    rep.run(common.kmer_floor, F, rep)
    rep.run(lemmas.dnastring_lemmas, F, rep, which={"get_kmer", "get"})
    rep.run(lemmas.lmer_lemmas, F, rep, which={"get_kmer", "get", "new"})      # "new": the length every accessor and iterator relies on, for every capacity
    rep.run(common.run_kmer_lemmas, F, rep, {"slice", "ext", "get"})
    rep.run(dt_seq.kmer_iter_tables, F, rep, "C13.2")
    rep.run(dt_seq.accessor_tables, F, rep, "C13.4")
    rep.run(dt_seq.slice_view_tables, F, rep, "C13.6")
    rep.run(dt_seq.kmer_default_tables, F, rep, "C13.5")
    rep.run(lemmas.byte_container_lemmas, F, rep, "L-bytes")
    # k-mers and terminal k-mers read from views (forward and reverse-complemented, at offsets that straddle storage words): exact
    rep.run(lemmas.slice_getkmer_lemmas, F, rep, "C13.7", quick=(rep.tier != "thorough"))
    rep.run(lemmas.kmer_iter_e2e_lemmas, F, rep, "L-iter")
    for ty in common.kmer_type_names(F):
        rep.run(lemmas.kmer_default_lemmas, F, rep, ty, which={"from_bytes", "from_ascii", "bulk"}, rule="L-default")
    # provided methods of the k-mer iterators that the crate overrides (fold, count, last, nth …) must agree with next()
    rep.run(dt_seq.kmer_iter_override_table, F, rep, "C13.2")
    # "the bulk k-mers-from-ASCII constructors equal the k-mer built from bases i..i+K": the ASCII route into a growable string
    # (scalar table and vector kernel) must read every byte as K::from_ascii / kmers_from_ascii read it (wave 10, C13-m18)
    rep.run(dt_strings.byte_tables, F, rep, "C13.8")
    rep.run(dt_strings.avx_kernels, F, rep, "C13.8", thorough=(rep.tier == "thorough"))
