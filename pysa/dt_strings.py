"""ASCII ingestion, byte tables, AVX2 kernels and string-set tables (C14.2, C14.5, C16)."""
from . import bv, cfg as C, lemmas
from .bv import Int, mkbool, ZERO, ONE, TOP, var
from .absint import (Adt, Arr, Cell, Diverge, Harness, Interp, Opaque, Ref, Tup, Undecided, Unsupported, VecV, tags_of)
from .avx import M256, const_byte
from .dt import Oracles, explore
from .dt_tables import recv, struct_of
from .lemmas import DnaT, expect_dna, guarded, run_inst, usize
from .models import IterV, some, none

OPTION = "std::option::Option"


# =========================================================================== E4 scalar tables (C16.1)

def scalar_table(F, key, rng=range(256)):
    out = {}
    for v in rng:
        r, _ = run_inst(F, key, [Int(8, False, val=v)])
        out[v] = r
    return out


def as_py(v):
    if isinstance(v, Int) and v.is_conc():
        return v.val
    if isinstance(v, Adt) and v.name.endswith("Option"):
        return None if v.variant == 0 else ("Some", as_py(v.fields[0]))
    return repr(v)


def byte_tables(F, rep, rule="C16.1"):
    spec_bits = {ord("A"): 0, ord("a"): 0, ord("C"): 1, ord("c"): 1, ord("G"): 2, ord("g"): 2, ord("T"): 3, ord("t"): 3}
    tabs = {}
    for name in ("base_to_bits", "dna_only_base_to_bits", "is_valid_base", "bits_to_ascii", "bits_to_base", "complement"):
        def f(name=name):
            tabs[name] = {k: as_py(v) for k, v in scalar_table(F, name).items()}
            rep.evaluations += 256
        guarded(rep, rule, "table/" + name, "table of " + name, f)
    if len(tabs) < 6:
        return tabs

    def cmp(key, desc, pred):
        bad = [v for v in range(256) if not pred(v)]
        if bad:
            v = bad[0]
            rep.violated(rule, key, "%s fails for byte %d (%r) and %d other byte value(s)" % (desc, v, chr(v) if 32 <= v < 127 else v, len(bad) - 1),
                         witness={"kind": "table", "byte": v, "count": len(bad)})
        else:
            rep.holds(rule, key, "%s for all 256 byte values" % desc)
    cmp("base_to_bits", "base_to_bits maps A/C/G/T in either case to 0/1/2/3 and every other byte to 0 (A)",
        lambda v: tabs["base_to_bits"][v] == spec_bits.get(v, 0))
    cmp("dna_only_base_to_bits", "dna_only_base_to_bits is Some(code) exactly on ACGTacgt",
        lambda v: tabs["dna_only_base_to_bits"][v] == (("Some", spec_bits[v]) if v in spec_bits else None))
    cmp("is_valid_base", "is_valid_base ⇔ the byte is one of ACGTacgt", lambda v: bool(tabs["is_valid_base"][v]) == (v in spec_bits))
    cmp("bits_to_ascii", "bits_to_ascii renders 0..3 as ACGT", lambda v: v > 3 or tabs["bits_to_ascii"][v] == b"ACGT"[v])
    cmp("bits_to_base", "bits_to_base renders 0..3 as the chars ACGT", lambda v: v > 3 or tabs["bits_to_base"][v] == ord("ACGT"[v]))
    cmp("roundtrip", "rendering back yields the upper-cased input with non-ACGT replaced by A",
        lambda v: tabs["bits_to_ascii"][tabs["base_to_bits"][v]] == (ord(chr(v).upper()) if v in spec_bits else ord("A")))
    cmp("complement", "complement(b) = 3 - b on bases", lambda v: v > 3 or tabs["complement"][v] == 3 - v)
    return tabs


# =========================================================================== AVX2 kernels (C16.2)

def avx_kernels(F, rep, rule="C16.2", thorough=False):
    if "bitops_avx2::pack_32_bases" not in F.insts or "bitops_avx2::convert_bases" not in F.insts:
        rep.inconclusive(rule, "avx-kernels", "role discovery: the crate-private bitops_avx2 kernels (convert_bases, pack_32_bases) were not found")
        return
    # ---- pack_32_bases: a pure permutation of the two low bits of every byte
    def fpack():
        inp = M256([tuple(var("b%d" % i, k) for k in range(8)) for i in range(32)])
        r, _ = run_inst(F, "bitops_avx2::pack_32_bases", [inp])
        spec = [None] * 64
        for i in range(32):
            spec[63 - 2 * i] = var("b%d" % i, 1)
            spec[62 - 2 * i] = var("b%d" % i, 0)
        lemmas.expect_bits(rep, rule, "pack_32_bases", r, spec,
                           "pack_32_bases puts the two low bits of byte i into base lane i (first byte most significant) — the same placement as extend()")
    guarded(rep, rule, "pack_32_bases", "pack_32_bases", fpack)
    # ---- convert_bases: per-lane table with all other lanes unconstrained (lane independence + table)
    spec_bits = {ord("A"): 0, ord("a"): 0, ord("C"): 1, ord("c"): 1, ord("G"): 2, ord("g"): 2, ord("T"): 3, ord("t"): 3}
    lanes = range(32) if thorough else (0, 15, 16, 31)
    values = range(256)
    bad = []
    inc = []
    n = 0
    for lane in lanes:
        for v in values:
            bytes_ = [Int(8, False, bits=[TOP] * 8) for i in range(32)]   # every other lane unconstrained
            bytes_[lane] = Int(8, False, val=v)
            src = Ref(Cell(Arr(bytes_), "chunk"))
            n += 1
            try:
                r, _ = run_inst(F, "bitops_avx2::convert_bases", [src])
            except (Undecided, Unsupported) as e:
                inc.append("lane %d value %d: %s" % (lane, v, e))
                break
            except Diverge as e:
                bad.append((lane, v, "diverges: %s" % e))
                continue
            vec = r.fields[0] if isinstance(r, Tup) else r
            if not isinstance(vec, M256):
                inc.append("result is %r" % (vec,))
                break
            ob = vec.b[lane]
            val = 0
            ok = True
            for k in range(8):
                c = bv.t_is_const(ob[k])
                if c is None:
                    ok = False
                    break
                val |= c << k
            if not ok:
                bad.append((lane, v, "output byte depends on other lanes or is undetermined: %s" % [bv.t_str(t) for t in ob]))
            elif val != spec_bits.get(v, 0):
                bad.append((lane, v, "converted to %d, the scalar path (base_to_bits) gives %d" % (val, spec_bits.get(v, 0))))
    rep.evaluations += n
    if bad:
        lane, v, msg = bad[0]
        rep.violated(rule, "convert_bases", "convert_bases: byte value %d (%r) in lane %d %s  (+%d more (lane, value) pairs)" % (
            v, chr(v) if 32 <= v < 127 else v, lane, msg, len(bad) - 1), witness={"kind": "table", "lane": lane, "byte": v, "count": len(bad)})
    elif inc:
        rep.inconclusive(rule, "convert_bases", "convert_bases: %s" % inc[0])
    else:
        rep.holds(rule, "convert_bases", "convert_bases: for %d lanes × all 256 byte values, with every other lane unconstrained, the output byte is a constant "
                  "equal to base_to_bits(value) — lane independence and agreement with the scalar table" % len(list(lanes)),
                  sample={"lanes": list(lanes), "values": 256})


# =========================================================================== from_acgt_bytes (C14.2 / C16.3)

class AcgtOracles(Oracles):
    def __init__(self, script, avx2):
        Oracles.__init__(self, script)
        self.avx2 = avx2
        self.paths = []
        self.block_valid = lambda blk: True

    @staticmethod
    def idx_of(v):
        for t in tags_of(v):
            if t.startswith("byte:"):
                return int(t[5:])
        return None

    def on_call(self, it, fn, args, dest_ty, term, caller):
        p = fn.get("path", "")
        name = p.split("::")[-1]
        if "is_feature_detected" in p or "__is_feature_detected" in p:
            return mkbool(self.avx2)
        if p == "base_to_bits":
            i = self.idx_of(args[0])
            if i is None:
                raise Undecided("base_to_bits of an unidentified byte")
            self.paths.append(("scalar", i))
            return Int(8, False, bits=[var("c", 2 * i), var("c", 2 * i + 1)] + [ZERO] * 6)
        if p == "bitops_avx2::convert_bases":
            r = args[0]
            if not isinstance(r, Ref):
                raise Undecided("convert_bases argument")
            v = it.read(r.cell, r.path)
            n = r.len if r.len is not None else ((len(v.elems) - r.off) if isinstance(v, (Arr, VecV)) else None)
            if n != 32:
                raise Diverge("convert_bases on a chunk of %s bytes" % n)
            ids = []
            for j in range(32):
                e = v.elems[r.off + j]
                i = self.idx_of(e)
                if i is None:
                    # not one of the input bytes: a constant the code put there (padding of a staging buffer)
                    if not (isinstance(e, Int) and e.is_conc()):
                        raise Undecided("convert_bases of a lane that is neither an input byte nor a constant")
                    i = ("const", {65: 0, 97: 0, 67: 1, 99: 1, 71: 2, 103: 2, 84: 3, 116: 3}.get(e.val, 0))
                else:
                    self.paths.append(("vector", i))
                ids.append(i)
            # the second component says whether all 32 bytes were ACGT letters: a fact about the data, scripted per 32-byte block
            first = [i_ for i_ in ids if isinstance(i_, int)]
            blk = (first[0] // 32) if first else 0
            return Tup([Opaque("__m256i", {"conv"}, {"ids": ids}), mkbool(self.block_valid(blk))])
        if p == "bitops_avx2::pack_32_bases":
            x = args[0]
            ids = x.info.get("ids") if isinstance(x, Opaque) else None
            if ids is None:
                raise Undecided("pack_32_bases of an unknown vector")
            bits = [ZERO] * 64
            for j, i in enumerate(ids):
                if isinstance(i, tuple):
                    bits[63 - 2 * j], bits[62 - 2 * j] = (ONE if i[1] & 2 else ZERO), (ONE if i[1] & 1 else ZERO)
                else:
                    bits[63 - 2 * j], bits[62 - 2 * j] = var("c", 2 * i + 1), var("c", 2 * i)
            return Int(64, False, bits=bits)
        return NotImplemented


def _acgt_valid_patterns():
    return (("all blocks pure ACGT", lambda b: True), ("no block pure ACGT", lambda b: False),
            ("odd blocks hold other bytes", lambda b: b % 2 == 0), ("even blocks hold other bytes", lambda b: b % 2 == 1))


def from_acgt_bytes_lemma(F, rep, rule="C16.3", maxn=100):
    try:
        dt = DnaT(F)
    except Unsupported as e:
        # the private representation of DnaString is not the one the lemmas are written against: undecided here
        rep.inconclusive(rule, "from_acgt_bytes", "role discovery: %s" % e)
        return
    key = "dna_string::DnaString::from_acgt_bytes"
    if key not in F.insts:
        rep.violated(rule, "from_acgt_bytes", "anchor-missing: %s" % key, witness={"kind": "anchor-missing"})
        return
    for avx2 in (True, False):
        for n in range(0, maxn + 1):
            # which 32-byte blocks the vector kernel reports as pure ACGT is a fact about the data: scripted (only lengths with a second
            # block can tell the patterns apart; the result is specified the same way whatever the kernel reports)
            pats = _acgt_valid_patterns() if (avx2 and n >= 64 and n in (64, 65, 96, 97, 100)) else _acgt_valid_patterns()[:1]
            for pi, (pname, pat) in enumerate(pats):
                okey = "from_acgt_bytes/avx2=%s/n=%d%s" % (avx2, n, "" if pi == 0 else "/" + pname.replace(" ", "-"))

                def f(n=n, avx2=avx2, okey=okey, pat=pat, pi=pi, pname=pname):
                    h = AcgtOracles([], avx2)
                    h.block_valid = pat
                    bytes_ = [Int(8, False, bits=[TOP] * 8, tags=frozenset({"byte:%d" % i})) for i in range(n)]
                    r, _ = run_inst(F, key, [Ref(Cell(Arr(bytes_), "bytes"))], h)
                    ws = dt.words("c", n)
                    ok = expect_dna(rep, rule, okey, dt, r, ws, n,
                                    "from_acgt_bytes of %d bytes (%s path%s): base i = base_to_bits(byte i), canonical storage" % (
                                        n, "AVX2" if avx2 else "scalar", "" if pi == 0 else "; " + pname))
                    if ok and pi == 0:
                        seen = sorted(i for _, i in h.paths)
                        if seen != list(range(n)):
                            rep.violated(rule, okey + "/coverage", "bytes converted: %s; every byte must be converted exactly once" % seen)
                guarded(rep, rule, okey, "from_acgt_bytes", f)


def from_str_lemmas(F, rep, rule="C16.6"):
    try:
        dt = DnaT(F)
    except Unsupported as e:
        # the private representation of DnaString is not the one the lemmas are written against: undecided here
        rep.inconclusive(rule, "from_dna_string", "role discovery: %s" % e)
        return
    for n in (0, 1, 5, 31, 32, 33, 70):
        okey = "from_dna_string/n=%d" % n

        def f(n=n, okey=okey):
            h = AcgtOracles([], False)
            bytes_ = [Int(8, False, bits=[TOP] * 7 + [ZERO], tags=frozenset({"byte:%d" % i})) for i in range(n)]
            r, _ = run_inst(F, "dna_string::DnaString::from_dna_string", [Ref(Cell(Arr(bytes_), "str"))], h)
            expect_dna(rep, rule, okey, dt, r, dt.words("c", n), n, "from_dna_string of %d ASCII chars: base i = base_to_bits(char i) — same table as the byte constructor" % n)
        guarded(rep, rule, okey, "from_dna_string", f)

    # the whole ASCII alphabet, concretely, at every position class of a storage word (the string is the 128 characters 0x00..0x7f, then
    # again rotated by 7 so that each character also lands on another lane): base i = the scalar table of the byte constructors
    code = {65: 0, 97: 0, 67: 1, 99: 1, 71: 2, 103: 2, 84: 3, 116: 3}
    for rot in (0, 7):
        okey = "from_dna_string/ascii-alphabet/rot=%d" % rot

        def g(rot=rot, okey=okey):
            chars = [(i + rot) % 128 for i in range(128)]
            r, _ = run_inst(F, "dna_string::DnaString::from_dna_string", [Ref(Cell(Arr([Int(8, False, val=c) for c in chars]), "str"))], Harness())
            ws = [[ZERO] * 64 for _ in range(4)]
            for i, c in enumerate(chars):
                v = code.get(c, 0)
                ws[i // 32][63 - 2 * (i % 32)] = ONE if v & 2 else ZERO
                ws[i // 32][62 - 2 * (i % 32)] = ONE if v & 1 else ZERO
            expect_dna(rep, rule, okey, dt, r, ws, 128, "from_dna_string of all 128 ASCII characters: A/C/G/T in either case map to 0/1/2/3 and every "
                       "other character to A, as in the byte constructor")
        guarded(rep, rule, okey, "from_dna_string", g)


    # text that begins and ends with white space (a line with its terminator, padded fields): every character is a position of the string
    okey = "from_dna_string/white-space-at-the-ends"

    def g2(okey=okey):
        chars = [10, 32] + [ord(c) for c in "ACGTacgtNn-"] + [32, 9, 13, 10]
        r, _ = run_inst(F, "dna_string::DnaString::from_dna_string", [Ref(Cell(Arr([Int(8, False, val=c) for c in chars]), "str"))], Harness())
        ws = [[ZERO] * 64 for _ in range(1)]
        for i, c in enumerate(chars):
            v = code.get(c, 0)
            ws[i // 32][63 - 2 * (i % 32)] = ONE if v & 2 else ZERO
            ws[i // 32][62 - 2 * (i % 32)] = ONE if v & 1 else ZERO
        expect_dna(rep, rule, okey, dt, r, ws, len(chars), "from_dna_string of %d characters that start and end with white space: one base per character "
                   "(white space, like every non-ACGT character, becomes A), as in the byte constructor" % len(chars))
    guarded(rep, rule, okey, "from_dna_string", g2)


class RunsOracles(Oracles):
    """every input character is of one of four kinds, chosen by an oracle: an ACGT letter (which one stays symbolic), the letter 'N', the
    letter 'n', or some other non-ACGT character.  The byte tables and comparisons with character constants answer accordingly."""
    KINDS = ("acgt", "other", "N", "n")

    def kind(self, i):
        return self.choose("kind%d" % i, self.KINDS)

    def on_call(self, it, fn, args, dest_ty, term, caller):
        p = fn.get("path", "")
        if p in ("dna_only_base_to_bits", "base_to_bits"):
            i = AcgtOracles.idx_of(args[0])
            if i is None:
                raise Undecided("unidentified byte")
            bits = Int(8, False, bits=[var("c", 2 * i), var("c", 2 * i + 1)] + [ZERO] * 6)
            if self.kind(i) == "acgt":
                return Adt(OPTION, 1, [bits]) if p == "dna_only_base_to_bits" else bits
            return Adt(OPTION, 0, []) if p == "dna_only_base_to_bits" else Int(8, False, val=0)
        return NotImplemented

    def unknown_compare(self, it, op, a, b):
        if op not in ("Eq", "Ne"):
            return None
        for x, y in ((a, b), (b, a)):
            i = AcgtOracles.idx_of(x)
            if i is not None and isinstance(y, Int) and y.is_conc():
                k = self.kind(i)
                c = y.val
                if k == "acgt":
                    if chr(c) in "ACGTacgt" if c < 128 else False:
                        raise Undecided("comparison of an ACGT letter with the constant %r" % chr(c))
                    eq = False
                elif k == "other":
                    eq = False
                else:
                    eq = (c == ord(k))
                return eq if op == "Eq" else not eq
        return None


def dna_only_runs(F, rep, rule="C16.4", maxn=5):
    """from_dna_only_string returns exactly the maximal runs of valid bases"""
    try:
        dt = DnaT(F)
    except Unsupported as e:
        # the private representation of DnaString is not the one the lemmas are written against: undecided here
        rep.inconclusive(rule, "from_dna_only_string", "role discovery: %s" % e)
        return
    key = "dna_string::DnaString::from_dna_only_string"
    if key not in F.insts:
        rep.violated(rule, "from_dna_only_string", "anchor-missing", witness={"kind": "anchor-missing"})
        return
    problems = []
    rows = 0
    for n in range(0, maxn + 1):
        def mk(script):
            return RunsOracles(script)

        def run(h, n=n):
            it = Interp(F, True, h)
            bytes_ = [Int(8, False, bits=[TOP] * 7 + [ZERO], tags=frozenset({"byte:%d" % i})) for i in range(n)]
            return it.call_body(F.insts[key], [Ref(Cell(Arr(bytes_), "str"))])
        for a, out, h in explore(mk, run):
            rows += 1
            rep.evaluations += 1
            pattern = [(a.get("kind%d" % i) == "acgt") if ("kind%d" % i) in a else None for i in range(n)]
            kinds = [a.get("kind%d" % i, "?") for i in range(n)]
            if isinstance(out, tuple) and out and out[0] in ("inconclusive", "diverge"):
                problems.append(("%s" % (out,), pattern, out[0] == "inconclusive"))
                continue
            runs = []
            cur = []
            for i, v in enumerate(pattern):
                if v:
                    cur.append(i)
                elif cur:
                    runs.append(cur)
                    cur = []
            if cur:
                runs.append(cur)
            got = []
            ok = isinstance(out, VecV)
            if ok:
                for s_ in out.elems:
                    try:
                        st, ln = dt.parts(s_)
                    except Unsupported:
                        ok = False
                        break
                    idxs = []
                    L = ln.val if isinstance(ln, Int) and ln.is_conc() else None
                    if L is None or not isinstance(st, VecV):
                        ok = False
                        break
                    for j in range(L):
                        w, lo = j // 32, 62 - 2 * (j % 32)
                        t = st.elems[w].getbits()[lo]
                        nm = None
                        if t is not TOP and len(t) == 1 and len(next(iter(t))) == 1:
                            src, bi = bv.var_name(next(iter(next(iter(t)))))
                            nm = bi // 2
                        idxs.append(nm)
                    got.append(idxs)
            if not ok:
                problems.append(("result %r" % (out,), pattern, True))
            elif got != runs:
                problems.append(("input of character kinds %s: returned runs (by input position; None = a base that is not the input's letter) %s; "
                                 "the maximal ACGT runs are %s" % (kinds, got, runs), pattern, False))
    hard = [p for p in problems if not p[2]]
    if hard:
        rep.violated(rule, "from_dna_only_string", "from_dna_only_string: %s" % hard[0][0], witness={"kind": "row", "row": {"pattern": str(hard[0][1])}, "count": len(hard)})
    elif problems:
        rep.inconclusive(rule, "from_dna_only_string", "from_dna_only_string: %s" % problems[0][0])
    else:
        rep.holds(rule, "from_dna_only_string", "from_dna_only_string returns exactly the maximal runs of valid bases for every validity pattern of length <= %d (%d patterns)" % (maxn, rows),
                  sample={"patterns": rows})


class HashNOracles(Oracles):
    """the hasher is a value whose state is the sequence of things hashed into it; `finish` yields a symbolic word named by that state,
    so the final string says, bit by bit, which hash (if any) each base came from — however the function builds the string"""

    def __init__(self, avx2=False):
        Oracles.__init__(self)
        self.avx2 = avx2
        self.names = {}

    def on_call(self, it, fn, args, dest_ty, term, caller):
        p = fn.get("path", "")
        rp = fn.get("rpath") or p
        name = p.split("::")[-1]
        if "is_feature_detected" in p:
            return mkbool(self.avx2)
        if "DefaultHasher" in p and name in ("new", "default"):
            return Opaque("DefaultHasher", {"hasher"}, {"h": ()})
        if name == "hash" and fn.get("trait", "").endswith("hash::Hash"):
            tgt = args[1]
            hv = it.read(tgt.cell, tgt.path)
            x = recv(it, args[0])
            if isinstance(x, Int) and x.is_conc():
                item = ("pos", x.val)
            elif isinstance(x, (Arr, Opaque)) or isinstance(args[0], Ref):
                item = ("name",) if "read-name" in tags_of(x) or isinstance(x, Arr) else ("?", repr(x))
            else:
                item = ("?", repr(x))
            if not (isinstance(hv, Opaque) and "h" in hv.info):
                raise Undecided("hash into %r" % (hv,))
            it.write(tgt.cell, tgt.path, Opaque("DefaultHasher", {"hasher"}, {"h": hv.info["h"] + (item,)}))
            return Tup([])
        if name == "finish" and fn.get("trait", "").endswith("Hasher"):
            hv = recv(it, args[0])
            if not (isinstance(hv, Opaque) and "h" in hv.info):
                raise Undecided("finish of %r" % (hv,))
            st = hv.info["h"]
            nm = self.names.setdefault(st, "H%d" % len(self.names))
            return Int(64, False, bits=[var(nm, i) for i in range(64)])
        if name == "clone" and args and isinstance(recv(it, args[0]), Opaque) and "h" in recv(it, args[0]).info:
            hv = recv(it, args[0])
            return Opaque("DefaultHasher", {"hasher"}, dict(hv.info))
        if rp.startswith(("std::collections::hash_map::RandomState", "std::hash::RandomState", "std::time::", "rand::")):
            self.observe("nondeterministic", rp)
            raise Undecided("nondeterministic source %s" % rp)
        return NotImplemented


def hashn_table(F, rep, rule="C16.5"):
    from .lemmas import DnaT
    key = "dna_string::DnaString::from_acgt_bytes_hashn"
    if key not in F.insts:
        rep.violated(rule, "from_acgt_bytes_hashn", "anchor-missing", witness={"kind": "anchor-missing"})
        return
    try:
        dt = DnaT(F)
    except Unsupported as e:
        rep.inconclusive(rule, "from_acgt_bytes_hashn", "role discovery: %s" % e)
        return
    classes = {"A": 65, "a": 97, "c": 99, "G": 71, "t": 116, "N": 78, "\xff": 255}
    code = {"A": 0, "a": 0, "c": 1, "G": 2, "t": 3}
    problems = []
    rows = 0
    import itertools
    short = [combo for n in (0, 1, 2, 3) for combo in itertools.product(sorted(classes), repeat=n)]
    # long reads (full storage words plus a partial one): ambiguous bytes at the first / last lane of a word, in the partial last word and at
    # the very end — the substituted base must still be hash(name, ABSOLUTE position)
    longs = []
    for n, ns in ((33, (32,)), (34, (0, 33)), (64, (31, 63)), (65, (32, 64)), (70, (1, 35, 69))):
        row = ["A"] * n
        for q in ns:
            row[q] = "N"
        row[n // 2 - 1] = "c" if row[n // 2 - 1] == "A" else row[n // 2 - 1]
        longs.append(tuple(row))
    for combo in short + longs:
        n = len(combo)
        if True:
          for avx2 in (False, True):
            rows += 1
            rep.evaluations += 1
            h = HashNOracles(avx2)
            it = Interp(F, True, h)
            bytes_ = [Int(8, False, val=classes[c]) for c in combo]
            name = Ref(Cell(Arr([Int(8, False, bits=[TOP] * 8) for _ in range(4)]), "read_name"))
            try:
                r = it.call_body(F.insts[key], [Ref(Cell(Arr(bytes_), "bytes")), name])
                st, ln = dt.parts(r)
            except (Undecided, Unsupported) as e:
                problems.append((str(e), combo, True))
                continue
            except Diverge as e:
                problems.append(("diverges: %s" % e, combo, False))
                continue
            shown = "".join(combo)
            if not (isinstance(ln, Int) and ln.is_conc() and isinstance(st, VecV) and all(isinstance(w, Int) for w in st.elems)):
                problems.append(("result %r" % (r,), combo, True))
                continue
            if ln.val != n or len(st.elems) != (n + 31) // 32:
                problems.append(("input %r: the result has length %d in %d words; required %d bases" % (shown, ln.val, len(st.elems), n), combo, False))
                continue
            rev = {v: k for k, v in h.names.items()}
            for i, c in enumerate(combo):
                wbits = st.elems[i // 32].getbits()
                hi, lo = wbits[63 - 2 * (i % 32)], wbits[62 - 2 * (i % 32)]
                if hi is TOP or lo is TOP:
                    problems.append(("input %r: base %d is unknown" % (shown, i), combo, True))
                    break
                if c in code:
                    if (lo, hi) != ((ONE if code[c] & 1 else ZERO), (ONE if code[c] & 2 else ZERO)):
                        problems.append(("input %r: base %d (%r) becomes %s|%s; required code %d — A/C/G/T in either case are kept as they are"
                                         % (shown, i, c, bv.t_str(hi), bv.t_str(lo), code[c]), combo, False))
                        break
                else:
                    wantst = (("name",), ("pos", i))
                    nm = h.names.get(wantst)
                    if nm is None or (lo, hi) != (var(nm, 0), var(nm, 1)):
                        got = "%s|%s" % (bv.t_str(hi), bv.t_str(lo))
                        for nm2, st2 in rev.items():
                            got = got.replace(nm2, "hash%r" % (st2,))
                        problems.append(("input %r: base %d (byte 0x%02x) becomes %s; required (hash(read name, position %d) %% 4): a valid base that is a "
                                         "function of (read name, position) only" % (shown, i, classes[c], got, i), combo, False))
                        break
            else:
                # padding bits of the last word stay zero (representation invariant)
                if n % 32 and st.elems:
                    wb = st.elems[-1].getbits()
                    if any(wb[j] is not ZERO for j in range(0, 64 - 2 * (n % 32))):
                        problems.append(("input %r: padding bits of the last word are not zero" % shown, combo, False))
    hard = [p for p in problems if not p[2]]
    if hard:
        rep.violated(rule, "from_acgt_bytes_hashn", "from_acgt_bytes_hashn: %s" % hard[0][0], witness={"kind": "row", "row": {"input": "".join(hard[0][1])}, "count": len(hard)})
    elif problems:
        rep.inconclusive(rule, "from_acgt_bytes_hashn", "from_acgt_bytes_hashn: %s" % problems[0][0])
    else:
        rep.holds(rule, "from_acgt_bytes_hashn", "from_acgt_bytes_hashn: on all %d runs (inputs over {A,a,c,G,t,N,0xff}^<=3, with and without the vector path) the "
                  "final string keeps ACGT/acgt as their codes and holds (hash(name, position) %% 4) of a fixed-key hasher at every other byte" % rows,
                  sample={"inputs": rows})
    # determinism effect: no random-keyed hasher / clock / rng reachable
    bad = [k for k in list(F.insts) + list(F.externs) if ("RandomState" in k or "SystemTime" in k or "thread_rng" in k or "Instant::now" in k)]
    reach = instance_reach(F, key)
    hit = [k for k in bad if k in reach]
    if hit:
        rep.violated(rule, "from_acgt_bytes_hashn/determinism", "from_acgt_bytes_hashn reaches %s: the substituted bases are no longer a deterministic function of (read name, position)" % hit[0])
    else:
        rep.holds(rule, "from_acgt_bytes_hashn/determinism", "no randomly keyed hasher, clock or RNG is reachable (%d callees inspected)" % len(reach))


def instance_reach(F, root):
    seen = set()
    st = [root]
    while st:
        k = st.pop()
        if k in seen:
            continue
        seen.add(k)
        b = F.insts.get(k)
        if not b:
            continue
        for bb in b["blocks"]:
            t = bb["t"]
            if t.get("k") == "call" and "const" in t["f"] and "fn" in t["f"]["const"]:
                fr = t["f"]["const"]["fn"]
                for kk in (fr.get("rkey"), fr.get("key")):
                    if kk and kk not in seen:
                        st.append(kk)
    return seen


# =========================================================================== PackedDnaStringSet::add (C14.5 / C01.5)

def packed_set_add(F, rep, rule="C14.5"):
    PS = "dna_string::PackedDnaStringSet"
    body = F.fns.get(PS + "::add")
    if body is None:
        rep.violated(rule, PS + "::add", "anchor-missing", witness={"kind": "anchor-missing"})
        return
    try:
        dt = DnaT(F)
    except Unsupported as e:
        # the private representation of DnaString is not the one the lemmas are written against: undecided here
        rep.inconclusive(rule, PS + "::add", "role discovery: %s" % e)
        return
    from .models import IterV
    for n0, m, loose in ((0, 0, False), (0, 3, False), (5, 4, False), (31, 3, False), (32, 33, False), (5, 4, True), (0, 3, True)):
        # loose: the bases arrive through an iterator whose size hint is legal but not exact (0, Some(m + 5)) — what a `filter` answers
        okey = "%s::add/len=%d/m=%d%s" % (PS, n0, m, "/loose-size-hint" if loose else "")

        def f(n0=n0, m=m, okey=okey, loose=loose):
            it = Interp(F, False, Harness())
            me = struct_of(F, PS, {"sequence": dt.sym("s", n0), "start": VecV([usize(77)]), "length": VecV([Int(32, False, val=77)])})
            cell = Cell(me, "self")
            items = VecV(lemmas.byte_seq("a", m))
            if loose:
                items = IterV("owned", (Ref(Cell(items, "lossy-source")), 0, m), frozenset(["loose-hint"]))
            it.call_body(body, [Ref(cell), items])
            names = [x["name"] for x in F.adts[PS]["variants"][0]["fields"]]
            st = cell.v
            seq, start, length = st.fields[names.index("sequence")], st.fields[names.index("start")], st.fields[names.index("length")]
            ws = dt.words("s", n0 + m, n0)
            for j in range(m):
                i = n0 + j
                w, hi, lo = i // 32, 63 - 2 * (i % 32), 62 - 2 * (i % 32)
                ws[w][hi], ws[w][lo] = var("a", 2 * j + 1), var("a", 2 * j)
            ok = expect_dna(rep, rule, okey, dt, seq, ws, n0 + m, "add() appends the %d bases unchanged after the %d stored ones" % (m, n0))
            if ok:
                sv = [x.val for x in start.elems] if isinstance(start, VecV) else None
                lv = [x.val for x in length.elems] if isinstance(length, VecV) else None
                if sv == [77, n0] and lv == [77, m]:
                    rep.holds(rule, okey + "/index", "add() records (start, length) = (%d, %d) for the new sequence" % (n0, m))
                else:
                    rep.violated(rule, okey + "/index", "add() records start %s / length %s; required [.., %d] / [.., %d]" % (sv, lv, n0, m),
                                 witness={"kind": "lockstep"})
        guarded(rep, rule, okey, "PackedDnaStringSet::add", f)
