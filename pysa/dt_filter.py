"""Decision tables for k-mer counting / filtering (C05) and the strandedness clauses it shares with C06."""
from . import bv, cfg as C
from .bv import Int, mkbool, ZERO, ONE, TOP, var, atom_int
from .absint import (Adt, Arr, Cell, Closure, Diverge, FnItem, Harness, Interp, Opaque, Ref, Tup, Undecided,
                     Unsupported, VecV, UNINIT, tags_of, with_tags)
from .dt import (BOTTOM, DIR, LEFT, RIGHT, LinOracles, Oracles, explore, is_print_call)
from .dt_tables import EXTS, recv, struct_of
from .dt_compress import exts_sym, kid, kmer_v
from .models import DequeV, IterV, call_callable, some, none, deref_val

OPTION = "std::option::Option"


def probe_field(it, closure, term, caller, n=3):
    """which tuple field does a key closure project? (call it on a probe element)"""
    probe = Tup([Opaque("P", {"probe-field-%d" % i}) for i in range(n)])
    r = call_callable(it, closure, [Ref(Cell(probe, "probe"))], term, caller, 0)
    for t in tags_of(r):
        if t.startswith("probe-field-"):
            return int(t[12:])
    return None


class StopRun(Exception):
    def __init__(self, ranges):
        self.ranges = ranges


class GroupsV:
    __slots__ = ("groups",)

    def __init__(self, groups):
        self.groups = groups


class FilterOracles(Oracles):
    """filter_kmers with scripted observations"""

    def __init__(self, script, cfg):
        Oracles.__init__(self, script)
        self.cfg = cfg            # dict: lens, size, obs (per sequence list of names), flip, cls, bucket, valid
        self.summ = []            # summarize calls: (key name, [obs names])
        self.sorts = []
        self.group_key_field = None
        self.index_new = None
        self.bucket_asked = []
        self.pushed_bucket = []
        self.canon_calls = []

    def key_of(self, obs):
        return "key%d" % self.cfg["cls"][obs]

    def order_of(self, obs):
        """the k-mer of this observation compared with its reverse complement: '<' (it is canonical), '>' (its rc is), '=' (palindrome)"""
        od = self.cfg.get("order")
        if od and obs in od:
            return od[obs]
        return ">" if self.cfg["flip"].get(obs) else "<"

    def plain_name(self, obs):
        if not self.cfg["stranded"] and self.order_of(obs) in "<=":
            return self.key_of(obs)
        return obs

    def on_call(self, it, fn, args, dest_ty, term, caller):
        path = fn.get("path", "")
        rpath = fn.get("rpath") or path
        name = path.split("::")[-1]
        tr = fn.get("trait", "")
        if is_print_call(fn) or "log::" in fn.get("key", "") or path.startswith("log::"):
            if name in ("le", "lt", "ge", "gt"):
                return mkbool(False)
            return Opaque(dest_ty, {"fmt"})
        if name == "k" and tr == "Kmer":
            return Int(64, False, val=3)
        if tr == "Mer" and name == "len":
            s_ = recv(it, args[0])
            return Int(64, False, val=self.cfg["lens"][s_.info["seq"]])
        if tr == "Vmer" and name == "iter_kmer_exts":
            s_ = recv(it, args[0])
            si = s_.info["seq"]
            e_in = args[1]
            if not (isinstance(e_in, Adt) and "caller-exts-%d" % si in tags_of(e_in)):
                self.observe("wrong-seq-exts", si)
            # the k-mer as read: it IS the canonical form when it is not larger than its reverse complement
            items = [Tup([Opaque("K", {"kmer"}, {"k": self.plain_name(o), "canon": False, "obs": o, "form": "plain"}), exts_sym("x" + o)]) for o in self.cfg["obs"][si]]
            return IterV("owned", (Ref(Cell(VecV(items), "obs")), 0, len(items)))
        if tr == "Kmer" and name in ("min_rc_flip", "min_rc"):
            k = recv(it, args[0])
            o = k.info.get("obs")
            self.canon_calls.append(o)
            r = Opaque("K", {"kmer"}, {"k": self.key_of(o), "canon": True, "obs": o, "form": "canon"})
            if name == "min_rc":
                return r
            fl = self.order_of(o) != "<"
            if k.info.get("form") == "rc":
                fl = self.order_of(o) == "<"
            return Tup([r, mkbool(fl)])
        if tr == "Mer" and name == "rc" and args and isinstance(recv(it, args[0]), Opaque) and "obs" in recv(it, args[0]).info:
            k = recv(it, args[0])
            o = k.info["obs"]
            self.canon_calls.append(o)
            if k.info.get("form") == "plain":
                nm = self.key_of(o) if (self.order_of(o) in ">=" and not self.cfg["stranded"]) else "rc(%s)" % o
                return Opaque("K", {"kmer"}, {"k": nm, "canon": False, "obs": o, "form": "rc"})
            if k.info.get("form") == "rc":
                return Opaque("K", {"kmer"}, {"k": self.plain_name(o), "canon": False, "obs": o, "form": "plain"})
            raise Undecided("reverse complement of a canonicalised k-mer")
        if name in ("lt", "le", "gt", "ge", "cmp", "partial_cmp", "eq", "ne") and len(args) == 2 and tr.split("::")[-1].split("<")[0] in ("PartialOrd", "Ord", "PartialEq"):
            a, b = recv(it, args[0]), recv(it, args[1])
            if isinstance(a, Opaque) and isinstance(b, Opaque) and a.info.get("obs") is not None and a.info.get("obs") == b.info.get("obs"):
                fa, fb = a.info.get("form"), b.info.get("form")
                if {fa, fb} == {"plain", "rc"}:
                    o_ = self.order_of(a.info["obs"])            # plain ? rc
                    c = {"<": -1, "=": 0, ">": 1}[o_]
                    if fa == "rc":
                        c = -c
                    if name == "cmp":
                        return Adt("std::cmp::Ordering", c + 1, [])
                    if name == "partial_cmp":
                        return some(Adt("std::cmp::Ordering", c + 1, []))
                    return mkbool({"lt": c < 0, "le": c <= 0, "gt": c > 0, "ge": c >= 0, "eq": c == 0, "ne": c != 0}[name])
        if path == "filter::bucket":
            k = recv(it, args[0])
            o = k.info.get("obs")
            canon = k.info.get("canon") or k.info.get("k") == self.key_of(o)
            self.bucket_asked.append((o, canon))
            # bucket of the canonical / plain form of this observation's k-mer
            if canon or self.cfg["stranded"]:
                b = self.cfg["bucket"][self.cfg["cls"][o]]
            else:
                b = self.cfg["plain_bucket"][o]
            return Int(64, False, val=b)
        if name == "clone" and tr.endswith("Clone"):
            return recv(it, args[0])
        if self.cfg.get("stop_after_ranges") and name == "into_iter" and args and isinstance(args[0], VecV) and args[0].elems \
                and all(isinstance(e, Adt) and (e.name.endswith("ops::Range") or e.name.endswith("ops::RangeInclusive")) for e in args[0].elems):
            raise StopRun([(e.fields[0].val, e.fields[1].val + (1 if e.name.endswith("Inclusive") else 0)) for e in args[0].elems])
        if name in ("sort_by_key", "sort_by_cached_key", "sort_unstable_by_key", "sort_by", "sort_unstable_by", "sort", "sort_unstable"):
            sl = args[0]
            v = it.read(sl.cell, sl.path)
            stable = "unstable" not in name
            fld = probe_field(it, args[1], term, caller) if len(args) > 1 else None
            self.sorts.append((name, stable, fld, len(v.elems) if isinstance(v, VecV) else None))
            if isinstance(v, VecV) and fld is not None:
                def keyf(e):
                    x = e.fields[fld]
                    return x.info.get("k") if isinstance(x, Opaque) else repr(x)
                es = list(v.elems)
                if stable:
                    es = sorted(es, key=keyf)
                else:
                    es = sorted(es, key=keyf)
                    # an unstable sort may permute equal keys: model the adversarial choice (reverse equal runs)
                    out = []
                    i = 0
                    while i < len(es):
                        j = i
                        while j < len(es) and keyf(es[j]) == keyf(es[i]):
                            j += 1
                        out.extend(reversed(es[i:j]))
                        i = j
                    es = out
                it.write(sl.cell, sl.path, VecV(es))
            return Tup([])
        if name in ("group_by", "chunk_by") and "Itertools" in tr:
            src = args[0]
            elems = []
            if isinstance(src, IterV) and src.kind == "owned":
                ref, pos, end = src.a
                v = it.read(ref.cell, ref.path)
                elems = list(v.elems[pos:end])
            else:
                raise Undecided("group_by over %r" % (src,))
            fld = probe_field(it, args[1], term, caller)
            self.group_key_field = fld
            groups = []
            for e in elems:
                kx = e.fields[fld] if fld is not None else e.fields[0]
                kn = kx.info.get("k") if isinstance(kx, Opaque) else repr(kx)
                if groups and groups[-1][0] == kn:
                    groups[-1][2].append(e)
                else:
                    groups.append([kn, kx, [e]])
            return GroupsV(groups)
        if name == "into_iter" and args and isinstance(recv(it, args[0]), GroupsV):
            g = recv(it, args[0])
            items = [Tup([kx, IterV("owned", (Ref(Cell(VecV(es), "grp")), 0, len(es)))]) for kn, kx, es in g.groups]
            return IterV("owned", (Ref(Cell(VecV(items), "groups")), 0, len(items)))
        if name == "into_iter" and args and isinstance(args[0], IterV):
            return args[0]
        if name == "summarize":
            itv = args[1]
            obs = []
            exts_terms = []
            if isinstance(itv, IterV) and itv.kind == "owned":
                ref, pos, end = itv.a
                v = it.read(ref.cell, ref.path)
                for e in v.elems[pos:end]:
                    k, ex, dd = e.fields
                    obs.append((k.info.get("obs"), k.info.get("k"), self.exts_desc(ex), dd.info.get("label") if isinstance(dd, Opaque) else None))
            else:
                raise Undecided("summarize over %r" % (itv,))
            kn = obs[0][1] if obs else None
            self.summ.append((kn, obs))
            valid = self.cfg["valid"].get(kn, True)
            return Tup([mkbool(valid), exts_sym("sum-" + str(kn)), Opaque("DS", {"summary"}, {"of": kn})])
        if "BoomHashMap2" in path and name in ("new", "new_parallel"):
            self.index_new = args
            return Opaque("BoomHashMap2", {"index"})
        return NotImplemented

    def exts_desc(self, ex):
        """describe an extension byte in terms of the observation's symbolic extensions: ('x<o>', rc?)"""
        ev = ex.fields[0] if isinstance(ex, Adt) else None
        if not isinstance(ev, Int):
            return repr(ex)
        bits = ev.getbits()
        names = set()
        for t in bits:
            if t is not TOP and len(t) == 1 and len(next(iter(t))) == 1:
                names.add(bv.var_name(next(iter(next(iter(t)))))[0])
        if len(names) != 1:
            return "?"
        nm = names.pop()
        plain = [var(nm, i) for i in range(4)] + [ZERO] * 4
        if list(bits) == plain:
            return (nm, "as-is")
        # rc of a single-direction (low nibble) set: reverse -> high nibble, complement -> bit b -> 3-b
        rc = [ZERO] * 4 + [var(nm, 3 - i) for i in range(4)]
        if list(bits) == rc:
            return (nm, "rc")
        return (nm, "other")

    def size_of(self, it, ty):
        return self.cfg["size"]


def run_filter(F, body, cfg):
    h = FilterOracles([], cfg)
    it = Interp(F, False, h)
    if cfg.get("max_steps"):
        it.max_steps = cfg["max_steps"]
    seqs = []
    for si, obs in enumerate(cfg["obs"]):
        seqs.append(Tup([Opaque("V", {"seq"}, {"seq": si}), Adt(EXTS, 0, [Int(8, False, bits=[TOP] * 8)], tags=frozenset({"caller-exts-%d" % si})),
                         Opaque("D1", {"label"}, {"label": "L%d" % si})]))
    args = [Ref(Cell(Arr(seqs), "seqs")), Ref(Cell(Opaque("S", {"summarizer"}), "summarizer")), mkbool(cfg["stranded"]), mkbool(cfg["report_all"]),
            Int(64, False, val=cfg["memory"])]
    out = it.call_body(body, args)
    return h, out


def filter_tables(F, rep, rule="C05"):
    body = F.fns.get("filter::filter_kmers")
    if body is None:
        rep.violated(rule + ".1", "filter_kmers", "anchor-missing: filter::filter_kmers", witness={"kind": "anchor-missing"})
        return
    site = F.site(body, body["line"])
    import itertools
    # ---------------- Table A: pass tiling, distribution, grouping
    obs_names = ["a0", "a1", "b0"]
    base = {"obs": [["a0", "a1"], ["b0"]], "size": 16, "report_all": True, "valid": {}, "flip": {o: False for o in obs_names}}
    partitions = [(0, 0, 0), (0, 0, 1), (0, 1, 0), (0, 1, 1), (0, 1, 2)]
    problems = []
    inc = []
    rows = 0
    # lens chosen so that slices = kmer_mem / max_mem + 1 takes the wanted values with size 16 and memory 1 (GB)
    def lens_for(slices):
        # input_kmers = sum(len - 2); kmer_mem = 16 * input_kmers ; want floor(kmer_mem / 1e9) + 1 = slices
        want_kmers = ((slices - 1) * 10 ** 9 + 15) // 16 + (1 if slices > 1 else 0)
        a = max(want_kmers, 2)
        return {0: a + 2 - 1 if slices > 1 else 4, 1: 3}
    # ---- pass arithmetic alone, for many pass counts (stop before the passes run)
    tile_problems = []
    for slices in (1, 2, 3, 4, 5, 7, 16, 100, 255, 256, 257, 300, 1000, 5000):
        cfg = dict(base, lens=lens_for(slices), stranded=False, memory=1, cls={o: 0 for o in obs_names}, bucket=[0], plain_bucket={o: 0 for o in obs_names}, stop_after_ranges=True)
        rep.evaluations += 1
        try:
            h, out = run_filter(F, body, cfg)
        except StopRun as e:
            rngs = e.ranges
            if not rngs:
                tile_problems.append("%d passes wanted: no bucket range is produced" % slices)
                continue
            ok = rngs[0][0] == 0 and all(rngs[i][1] == rngs[i + 1][0] for i in range(len(rngs) - 1)) and rngs[-1][1] >= 256 and all(a < b for a, b in rngs) \
                and all(a < 256 for a, b in rngs)
            if not ok:
                tile_problems.append("memory budget giving %d slices: bucket ranges %s%s do not tile 0..256 as consecutive half-open intervals" % (
                    slices, rngs[:4], "…" if len(rngs) > 4 else ""))
        except (Undecided, Unsupported) as e:
            inc.append(str(e))
        except Diverge as e:
            tile_problems.append("memory budget giving %d slices: filter_kmers diverges: %s" % (slices, e))
        else:
            inc.append("pass planning did not reach the pass loop")
    if tile_problems:
        rep.violated(rule + ".1", "filter_kmers/pass-tiling", "filter_kmers: %s" % tile_problems[0], site=site, witness={"kind": "row", "count": len(tile_problems)})
    elif not inc:
        rep.holds(rule + ".1", "filter_kmers/pass-tiling", "the bucket ranges of the passes tile [0,256) as consecutive half-open intervals for 14 memory budgets (1 … 5000 slices)")
    # ---- membership sweep: one observation per bucket value 0..255; whatever the representation of the pass ranges, every
    # observation must be collected in exactly one pass
    sweep_problems = []
    sweep_inc = []
    sweep_names = ["o%d" % b for b in range(256)]
    sweep_passes = (2, 3, 4, 5, 7, 16, 100, 255, 256) if rep.tier == "thorough" else (2, 3)
    for slices in sweep_passes:
        want_kmers = ((slices - 1) * 10 ** 9 + 15) // 16 + 1
        cfg = {"obs": [sweep_names], "size": 16, "report_all": True, "valid": {}, "flip": {o: False for o in sweep_names}, "lens": {0: want_kmers + 2},
               "stranded": False, "memory": 1, "cls": {o: i for i, o in enumerate(sweep_names)}, "bucket": list(range(256)),
               "plain_bucket": {o: (i + 37) % 256 for i, o in enumerate(sweep_names)}, "max_steps": 400000 + 60000 * slices}
        rep.evaluations += 1
        try:
            h, out = run_filter(F, body, cfg)
        except (Undecided, Unsupported) as e:
            sweep_inc.append(str(e))
            continue
        except Diverge as e:
            sweep_problems.append("memory budget giving %d passes: filter_kmers diverges: %s" % (slices, e))
            continue
        seen = {}
        for kn, obs in h.summ:
            for (o, k, ex, lab) in obs:
                seen[o] = seen.get(o, 0) + 1
        bad = [(int(o[1:]), seen.get(o, 0)) for o in sweep_names if seen.get(o, 0) != 1]
        if bad:
            sweep_problems.append("memory budget giving %d passes: k-mers of bucket %d are collected in %d passes instead of exactly one (%d bucket value(s) affected: %s)" % (
                slices, bad[0][0], bad[0][1], len(bad), [b for b, _ in bad][:8]))
    if sweep_problems:
        rep.violated(rule + ".1", "filter_kmers/pass-membership", "filter_kmers: %s" % sweep_problems[0], site=site, witness={"kind": "row", "count": len(sweep_problems)})
    elif sweep_inc:
        rep.inconclusive(rule + ".1", "filter_kmers/pass-membership", "filter_kmers: %s" % sweep_inc[0])
    else:
        rep.holds(rule + ".1", "filter_kmers/pass-membership", "for %s passes, a k-mer of every bucket value 0..255 is collected in exactly one pass" % (list(sweep_passes),))
    for slices in ((1, 2, 3, 7) if rep.tier == "thorough" else (1, 3)):
        lens = lens_for(slices)
        for stranded in ((False, True) if rep.tier == "thorough" else (False,)):
            for part in partitions:
                ncls = max(part) + 1
                for buckets in itertools.product((0, 100, 255), repeat=ncls):
                    cfg = dict(base, lens=lens, stranded=stranded, memory=1, cls=dict(zip(obs_names, part)), bucket=list(buckets),
                               plain_bucket={o: (buckets[part[i]] + 37) % 256 for i, o in enumerate(obs_names)})
                    rows += 1
                    rep.evaluations += 1
                    try:
                        h, out = run_filter(F, body, cfg)
                    except (Undecided, Unsupported) as e:
                        inc.append(str(e))
                        continue
                    except Diverge as e:
                        problems.append(("filter_kmers diverges: %s" % e, cfg))
                        continue
                    # every observation summarised exactly once, grouped by key, in input order
                    seen = {}
                    for kn, obs in h.summ:
                        for (o, k, ex, lab) in obs:
                            seen[o] = seen.get(o, 0) + 1
                    if stranded:
                        keyname = {o: o for o in obs_names}     # plain k-mer = its own key; equal classes modelled through cls below
                    want_groups = {}
                    for i, o in enumerate(obs_names):
                        want_groups.setdefault(part[i], []).append(o)
                    miss = [o for o in obs_names if seen.get(o, 0) != 1]
                    if miss:
                        problems.append(("with %d pass(es), observation(s) %s are summarised %s time(s) instead of exactly once (classes %s, buckets %s)" % (
                            slices, miss, [seen.get(o, 0) for o in miss], part, buckets), cfg))
                        continue
                    if not stranded:
                        got_groups = sorted([sorted(o for (o, _, _, _) in obs) for kn, obs in h.summ])
                        if got_groups != sorted(sorted(v) for v in want_groups.values()):
                            problems.append(("observations of one k-mer are split or merged across summaries: %s; required %s" % (got_groups, sorted(want_groups.values())), cfg))
                            continue
                        for kn, obs in h.summ:
                            order = [o for (o, _, _, _) in obs]
                            if order != [o for o in obs_names if o in order]:
                                problems.append(("a k-mer's observations reach the summarizer in the order %s, not in input order" % order, cfg))
                    # labels: each observation carries its own sequence's label
                    for kn, obs in h.summ:
                        for (o, k, ex, lab) in obs:
                            want_lab = "L0" if o.startswith("a") else "L1"
                            if lab != want_lab:
                                problems.append(("observation %s carries label %s instead of its sequence's label %s" % (o, lab, want_lab), cfg))
                    if h.obs.get("wrong-seq-exts"):
                        problems.append(("a sequence is scanned with another sequence's boundary extensions", cfg))
                    # all_kmers ascending = order of summaries by (bucket, key)
                    if isinstance(out, Tup) and isinstance(out.fields[1], VecV) and not stranded:
                        allk = [k.info.get("k") for k in out.fields[1].elems]
                        keys = sorted({"key%d" % c for c in part}, key=lambda kn_: (buckets[int(kn_[3:])], kn_))
                        if allk != keys:
                            problems.append(("all_kmers is %s; every distinct k-mer once, ascending (bucket-major): %s" % (allk, keys), cfg))
                    for (nm, stable, fld, n) in h.sorts:
                        if not stable:
                            problems.append(("the per-bucket sort %s is not stable: a k-mer's observations are no longer summarised in input order" % nm, cfg))
                        if fld != 0:
                            problems.append(("the per-bucket sort key is tuple field %s, not the k-mer" % fld, cfg))
                    if h.group_key_field not in (0, None):
                        problems.append(("observations are grouped by tuple field %s, not by the k-mer" % h.group_key_field, cfg))
    if problems:
        msg, cfg = problems[0]
        rep.violated(rule + ".1", "filter_kmers/passes-and-grouping", "filter_kmers: %s" % msg, site=site,
                     witness={"kind": "row", "row": {k: str(v) for k, v in cfg.items() if k in ("lens", "stranded", "cls", "bucket", "memory")}, "count": len(problems)})
    elif inc:
        rep.inconclusive(rule + ".1", "filter_kmers/passes-and-grouping", "filter_kmers: %s" % inc[0])
    else:
        rep.holds(rule + ".1", "filter_kmers/passes-and-grouping",
                  "filter_kmers: for 1 and 3 (thorough: 1, 2, 3, 7) bucket passes, every identity pattern of 3 observations and every placement of their k-mers in first / "
                  "middle / last buckets, each observation is summarised exactly once, grouped with the other observations of its k-mer, in input order, "
                  "with its own sequence's label; all_kmers ascending (%d rows)" % rows, sample={"rows": rows})
    # ---------------- Table B: canonicalisation of key and extensions
    problems = []
    for stranded in (False, True):
        for flip in (False, True, "palindrome"):
            cfg = {"obs": [["a0"]], "size": 16, "report_all": True, "valid": {}, "flip": {"a0": bool(flip)}, "lens": {0: 3}, "stranded": stranded, "memory": 1,
                   "cls": {"a0": 0}, "bucket": [5], "plain_bucket": {"a0": 9}}
            if flip == "palindrome":
                cfg["order"] = {"a0": "="}
            rep.evaluations += 1
            try:
                h, out = run_filter(F, body, cfg)
            except (Undecided, Unsupported) as e:
                rep.inconclusive(rule + ".3", "filter_kmers/canonicalisation", "filter_kmers: %s" % e)
                problems = None
                break
            except Diverge as e:
                problems.append("diverges: %s" % e)
                continue
            if len(h.summ) != 1 or len(h.summ[0][1]) != 1:
                problems.append("one observation yields summaries %s" % (h.summ,))
                continue
            (o, k, ex, lab) = h.summ[0][1][0]
            want_key = "a0" if stranded else "key0"
            want_ex = ("xa0", "rc" if (flip and not stranded) else "as-is")
            if flip == "palindrome" and not stranded:
                # a k-mer that is its own reverse complement: its one observation has one pair of flanks, in either orientation — not both
                if ex in (("xa0", "as-is"), ("xa0", "rc")):
                    want_ex = ex
                else:
                    problems.append("a k-mer that equals its reverse complement: the flanking extensions of its single observation are recorded as %s; required the "
                                    "observed flanks in one orientation (the union of both orientations invents neighbours)" % (ex,))
                    continue
            elif flip == "palindrome":
                want_ex = ("xa0", "as-is")
            if k != want_key:
                problems.append("stranded=%s: the table key is %s; required %s" % (stranded, k, "the k-mer as read" if stranded else "the canonical (minimum) form"))
            if ex != want_ex:
                problems.append("stranded=%s, observation on the %s strand: its flanking extensions are recorded %s; required %s" % (
                    stranded, "opposite" if flip else "canonical", ex, want_ex))
            if stranded and h.canon_calls:
                problems.append("a k-mer is canonicalised (min_rc) in stranded mode")
            for (o2, canon) in h.bucket_asked:
                if bool(canon) != (not stranded):
                    problems.append("stranded=%s: the pass/bucket is computed from the %s form of the k-mer while the observation is stored under the %s form — "
                                    "with several passes an observation can be dropped or filed twice" % (stranded, "canonical" if canon else "as-read", "canonical" if not stranded else "as-read"))
        if problems is None:
            break
    if problems:
        rep.violated(rule + ".3", "filter_kmers/canonicalisation", "filter_kmers: %s" % problems[0], site=site, witness={"kind": "row", "count": len(problems)})
    elif problems is not None:
        rep.holds(rule + ".3", "filter_kmers/canonicalisation", "key = k-mer as read when stranded, canonical form otherwise; extensions reverse-complemented exactly "
                  "for observations on the opposite strand; the bucket is computed from the stored key")
    # ---------------- Table C: emission
    problems = []
    for report_all in (False, True):
        for valid in (False, True):
            cfg = {"obs": [["a0"]], "size": 16, "report_all": report_all, "valid": {"key0": valid}, "flip": {"a0": False}, "lens": {0: 3}, "stranded": False,
                   "memory": 1, "cls": {"a0": 0}, "bucket": [5], "plain_bucket": {"a0": 9}}
            rep.evaluations += 1
            try:
                h, out = run_filter(F, body, cfg)
            except (Undecided, Unsupported) as e:
                rep.inconclusive(rule + ".5", "filter_kmers/emission", "filter_kmers: %s" % e)
                problems = None
                break
            allk = [k.info.get("k") for k in out.fields[1].elems] if isinstance(out, Tup) and isinstance(out.fields[1], VecV) else None
            keys, exts, data = (h.index_new or [None, None, None])[:3]
            kk = [k.info.get("k") for k in keys.elems] if isinstance(keys, VecV) else None
            ee = [("sum-key0" in repr(e)) for e in exts.elems] if isinstance(exts, VecV) else None
            dd = [d_.info.get("of") for d_ in data.elems] if isinstance(data, VecV) else None
            if allk != (["key0"] if report_all else []):
                problems.append("report_all_kmers=%s: all_kmers is %s" % (report_all, allk))
            if kk != (["key0"] if valid else []) or dd != (["key0"] if valid else []) or ee != ([True] if valid else []):
                problems.append("summarizer says valid=%s: the table gets keys %s, extensions-from-summary %s, data %s (the three arrays must receive the k-mer, the "
                                "summarised extensions and the summary in lockstep, only when valid)" % (valid, kk, ee, dd))
        if problems is None:
            break
    if problems:
        rep.violated(rule + ".5", "filter_kmers/emission", "filter_kmers: %s" % problems[0], site=site, witness={"kind": "row", "count": len(problems)})
    elif problems is not None:
        rep.holds(rule + ".5", "filter_kmers/emission", "all_kmers ⇔ report flag; (key, summarised extensions, summary) pushed in lockstep ⇔ the summarizer accepted")


# =========================================================================== summarizers (C05.6)

def summarizer_tables(F, rep, rule="C05.6"):
    specs = [("<filter::CountFilter as filter::KmerSummarizer<D, u16>>::summarize", "filter::CountFilter", "count"),
             ("<filter::CountFilterSet<D> as filter::KmerSummarizer<D, std::vec::Vec<D>>>::summarize", "filter::CountFilterSet", "set")]
    for path, adt, kind in specs:
        body = F.fns.get(path)
        nm = adt.split("::")[-1]
        if body is None:
            rep.violated(rule, nm, "anchor-missing: %s" % path, witness={"kind": "anchor-missing"})
            continue
        problems = []
        inc = []
        rows = 0
        import itertools
        label_seqs = [()]
        for n in (1, 2, 3):
            label_seqs += list(itertools.product((5, 3, 9), repeat=n)) if kind == "set" else [tuple(range(n))]
        for labels in label_seqs:
            n = len(labels)

            def mk(script):
                h = LinOracles(script)
                h.assume({"min": 1}, lo=0)
                return h

            def run(h, n=n, labels=labels):
                it = Interp(F, False, h)
                me = struct_of(F, adt, {"min_kmer_obs": atom_int(64, "min")})
                # the caller's data: opaque for the counting summarizer; for the set summarizer small concrete labels (a scripted
                # scenario: which observations carry equal labels and how the labels are ordered), the extensions stay symbolic
                items = [Tup([Opaque("K", {"kmer"}), exts_sym("e%d" % i),
                              Int(32, False, val=labels[i]) if kind == "set" else Opaque("D", {"d"}, {"d": i})]) for i in range(n)]
                return it.call_body(body, [Ref(Cell(me, "self")), IterV("owned", (Ref(Cell(VecV(items), "items")), 0, n))])
            for a, out, h in explore(mk, run):
                rows += 1
                rep.evaluations += 1
                if isinstance(out, tuple) and out and out[0] == "inconclusive":
                    inc.append(out[1])
                    continue
                if isinstance(out, tuple) and out and out[0] == "diverge":
                    problems.append("summarize diverges on %d observations: %s" % (n, out[1]))
                    continue
                valid, ex, data = out.fields
                # the validity predicate must be (n >= min): decided by comparing the count with the untruncated threshold
                preds = [p for p, _ in h.obs.get("cmp", [])]
                if any("trunc" in p for p in preds):
                    problems.append("the acceptance test compares against a truncated threshold (%s): thresholds >= 2^16 wrap around and accept k-mers that were not seen often enough" % preds[0])
                    continue
                t = h.truth("Ge", {"min": -1}, n)
                if t is None:
                    # the path leaves (n >= min) open: a threshold consistent with everything the code tested on this path for which the
                    # reported validity is wrong is an exact counterexample
                    if isinstance(valid, Int) and valid.is_conc():
                        env = h.find_model(["min"], lambda e, n=n, v=bool(valid.val): (n >= e["min"]) != v)
                        if env is not None:
                            problems.append("%d observations (labels %s), threshold min_kmer_obs = %d: the summarizer reports valid=%s on the path taken for this "
                                            "threshold (tests made: %s); specified: valid exactly when the number of observations >= the threshold"
                                            % (n, list(labels), env["min"], bool(valid.val), preds))
                            continue
                    inc.append("acceptance not decided by a comparison of the count with min_kmer_obs: %s" % preds)
                    continue
                if not (isinstance(valid, Int) and valid.is_conc() and bool(valid.val) == t):
                    problems.append("%d observations, threshold relation (n >= min) = %s: the summarizer reports valid=%r" % (n, t, valid))
                ev = ex.fields[0] if isinstance(ex, Adt) else None
                want = [ZERO] * 8
                for i in range(n):
                    for j in range(4):
                        want[j] = bv.t_or(want[j], var("e%d" % i, j))
                if not (isinstance(ev, Int) and list(ev.getbits()) == want):
                    problems.append("the summarised extensions of %d observations (labels %s) are %r, not the union of all the observations' extensions" % (n, list(labels), ev))
                if kind == "count":
                    if not (isinstance(data, Int) and data.is_conc() and data.val == n):
                        problems.append("the reported count for %d observations is %r" % (n, data))
                else:
                    ds = [x.val for x in data.elems] if isinstance(data, VecV) and all(isinstance(x, Int) and x.is_conc() for x in data.elems) else None
                    if ds is None:
                        inc.append("the reported data are %r" % (data,))
                    elif ds != sorted(set(labels)):
                        problems.append("observations labelled %s are summarised as %s; specified: the distinct labels in ascending order %s" % (list(labels), ds, sorted(set(labels))))
        # ---- group sizes one past every size constant the summarizer mentions (caps, cut-offs): only the LAST observation carries
        # (symbolic) extensions — they must still reach the summary; the count may saturate at the type's maximum
        from .dt_graph import size_thresholds
        for c in size_thresholds(F, body)[-2:]:
            n = c + 1

            def mk_big(script):
                h = LinOracles(script)
                h.assume({"min": 1}, lo=0)
                return h

            def run_big(h, n=n):
                it = Interp(F, False, h)
                it.max_steps = 200 * n + 1000000
                me = struct_of(F, adt, {"min_kmer_obs": atom_int(64, "min")})
                empty = Adt(EXTS, 0, [Int(8, False, val=0)])
                items = [Tup([Opaque("K", {"kmer"}), empty, Int(32, False, val=7) if kind == "set" else Opaque("D", {"d"}, {"d": 0})]) for i in range(n - 1)]
                items.append(Tup([Opaque("K", {"kmer"}), exts_sym("elast"), Int(32, False, val=7) if kind == "set" else Opaque("D", {"d"}, {"d": 0})]))
                return it.call_body(body, [Ref(Cell(me, "self")), IterV("owned", (Ref(Cell(VecV(items), "items")), 0, n))])
            for a, out, h in explore(mk_big, run_big):
                rows += 1
                rep.evaluations += 1
                if isinstance(out, tuple) and out and out[0] == "inconclusive":
                    inc.append(out[1])
                    continue
                if isinstance(out, tuple) and out and out[0] == "diverge":
                    problems.append("summarize diverges on a group of %d observations: %s" % (n, out[1]))
                    continue
                ex = out.fields[1]
                ev = ex.fields[0] if isinstance(ex, Adt) else None
                want = [var("elast", j) for j in range(4)] + [var("elast", j) for j in range(4, 8)]
                if not (isinstance(ev, Int) and list(ev.getbits()) == list(exts_sym("elast").fields[0].getbits())):
                    problems.append("in a group of %d observations the extensions of the last observation do not reach the summary (summarised extensions: %r) — "
                                    "observations beyond a cap of %d are not read" % (n, ev, c))
        if problems:
            rep.violated(rule, nm, "%s::summarize: %s" % (nm, problems[0]), site=F.site(body, body["line"]), witness={"kind": "row", "count": len(problems)})
        elif inc:
            rep.inconclusive(rule, nm, "%s::summarize: %s" % (nm, inc[0]))
        else:
            rep.holds(rule, nm, "%s::summarize: accepted ⇔ #observations >= min_kmer_obs (untruncated), extensions = union, data = %s (%d rows)" % (
                nm, "the count" if kind == "count" else "all observed data, sorted and de-duplicated", rows), sample={"rows": rows})
