"""E1 structural rules (CFG / dataflow / who-writes / derive queries)."""
from . import cfg as C
from .facts import callee_of


def is_derived_body(b):
    return bool(b.get("derived")) or "::_::" in b["path"] or b["path"].startswith("_::")


def who_writes_field(F, adt_names, field_idx=None):
    """bodies that construct an aggregate of one of the ADTs, assign through one of their fields, or borrow it mutably.
    returns list of dicts {body, path, kind, line}"""
    out = []
    for b in F.fns.values():
        for bi, bb in enumerate(b["blocks"]):
            if bb.get("cleanup"):
                continue
            for st in bb["s"]:
                if st["k"] != "assign":
                    continue
                rv = st["rv"]
                if rv["k"] == "agg" and rv.get("ak") == "adt" and rv["adt"] in adt_names:
                    out.append({"body": b, "path": b["path"], "kind": "construct", "line": st.get("ln")})
                # write through a field
                for cont, pe in C.place_types(F, b, st["p"]):
                    if isinstance(pe, dict) and "f" in pe and C.adt_name(F, cont) in adt_names and \
                            (field_idx is None or pe["f"] == field_idx) and F.ty(cont).get("k") == "adt":
                        out.append({"body": b, "path": b["path"], "kind": "assign-field", "line": st.get("ln")})
                        break
                if rv["k"] in ("ref", "rawptr") and rv.get("mut"):
                    for cont, pe in C.place_types(F, b, rv["p"]):
                        if isinstance(pe, dict) and "f" in pe and F.ty(cont).get("k") == "adt" and \
                                F.ty(cont)["name"] in adt_names and (field_idx is None or pe["f"] == field_idx):
                            out.append({"body": b, "path": b["path"], "kind": "borrow-mut-field", "line": st.get("ln")})
                            break
            t = bb["t"]
            if t.get("k") == "call":
                for cont, pe in C.place_types(F, b, t["dest"]):
                    if isinstance(pe, dict) and "f" in pe and F.ty(cont).get("k") == "adt" and \
                            F.ty(cont)["name"] in adt_names and (field_idx is None or pe["f"] == field_idx):
                        out.append({"body": b, "path": b["path"], "kind": "call-dest-field", "line": t.get("ln")})
                        break
    return out


def derives(F, adt):
    """trait -> derived? for impls whose self type is the ADT"""
    out = {}
    for im in F.impls:
        if im.get("self_adt") == adt and im.get("trait"):
            out[im["trait"]] = bool(im.get("derived"))
    return out


def check_derives(F, rep, rule, adt, traits, must_exist=True):
    d = derives(F, adt)
    for tr in traits:
        key = "%s/%s" % (adt, tr.split("::")[-1])
        if tr not in d:
            if must_exist:
                rep.violated(rule, key, "%s has no impl of %s (the property relies on it)" % (adt, tr),
                             witness={"kind": "anchor-missing"})
            continue
        if d[tr]:
            rep.holds(rule, key, "%s: %s comes from #[derive] over the declared fields" % (adt, tr.split("::")[-1]))
        else:
            rep.inconclusive(rule, key, "%s: %s is implemented by hand; the derive-based argument does not apply" % (adt, tr))


def field_names(F, adt):
    a = F.adts.get(adt)
    if not a:
        return None
    return [f["name"] for f in a["variants"][0]["fields"]]


def field_vis(F, adt):
    a = F.adts.get(adt)
    if not a:
        return None
    return {f["name"]: f["vis"] for f in a["variants"][0]["fields"]}


# --------------------------------------------------------------------------- k-mer storage writers (C11)

KMER_ADTS = ("kmer::IntKmer", "kmer::VarIntKmer")
KMER_WRITERS_WITH_LEMMA = {
    "Kmer::empty": "L-empty", "Kmer::from_u64": "L-rank", "Kmer::extend_left": "L-ext", "Kmer::extend_right": "L-ext",
    "Mer::set_mut": "L-set", "Mer::set_slice_mut": "L-slice", "Mer::rc": "L-rc",
}


def kmer_storage_writers(F, rep):
    """WHO-WRITES(storage): every function that can produce or modify a k-mer representation is one for which a
    padding-preservation lemma is discharged (C10 lemmas carry PAD(s'))."""
    ws = who_writes_field(F, set(KMER_ADTS), 0)
    seen = {}
    for w in ws:
        b = w["body"]
        if is_derived_body(b):
            continue
        seen.setdefault(b["path"], w)
    n_cov = 0
    for path, w in sorted(seen.items()):
        b = w["body"]
        meth = path.split("::")[-1]
        tr = (b.get("impl_trait") or "").split("::")[-1]
        tm = "%s::%s" % (tr, meth)
        if b.get("impl_self", "").startswith(KMER_ADTS) and tm in KMER_WRITERS_WITH_LEMMA:
            rep.holds("C11.writers", path, "writer of `storage` covered by lemma %s (padding preserved for every instance)" % KMER_WRITERS_WITH_LEMMA[tm])
            n_cov += 1
        elif private_helper_of(F, b, lambda q: q in F.fns and is_covered_kmer_writer(F.fns[q])):
            rep.holds("C11.writers", path, "private helper reached only from writers that carry a padding lemma (it is interpreted inside their lemmas)")
        else:
            rep.inconclusive("C11.writers", path,
                             "function writes/constructs k-mer storage (%s) but no padding-preservation lemma is specified for it" % w["kind"],
                             site=F.site(b, w["line"]))
    if n_cov == 0:
        rep.inconclusive("C11.writers", "none-found", "no writer of k-mer storage was recognised: the who-writes query matched nothing")
    # default methods of the traits must not touch storage: they only exist as generic bodies `Kmer::xyz` / `Mer::xyz`
    for path in seen:
        if path.startswith(("Kmer::", "Mer::", "MerImmut::", "Vmer::")):
            rep.violated("C11.writers", path, "a trait default method accesses k-mer storage directly")


def kmer_default_methods(F, rep):
    """C10 structural rules for the default constructors / renderers: they reach storage only through the
    primitives proved by the lemmas, in lockstep over the first K items."""
    specs = {
        "Kmer::from_bytes": {"set_mut": 1},
        "Kmer::from_ascii": {"set_mut": 1, "base_to_bits": 1},
        "Kmer::to_string": {"get": 1, "bits_to_base": 1, "push": 1},
        "Kmer::kmers_from_bytes": {"set_mut": 1, "extend_right": 1, "push": 2},
        "Kmer::kmers_from_ascii": {"set_mut": 1, "extend_right": 1, "push": 2, "base_to_bits": 2},
    }
    for path, need in specs.items():
        b = F.fns.get(path)
        if b is None:
            rep.violated("C10.defaults", path, "anchor-missing: default method %s not found" % path, witness={"kind": "anchor-missing"})
            continue
        g = C.CFG(b)
        ok = True
        for nm, cnt in need.items():
            sites = g.calls_to(nm)
            in_loop = [s for s in sites if g.loop_of(s[0]) is not None]
            if len(sites) != cnt:
                rep.violated("C10.defaults", "%s/%s" % (path, nm),
                             "%s calls %s %d time(s); the string semantics need exactly %d (one per consumed item)" % (path, nm, len(sites), cnt),
                             site=F.site(b, b["line"]), witness={"kind": "call-count", "callee": nm, "found": len(sites), "spec": cnt})
                ok = False
                continue
            # each per-item call sits in a loop and is executed once per iteration (dominates a latch)
            for bi, t, fr in sites:
                lp = g.loop_of(bi)
                if nm == "push" and cnt == 2 and lp is None:
                    continue  # the push of the first k-mer
                if lp is None:
                    rep.violated("C10.defaults", "%s/%s" % (path, nm), "%s: call to %s is not inside the per-item loop" % (path, nm),
                                 site=F.site(b, t.get("ln")))
                    ok = False
                    continue
                h, body_set, latches = lp
                if not all(g.dominates(bi, l) for l in latches):
                    rep.violated("C10.defaults", "%s/%s" % (path, nm),
                                 "%s: call to %s is skipped on some iteration of the per-item loop" % (path, nm), site=F.site(b, t.get("ln")))
                    ok = False
        if ok:
            rep.holds("C10.defaults", path, "%s feeds %s once per item" % (path, ", ".join(sorted(need))))
    # the take(K) bound
    for path in ("Kmer::from_bytes", "Kmer::from_ascii", "Kmer::kmers_from_bytes", "Kmer::kmers_from_ascii"):
        b = F.fns.get(path)
        if b is None:
            continue
        g = C.CFG(b)
        d = C.Defs(b)
        takes = g.calls_to("take")
        good = False
        for bi, t, fr in takes:
            e = d.expr_operand(t["args"][1])
            if e[0] == "call" and e[1].endswith("Kmer::k"):
                good = True
        if good:
            rep.holds("C10.defaults", path + "/take", "%s consumes exactly the first K::k() items" % path)
        else:
            rep.violated("C10.defaults", path + "/take", "%s does not bound the consumed prefix by K::k()" % path, site=F.site(b, b["line"]))


def dnastring_rc(F, rep):
    pass


CONCURRENCY_PREFIXES = ("std::thread::", "rayon::", "std::sync::atomic", "core::sync::atomic", "std::sync::Mutex", "std::sync::RwLock",
                        "std::sync::mpsc", "crossbeam", "std::sync::Condvar", "std::sync::Barrier")


def own_concurrency(F, rep, rule):
    """the crate starts no threads / uses no shared-memory primitives of its own; the only parallel entry points are the index
    constructors.  New concurrency is not a violation in itself — it is outside what this analysis can decide."""
    hits = []
    par = []
    for b in F.fns.values():
        for bb in b["blocks"]:
            t = bb["t"]
            if t.get("k") != "call":
                continue
            fr = t["f"].get("const", {}).get("fn") if "const" in t["f"] else None
            if not fr:
                continue
            p = fr.get("rpath") or fr.get("path", "")
            if p.startswith(CONCURRENCY_PREFIXES) or fr.get("path", "").startswith(CONCURRENCY_PREFIXES):
                hits.append((b, t, p))
            if p.endswith("new_parallel"):
                par.append((b, t, p))
    if hits:
        b, t, p = hits[0]
        rep.inconclusive(rule, "own-concurrency", "%s uses %s: schedule independence of the crate's own concurrency is not decided by this analysis" % (b["path"], p),
                         site=F.site(b, t.get("ln")))
    else:
        rep.holds(rule, "own-concurrency", "the crate itself spawns no threads and uses no atomics/locks")
    callers = sorted({b["path"] for b, _, _ in par})
    if all(c.endswith("::finish") for c in callers) and callers:
        rep.holds(rule, "parallel-entry-points", "the only parallel constructor calls are in %s" % callers)
    else:
        rep.inconclusive(rule, "parallel-entry-points", "parallel index constructors are called from %s" % callers)


DNA_WRITERS_WITH_LEMMA = {
    "dna_string::DnaString::new": "L-dna-new", "dna_string::DnaString::with_capacity": "L-dna-new", "dna_string::DnaString::blank": "L-dna-new",
    "dna_string::DnaString::clear": "L-dna-new", "dna_string::DnaString::push": "L-dna-push", "dna_string::DnaString::extend": "L-dna-extend",
    "dna_string::DnaString::set_by_addr": "L-dna-set", "dna_string::DnaString::from_bytes": "L-dna-extend",
    "dna_string::DnaString::from_dna_string": "from_dna_string lemma", "dna_string::DnaString::from_acgt_bytes": "from_acgt_bytes lemma",
}


def dnastring_writers(F, rep, rule):
    ws = who_writes_field(F, {"dna_string::DnaString"}, None)
    seen = {}
    for w in ws:
        if is_derived_body(w["body"]):
            continue
        seen.setdefault(w["path"], w)
    n = 0
    for path, w in sorted(seen.items()):
        if path in DNA_WRITERS_WITH_LEMMA:
            rep.holds(rule, "writer/" + path, "writer of the DnaString representation covered by %s" % DNA_WRITERS_WITH_LEMMA[path])
            n += 1
        else:
            rep.inconclusive(rule, "writer/" + path, "%s writes the DnaString representation (%s) and has no invariant-preservation lemma" % (path, w["kind"]),
                             site=F.site(w["body"], w["line"]))
    if n == 0:
        rep.inconclusive(rule, "writer/none-found", "no writer of the DnaString representation was recognised")


def is_covered_kmer_writer(b):
    meth = b["path"].split("::")[-1]
    tr = (b.get("impl_trait") or "").split("::")[-1]
    return b.get("impl_self", "").startswith(KMER_ADTS) and ("%s::%s" % (tr, meth)) in KMER_WRITERS_WITH_LEMMA


def callers_of(F, path):
    out = []
    for b in F.fns.values():
        for bb in b["blocks"]:
            t = bb["t"]
            if t.get("k") == "call" and "const" in t["f"] and "fn" in t["f"]["const"]:
                fr = t["f"]["const"]["fn"]
                if fr.get("rpath") == path or fr.get("path") == path:
                    out.append(b)
                    break
    return out


def private_helper_of(F, b, covered, depth=0):
    """b is not public and every (transitive) caller in the crate is a covered function"""
    if b.get("vis") == "pub" or depth > 4:
        return False
    cs = callers_of(F, b["path"])
    if not cs:
        return False
    for c in cs:
        if covered(c["path"]):
            continue
        if not private_helper_of(F, c, covered, depth + 1):
            return False
    return True


# --------------------------------------------------------------------------- persistent caches (purity of keyed look-ups)

def _locals_in(j, acc):
    """base locals of every place mentioned in an operand / rvalue JSON"""
    if isinstance(j, dict):
        if "l" in j and "p" in j and isinstance(j["l"], int):
            acc.append(j)
            return
        for v in j.values():
            _locals_in(v, acc)
    elif isinstance(j, list):
        for v in j:
            _locals_in(v, acc)


def value_deps(body):
    """flow-insensitive dependence of every local of `body` on its inputs: 'arg:i' (i-th parameter), 'env:k' (k-th captured variable of a
    closure body), as a dict local -> frozenset.  A call's result depends on all its arguments; a reference depends on what it refers to."""
    is_closure = body.get("kind") == "Closure" or "{closure" in body["path"]
    deps = {i: set() for i in range(len(body["locals"]))}
    for i in range(1, body["argc"] + 1):
        if not (is_closure and i == 1):
            deps[i].add("arg:%d" % i)

    def place_deps(pl):
        l = pl["l"]
        if is_closure and l == 1:
            for pe in pl["p"]:
                if isinstance(pe, dict) and "f" in pe:
                    return {"env:%d" % pe["f"]}
            return {"env:*"}
        return set(deps[l])
    edges = []      # (dest local, [places])
    for bb in body["blocks"]:
        for st in bb["s"]:
            if st.get("k") == "assign":
                acc = []
                _locals_in(st.get("rv"), acc)
                edges.append((st["p"]["l"], acc))
        t = bb["t"]
        if t.get("k") == "call" and t.get("dest"):
            acc = []
            _locals_in(t.get("args"), acc)
            edges.append((t["dest"]["l"], acc))
            # a call may also write through a &mut argument: the referent then depends on the other arguments — approximated by making
            # every argument local depend on all arguments
            for a in acc:
                edges.append((a["l"], [x for x in acc if x is not a]))
    changed = True
    while changed:
        changed = False
        for d, srcs in edges:
            if is_closure and d == 1:
                continue
            new = set()
            for pl in srcs:
                new |= place_deps(pl)
            if not new <= deps[d]:
                deps[d] |= new
                changed = True
    return {k: frozenset(v) for k, v in deps.items()}, place_deps


def cache_key_rule(F, rep, rule, roots):
    """A value memoised in state that outlives the call (a `thread_local!`, a once-cell) must be determined by its key: if what is stored under
    a key depends on a run-time parameter of the enclosing function that the key does not depend on, a later call with the same key and a
    different parameter gets the stale value — the function's result then depends on the history of calls.  Decided by dataflow over MIR
    (captured variables of the initialising closure vs. the variables the key is computed from)."""
    # functions reachable from the roots
    seen, st = set(), [r for r in roots if r in F.fns]
    while st:
        p_ = st.pop()
        if p_ in seen:
            continue
        seen.add(p_)
        b = F.fns[p_]
        for bb in b["blocks"]:
            t = bb["t"]
            if t.get("k") == "call" and "const" in t["f"] and "fn" in t["f"]["const"]:
                fr = t["f"]["const"]["fn"]
                for q in (fr.get("rpath"), fr.get("path")):
                    if q and q in F.fns and q not in seen:
                        st.append(q)
            for s_ in bb["s"]:
                rv = s_.get("rv") or {}
                if rv.get("k") == "agg" and rv.get("ak") == "closure" and rv.get("closure") in F.fns:
                    st.append(rv["closure"])
    found = 0
    problems = []

    def closure_ops(body, local):
        for bb in body["blocks"]:
            for s_ in bb["s"]:
                rv = s_.get("rv") or {}
                if s_.get("k") == "assign" and s_["p"]["l"] == local and not s_["p"]["p"] and rv.get("k") == "agg" and rv.get("ak") == "closure":
                    return rv
        return None

    def env_names(cbody):
        out = {}
        for dbg in cbody.get("debug") or []:
            pl = dbg.get("p") or {}
            if pl.get("l") == 1:
                for pe in pl.get("p", []):
                    if isinstance(pe, dict) and "f" in pe:
                        out.setdefault(pe["f"], dbg.get("name"))
                        break
        return out

    for p_ in sorted(seen):
        outer = F.fns[p_]
        for bb in outer["blocks"]:
            t = bb["t"]
            if t.get("k") != "call" or "const" not in t["f"]:
                continue
            fr = t["f"]["const"].get("fn") or {}
            cal = fr.get("path", "")
            if not (cal.startswith("std::thread::LocalKey") and cal.split("::")[-1] in ("with", "try_with", "with_borrow_mut", "with_borrow")):
                continue
            acc = []
            _locals_in(t["args"][1:], acc)
            agg = closure_ops(outer, acc[0]["l"]) if acc else None
            if agg is None or agg.get("closure") not in F.fns:
                continue
            found += 1
            cb = F.fns[agg["closure"]]
            outer_deps, outer_place = value_deps(outer)
            cdeps, cplace = value_deps(cb)
            # which run-time parameters of the outer function does each captured variable depend on?
            cap = {}
            for k, op in enumerate(agg["ops"]):
                a2 = []
                _locals_in(op, a2)
                d = set()
                for pl in a2:
                    d |= outer_place(pl)
                cap[k] = {x for x in d if x.startswith("arg:")}
            names = env_names(cb)
            # inside the closure: keyed insertions
            keys, vals = [], []
            for bb2 in cb["blocks"]:
                t2 = bb2["t"]
                if t2.get("k") != "call" or "const" not in t2["f"]:
                    continue
                f2 = (t2["f"]["const"].get("fn") or {}).get("path", "")
                nm = f2.split("::")[-1]
                a_all = t2.get("args") or []

                def d_of(op):
                    a3 = []
                    _locals_in(op, a3)
                    d = set()
                    for pl in a3:
                        d |= cplace(pl)
                        # a closure value built here: what it captures
                        ag = closure_ops(cb, pl["l"])
                        if ag is not None:
                            for op2 in ag["ops"]:
                                a4 = []
                                _locals_in(op2, a4)
                                for pl2 in a4:
                                    d |= cplace(pl2)
                    return {x for x in d if x.startswith("env:")}
                if ("HashMap" in f2 or "BTreeMap" in f2 or "hash_map" in f2 or "btree_map" in f2) and nm == "entry" and len(a_all) == 2:
                    keys.append(d_of(a_all[1]))
                elif ("HashMap" in f2 or "BTreeMap" in f2) and nm == "insert" and len(a_all) == 3:
                    keys.append(d_of(a_all[1]))
                    vals.append(d_of(a_all[2]))
                elif nm in ("or_insert_with", "or_insert", "or_insert_with_key") and "Entry" in f2 and len(a_all) == 2:
                    vals.append(d_of(a_all[1]))
            if not vals:
                continue
            kd = set().union(*keys) if keys else set()
            for v in vals:
                for e in sorted(v - kd):
                    if e == "env:*":
                        continue
                    k = int(e[4:])
                    params = cap.get(k, set())
                    if params:
                        pn = []
                        for a_ in sorted(params):
                            i_ = int(a_[4:])
                            dn = [d_.get("name") for d_ in outer.get("debug") or [] if d_.get("arg") == i_]
                            pn.append(dn[0] if dn else "parameter %d" % i_)
                        problems.append((outer, "the value stored in thread-local state by %s depends on `%s` (parameter %s of %s), but the key it is stored under does not: "
                                         "a later call with the same key and a different `%s` is answered from the stale entry, so the result depends on "
                                         "which call came first on this thread" % (outer["path"].split("::")[-1], names.get(k, "captured variable %d" % k),
                                                                                   ", ".join(pn), outer["path"], names.get(k, "value"))))
    if problems:
        body, msg = problems[0]
        rep.violated(rule, "persistent-cache", msg, site=F.site(body, body["line"]), witness={"kind": "cache-key", "count": len(problems)})
    else:
        rep.holds(rule, "persistent-cache", "no value memoised in thread-local state depends on a run-time parameter missing from its key (%d functions reachable from "
                  "the entry points inspected, %d thread-local accesses)" % (len(seen), found), nontrivial=bool(found))
