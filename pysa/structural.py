"""E1 structural rules (CFG / dataflow / who-writes / derive queries)."""
from . import cfg as C
from .facts import callee_of


def is_derived_body(b):
    return bool(b.get("derived")) or "::_::" in b["path"] or b["path"].startswith("_::")


def who_writes_field(F, adt_names, field_idx=None):
    """bodies that construct an aggregate of one of the ADTs, assign through one of their fields, or borrow it mutably.
    returns list of dicts {body, path, kind, line}"""
    out = []
    for b in F.fns.values():
        for bi, bb in enumerate(b["blocks"]):
            if bb.get("cleanup"):
                continue
            for st in bb["s"]:
                if st["k"] != "assign":
                    continue
                rv = st["rv"]
                if rv["k"] == "agg" and rv.get("ak") == "adt" and rv["adt"] in adt_names:
                    out.append({"body": b, "path": b["path"], "kind": "construct", "line": st.get("ln")})
                # write through a field
                for cont, pe in C.place_types(F, b, st["p"]):
                    if isinstance(pe, dict) and "f" in pe and C.adt_name(F, cont) in adt_names and \
                            (field_idx is None or pe["f"] == field_idx) and F.ty(cont).get("k") == "adt":
                        out.append({"body": b, "path": b["path"], "kind": "assign-field", "line": st.get("ln")})
                        break
                if rv["k"] in ("ref", "rawptr") and rv.get("mut"):
                    for cont, pe in C.place_types(F, b, rv["p"]):
                        if isinstance(pe, dict) and "f" in pe and F.ty(cont).get("k") == "adt" and \
                                F.ty(cont)["name"] in adt_names and (field_idx is None or pe["f"] == field_idx):
                            out.append({"body": b, "path": b["path"], "kind": "borrow-mut-field", "line": st.get("ln")})
                            break
            t = bb["t"]
            if t.get("k") == "call":
                for cont, pe in C.place_types(F, b, t["dest"]):
                    if isinstance(pe, dict) and "f" in pe and F.ty(cont).get("k") == "adt" and \
                            F.ty(cont)["name"] in adt_names and (field_idx is None or pe["f"] == field_idx):
                        out.append({"body": b, "path": b["path"], "kind": "call-dest-field", "line": t.get("ln")})
                        break
    return out


def derives(F, adt):
    """trait -> derived? for impls whose self type is the ADT"""
    out = {}
    for im in F.impls:
        if im.get("self_adt") == adt and im.get("trait"):
            out[im["trait"]] = bool(im.get("derived"))
    return out


def check_derives(F, rep, rule, adt, traits, must_exist=True):
    d = derives(F, adt)
    for tr in traits:
        key = "%s/%s" % (adt, tr.split("::")[-1])
        if tr not in d:
            if must_exist:
                rep.violated(rule, key, "%s has no impl of %s (the property relies on it)" % (adt, tr),
                             witness={"kind": "anchor-missing"})
            continue
        if d[tr]:
            rep.holds(rule, key, "%s: %s comes from #[derive] over the declared fields" % (adt, tr.split("::")[-1]))
        else:
            rep.inconclusive(rule, key, "%s: %s is implemented by hand; the derive-based argument does not apply" % (adt, tr))


def field_names(F, adt):
    a = F.adts.get(adt)
    if not a:
        return None
    return [f["name"] for f in a["variants"][0]["fields"]]


def field_vis(F, adt):
    a = F.adts.get(adt)
    if not a:
        return None
    return {f["name"]: f["vis"] for f in a["variants"][0]["fields"]}


# --------------------------------------------------------------------------- k-mer storage writers (C11)

KMER_ADTS = ("kmer::IntKmer", "kmer::VarIntKmer")
KMER_WRITERS_WITH_LEMMA = {
    "Kmer::empty": "L-empty", "Kmer::from_u64": "L-rank", "Kmer::extend_left": "L-ext", "Kmer::extend_right": "L-ext",
    "Mer::set_mut": "L-set", "Mer::set_slice_mut": "L-slice", "Mer::rc": "L-rc",
}


def kmer_storage_writers(F, rep):
    """WHO-WRITES(storage): every function that can produce or modify a k-mer representation is one for which a
    padding-preservation lemma is discharged (C10 lemmas carry PAD(s'))."""
    ws = who_writes_field(F, set(KMER_ADTS), 0)
    seen = {}
    for w in ws:
        b = w["body"]
        if is_derived_body(b):
            continue
        seen.setdefault(b["path"], w)
    n_cov = 0
    for path, w in sorted(seen.items()):
        b = w["body"]
        meth = path.split("::")[-1]
        tr = (b.get("impl_trait") or "").split("::")[-1]
        tm = "%s::%s" % (tr, meth)
        if b.get("impl_self", "").startswith(KMER_ADTS) and tm in KMER_WRITERS_WITH_LEMMA:
            rep.holds("C11.writers", path, "writer of `storage` covered by lemma %s (padding preserved for every instance)" % KMER_WRITERS_WITH_LEMMA[tm])
            n_cov += 1
        elif private_helper_of(F, b, lambda q: q in F.fns and is_covered_kmer_writer(F.fns[q])):
            rep.holds("C11.writers", path, "private helper reached only from writers that carry a padding lemma (it is interpreted inside their lemmas)")
        else:
            rep.inconclusive("C11.writers", path,
                             "function writes/constructs k-mer storage (%s) but no padding-preservation lemma is specified for it" % w["kind"],
                             site=F.site(b, w["line"]))
    if n_cov == 0:
        rep.inconclusive("C11.writers", "none-found", "no writer of k-mer storage was recognised: the who-writes query matched nothing")
    # default methods of the traits must not touch storage: they only exist as generic bodies `Kmer::xyz` / `Mer::xyz`
    for path in seen:
        if path.startswith(("Kmer::", "Mer::", "MerImmut::", "Vmer::")):
            rep.violated("C11.writers", path, "a trait default method accesses k-mer storage directly")


def kmer_default_methods(F, rep):
    """C10 structural rules for the default constructors / renderers: they reach storage only through the
    primitives proved by the lemmas, in lockstep over the first K items."""
    specs = {
        "Kmer::from_bytes": {"set_mut": 1},
        "Kmer::from_ascii": {"set_mut": 1, "base_to_bits": 1},
        "Kmer::to_string": {"get": 1, "bits_to_base": 1, "push": 1},
        "Kmer::kmers_from_bytes": {"set_mut": 1, "extend_right": 1, "push": 2},
        "Kmer::kmers_from_ascii": {"set_mut": 1, "extend_right": 1, "push": 2, "base_to_bits": 2},
    }
    for path, need in specs.items():
        b = F.fns.get(path)
        if b is None:
            rep.violated("C10.defaults", path, "anchor-missing: default method %s not found" % path, witness={"kind": "anchor-missing"})
            continue
        g = C.CFG(b)
        ok = True
        for nm, cnt in need.items():
            sites = g.calls_to(nm)
            in_loop = [s for s in sites if g.loop_of(s[0]) is not None]
            if len(sites) != cnt:
                rep.violated("C10.defaults", "%s/%s" % (path, nm),
                             "%s calls %s %d time(s); the string semantics need exactly %d (one per consumed item)" % (path, nm, len(sites), cnt),
                             site=F.site(b, b["line"]), witness={"kind": "call-count", "callee": nm, "found": len(sites), "spec": cnt})
                ok = False
                continue
            # each per-item call sits in a loop and is executed once per iteration (dominates a latch)
            for bi, t, fr in sites:
                lp = g.loop_of(bi)
                if nm == "push" and cnt == 2 and lp is None:
                    continue  # the push of the first k-mer
                if lp is None:
                    rep.violated("C10.defaults", "%s/%s" % (path, nm), "%s: call to %s is not inside the per-item loop" % (path, nm),
                                 site=F.site(b, t.get("ln")))
                    ok = False
                    continue
                h, body_set, latches = lp
                if not all(g.dominates(bi, l) for l in latches):
                    rep.violated("C10.defaults", "%s/%s" % (path, nm),
                                 "%s: call to %s is skipped on some iteration of the per-item loop" % (path, nm), site=F.site(b, t.get("ln")))
                    ok = False
        if ok:
            rep.holds("C10.defaults", path, "%s feeds %s once per item" % (path, ", ".join(sorted(need))))
    # the take(K) bound
    for path in ("Kmer::from_bytes", "Kmer::from_ascii", "Kmer::kmers_from_bytes", "Kmer::kmers_from_ascii"):
        b = F.fns.get(path)
        if b is None:
            continue
        g = C.CFG(b)
        d = C.Defs(b)
        takes = g.calls_to("take")
        good = False
        for bi, t, fr in takes:
            e = d.expr_operand(t["args"][1])
            if e[0] == "call" and e[1].endswith("Kmer::k"):
                good = True
        if good:
            rep.holds("C10.defaults", path + "/take", "%s consumes exactly the first K::k() items" % path)
        else:
            rep.violated("C10.defaults", path + "/take", "%s does not bound the consumed prefix by K::k()" % path, site=F.site(b, b["line"]))


def dnastring_rc(F, rep):
    pass


CONCURRENCY_PREFIXES = ("std::thread::", "rayon::", "std::sync::atomic", "core::sync::atomic", "std::sync::Mutex", "std::sync::RwLock",
                        "std::sync::mpsc", "crossbeam", "std::sync::Condvar", "std::sync::Barrier")


def own_concurrency(F, rep, rule):
    """the crate starts no threads / uses no shared-memory primitives of its own; the only parallel entry points are the index
    constructors.  New concurrency is not a violation in itself — it is outside what this analysis can decide."""
    hits = []
    par = []
    for b in F.fns.values():
        for bb in b["blocks"]:
            t = bb["t"]
            if t.get("k") != "call":
                continue
            fr = t["f"].get("const", {}).get("fn") if "const" in t["f"] else None
            if not fr:
                continue
            p = fr.get("rpath") or fr.get("path", "")
            if p.startswith(CONCURRENCY_PREFIXES) or fr.get("path", "").startswith(CONCURRENCY_PREFIXES):
                hits.append((b, t, p))
            if p.endswith("new_parallel"):
                par.append((b, t, p))
    if hits:
        b, t, p = hits[0]
        rep.inconclusive(rule, "own-concurrency", "%s uses %s: schedule independence of the crate's own concurrency is not decided by this analysis" % (b["path"], p),
                         site=F.site(b, t.get("ln")))
    else:
        rep.holds(rule, "own-concurrency", "the crate itself spawns no threads and uses no atomics/locks")
    callers = sorted({b["path"] for b, _, _ in par})
    if all(c.endswith("::finish") for c in callers) and callers:
        rep.holds(rule, "parallel-entry-points", "the only parallel constructor calls are in %s" % callers)
    else:
        rep.inconclusive(rule, "parallel-entry-points", "parallel index constructors are called from %s" % callers)


DNA_WRITERS_WITH_LEMMA = {
    "dna_string::DnaString::new": "L-dna-new", "dna_string::DnaString::with_capacity": "L-dna-new", "dna_string::DnaString::blank": "L-dna-new",
    "dna_string::DnaString::clear": "L-dna-new", "dna_string::DnaString::push": "L-dna-push", "dna_string::DnaString::extend": "L-dna-extend",
    "dna_string::DnaString::set_by_addr": "L-dna-set", "dna_string::DnaString::from_bytes": "L-dna-extend",
    "dna_string::DnaString::from_dna_string": "from_dna_string lemma", "dna_string::DnaString::from_acgt_bytes": "from_acgt_bytes lemma",
}


def dnastring_writers(F, rep, rule):
    ws = who_writes_field(F, {"dna_string::DnaString"}, None)
    seen = {}
    for w in ws:
        if is_derived_body(w["body"]):
            continue
        seen.setdefault(w["path"], w)
    n = 0
    for path, w in sorted(seen.items()):
        if path in DNA_WRITERS_WITH_LEMMA:
            rep.holds(rule, "writer/" + path, "writer of the DnaString representation covered by %s" % DNA_WRITERS_WITH_LEMMA[path])
            n += 1
        else:
            rep.inconclusive(rule, "writer/" + path, "%s writes the DnaString representation (%s) and has no invariant-preservation lemma" % (path, w["kind"]),
                             site=F.site(w["body"], w["line"]))
    if n == 0:
        rep.inconclusive(rule, "writer/none-found", "no writer of the DnaString representation was recognised")


def is_covered_kmer_writer(b):
    meth = b["path"].split("::")[-1]
    tr = (b.get("impl_trait") or "").split("::")[-1]
    return b.get("impl_self", "").startswith(KMER_ADTS) and ("%s::%s" % (tr, meth)) in KMER_WRITERS_WITH_LEMMA


def callers_of(F, path):
    out = []
    for b in F.fns.values():
        for bb in b["blocks"]:
            t = bb["t"]
            if t.get("k") == "call" and "const" in t["f"] and "fn" in t["f"]["const"]:
                fr = t["f"]["const"]["fn"]
                if fr.get("rpath") == path or fr.get("path") == path:
                    out.append(b)
                    break
    return out


def private_helper_of(F, b, covered, depth=0):
    """b is not public and every (transitive) caller in the crate is a covered function"""
    if b.get("vis") == "pub" or depth > 4:
        return False
    cs = callers_of(F, b["path"])
    if not cs:
        return False
    for c in cs:
        if covered(c["path"]):
            continue
        if not private_helper_of(F, c, covered, depth + 1):
            return False
    return True
