"""E3 — exports (C20): the writers are interpreted abstractly on scripted small graphs; `write!` templates are decoded from
the fmt::Arguments byte encoding in MIR, so the emitted text is reconstructed exactly (placeholders become class samples).
JSON output must parse and list the right nodes / links; GFA output must follow the line grammar and list every adjacency
exactly once with the right orientations."""
import itertools
import json as pyjson
import re

from . import bv, cfg as C
from .bv import Int, mkbool, ZERO, ONE, TOP, var, atom_int
from .absint import (Adt, Arr, Cell, Closure, Diverge, FnItem, Harness, Interp, Opaque, Ref, Tup, Undecided,
                     Unsupported, VecV, UNINIT, tags_of, with_tags)
from .dt import (DIR, LEFT, RIGHT, Oracles, dir_name, dir_of, dir_v, is_print_call)
from .dt_tables import EXTS, recv, struct_of
from .dt_graph import graph_value, pub_fn
from .models import IterV, some, none, deref_val
from . import structural

RESULT = "std::result::Result"
OPTION = "std::option::Option"


def decode_template(bs):
    """fmt::Arguments template bytes -> list of ('lit', str) | ('arg', index or None)"""
    out = []
    i = 0
    nxt = 0
    while i < len(bs):
        b = bs[i]
        if b == 0:
            break
        if b & 0xC0 == 0xC0:
            i += 1
            if b & 1:
                i += 4
            if b & 2:
                i += 2
            if b & 4:
                i += 2
            idx = None
            if b & 8:
                idx = bs[i] | (bs[i + 1] << 8)
                i += 2
            if idx is None:
                idx = nxt
            nxt = idx + 1
            out.append(("arg", idx))
            continue
        if b == 0x80:
            ln = bs[i + 1] | (bs[i + 2] << 8)
            i += 3
        else:
            ln = b
            i += 1
        out.append(("lit", bytes(bs[i:i + ln]).decode("utf-8", "replace")))
        i += ln
    return out


class FmtArg:
    __slots__ = ("kind", "val")

    def __init__(self, kind, val):
        self.kind = kind
        self.val = val


class FmtArgs:
    __slots__ = ("parts",)

    def __init__(self, parts):
        self.parts = parts


def bytes_of(it, r):
    v = r
    n = 0
    ref = None
    while isinstance(v, Ref) and n < 3:
        ref = v
        v = it.read(v.cell, v.path)
        n += 1
    if isinstance(v, (Arr, VecV)):
        off = ref.off if isinstance(ref, Ref) else 0
        ln = ref.len if isinstance(ref, Ref) and ref.len is not None else len(v.elems) - off
        if not all(isinstance(e, Int) and e.is_conc() for e in v.elems[off:off + ln]):
            return None
        return [e.val for e in v.elems[off:off + ln]]
    return None


class WriterOracles(Oracles):
    """captures everything written through io::Write / fmt"""
    interpret_fmt = True

    def __init__(self, script=()):
        Oracles.__init__(self, script)
        self.out = []

    def render_arg(self, it, a):
        v = a.val
        n_ = 0
        while isinstance(v, Ref) and n_ < 3 and not isinstance(it.read(v.cell, v.path), (Arr, VecV)):
            v = it.read(v.cell, v.path)     # a reference to a modelled value (an id, a node's sequence …)
            n_ += 1
        if isinstance(v, Int) and v.is_conc():
            return str(v.val)
        if isinstance(v, VecV) and all(isinstance(e, Int) and e.is_conc() for e in v.elems):
            return "".join(chr(e.val) for e in v.elems)
        if isinstance(v, (Ref, Arr)):
            b = bytes_of(it, v)
            if b is not None and all(x is not None for x in b):
                return bytes(b).decode("utf-8", "replace")
        if isinstance(v, Opaque):
            if "formatted" in v.tags:
                return v.info.get("text", "")
            if "json-value" in v.tags:
                return '{"v":[1,"x"]}'
            if "dna-text" in v.tags:
                return "ACGT"
            if "seq" in v.tags:
                # a DnaStringSlice formatted directly: what its Display / Debug impl writes, for short and for long nodes
                from .lemmas import slice_fmt_faithful
                tr = {"display": "Display", "debug": "Debug"}.get(a.kind)
                if tr is None:
                    return "\u0001<DnaStringSlice formatted with %s>" % a.kind
                ok, why = slice_fmt_faithful(it.facts, tr)[:2]
                raw = (slice_fmt_faithful(it.facts, tr) + ("",))[2]
                if ok:
                    return "ACGT"
                if ok is None:
                    return "\u0001<%s of a DnaStringSlice: %s>" % (tr, why)
                # (plain text without quotes: inside a JSON string it is harmless, as a GFA sequence field it is not a sequence)
                # followed by the text actually written for such a node, verbatim: whatever it contains lands in the export
                return "@NOT-THE-SEQUENCE: written with the slice's %s form, which is not its base sequence - %s@%s" % (
                    tr, why.replace('"', "").replace("\\", "").replace("'", ""), raw)
            if "tag-string" in v.tags:
                return "XX:Z:tag"
            if "map-key" in v.tags:
                return "extra_key"
        if isinstance(v, Int):
            return "7"
        if isinstance(v, Adt) and a.kind in ("display", "debug"):
            # a value of one of the crate's own types with a hand-written Display / Debug impl (a private record type of the writer …):
            # what that impl writes, obtained by interpreting it with this same capture
            tr = "Display" if a.kind == "display" else "Debug"
            F_ = it.facts
            cands = [b for k_, b in F_.fns.items() if k_.startswith("<" + v.name) and k_.endswith("std::fmt::%s>::fmt" % tr) and not b.get("derived")]
            if len(cands) == 1:
                saved = self.out
                self.out = []
                try:
                    r_ = it.call_body(cands[0], [Ref(Cell(v, "fmt-self")), Ref(Cell(Opaque("Formatter", {"fmt"}), "f"))])
                    txt = "".join(self.out)
                finally:
                    self.out = saved
                if isinstance(r_, Adt) and r_.variant == 0:
                    return txt
                return "\u0001<%s of %s returned %r>" % (tr, v.name, r_)
        return "\u0001<unclassified %r>" % (v,)

    def emit(self, it, fa, target=None):
        s = ""
        for p in fa.parts:
            if p[0] == "lit":
                s += p[1]
            else:
                s += self.render_arg(it, p[1])
        self.put(it, s, target)

    def put(self, it, text, target=None):
        """text written through a writer: into the in-memory buffer when the writer IS one (a Vec<u8> / String the code assembles before
        handing it on), otherwise to the captured output"""
        buf = self.buffer_of(it, target)
        if buf is None:
            self.out.append(text)
            return
        r, v = buf
        it.write(r.cell, r.path, VecV(list(v.elems) + [Int(8, False, val=b) for b in text.encode("utf-8")]))

    def buffer_of(self, it, target):
        r = target
        n = 0
        while isinstance(r, Ref) and n < 4:
            v = it.read(r.cell, r.path)
            if isinstance(v, VecV) and r.len is None and not r.off and all(isinstance(e, Int) for e in v.elems):
                return r, v
            r = v
            n += 1
        return None

    def on_call(self, it, fn, args, dest_ty, term, caller):
        path = fn.get("path", "")
        name = path.split("::")[-1]
        tr = fn.get("trait", "")
        if path.startswith("core::fmt::rt::Argument") or path.startswith("std::fmt::rt::Argument"):
            if name.startswith("new_"):
                return FmtArg(name[4:], recv(it, args[0]))
        if (path.startswith("std::fmt::Arguments") or path.startswith("core::fmt::Arguments")) and name == "from_str":
            b = bytes_of(it, args[0])
            return FmtArgs([("lit", bytes(b).decode("utf-8", "replace"))])
        if (path.startswith("std::fmt::Arguments") or path.startswith("core::fmt::Arguments")) and name == "new":
            tb = bytes_of(it, args[0])
            av = recv(it, args[1])
            argv = list(av.elems) if isinstance(av, Arr) else []
            parts = []
            for p in decode_template(tb):
                if p[0] == "lit":
                    parts.append(p)
                else:
                    parts.append(("arg", argv[p[1]] if p[1] < len(argv) else FmtArg("?", Opaque("?"))))
            return FmtArgs(parts)
        if path in ("std::fmt::format", "core::fmt::format", "alloc::fmt::format") and len(args) == 1 and isinstance(args[0], FmtArgs):
            txt = ""
            for p_ in args[0].parts:
                txt += p_[1] if p_[0] == "lit" else self.render_arg(it, p_[1])
            return Opaque("std::string::String", {"formatted"}, {"text": txt})
        if name == "fmt" and tr.split("::")[-1] in ("Display", "Debug") and len(args) == 2 and isinstance(recv(it, args[0]), (Opaque, Int)):
            # `fmt::Display::fmt(&x, f)` called directly on a value the harness models (a node's sequence, an id …): same as `write!(f, "{}", x)`
            self.out.append(self.render_arg(it, FmtArg("display" if tr.endswith("Display") else "debug", recv(it, args[0]))))
            return Adt(RESULT, 0, [Tup([])])
        if path.startswith("core::fmt::Formatter") or path.startswith("std::fmt::Formatter"):
            # writes through a Formatter (inside a Display / Debug impl that is being interpreted)
            if name == "write_fmt" and len(args) == 2 and isinstance(args[1], FmtArgs):
                self.emit(it, args[1])
                return Adt(RESULT, 0, [Tup([])])
            if name in ("write_str", "write_char", "pad") and len(args) == 2:
                self.out.append(self.render_arg(it, FmtArg("display", args[1])))
                return Adt(RESULT, 0, [Tup([])])
        if name == "write_fmt" and (tr.endswith("io::Write") or tr.endswith("fmt::Write")):
            fa = args[1]
            if isinstance(fa, FmtArgs):
                self.emit(it, fa, args[0])
            else:
                self.put(it, "\u0001<unknown write>", args[0])
            return Adt(RESULT, 0, [Tup([])])
        if name == "write" and tr.endswith("io::Write") and len(args) == 2:
            # io::Write::write may accept only part of the buffer; this writer (a legal one) takes ONE byte per call and says so.  Code that
            # uses the count (write_all, or a loop over the rest) still delivers everything; code that ignores it loses the rest.
            b = bytes_of(it, args[1])
            if b is None:
                self.put(it, "\u0001<unknown write>", args[0])
                return Adt(RESULT, 0, [Int(64, False, val=0)])
            if not b:
                return Adt(RESULT, 0, [Int(64, False, val=0)])
            self.put(it, bytes(b[:1]).decode("utf-8", "replace"), args[0])
            return Adt(RESULT, 0, [Int(64, False, val=1)])
        if name in ("write_all", "write_str") and len(args) == 2:
            b = bytes_of(it, args[1])
            if b is not None:
                txt = bytes(b).decode("utf-8", "replace")
            else:
                # the bytes of a modelled text value (a node's sequence text, a tag string, a formatted piece)
                v_ = recv(it, args[1])
                txt = self.render_arg(it, FmtArg("display", v_)) if isinstance(v_, Opaque) and (v_.tags & {"dna-text", "formatted", "tag-string", "json-value"}) else "\u0001<unknown write>"
            self.put(it, txt, args[0])
            return Adt(RESULT, 0, [Tup([])])
        if path == "serde_json::to_writer":
            self.put(it, '{"v":[1,"x"]}', args[0] if args else None)
            return Adt(RESULT, 0, [Tup([])])
        if path.startswith("std::fs::File") and name == "create":
            return Adt(RESULT, 0, [Opaque("File", {"file"})])
        if name == "flush" and tr.endswith("io::Write") and len(args) == 1:
            return Adt(RESULT, 0, [Tup([])])
        if name == "to_string" and tr.endswith("ToString") and len(args) == 1:
            v_ = recv(it, args[0])
            if isinstance(v_, Int) and v_.is_conc() and v_.kind != "bool":
                return VecV([Int(8, False, val=c) for c in str(v_.sval() if v_.signed else v_.val).encode()])
        # a file opened through OpenOptions: an export must replace what the file held (File::create = write + create + truncate)
        if path.startswith("std::fs::OpenOptions"):
            if name == "new":
                return Opaque("OpenOptions", {"open-options"}, {"flags": ()})
            if name in ("read", "write", "append", "truncate", "create", "create_new") and len(args) == 2 and isinstance(args[0], Ref):
                oo = it.read(args[0].cell, args[0].path)
                b = args[1]
                if isinstance(oo, Opaque) and "open-options" in oo.tags and isinstance(b, Int) and b.is_conc():
                    fl = dict(oo.info.get("flags", ()))
                    fl[name] = bool(b.val)
                    it.write(args[0].cell, args[0].path, Opaque("OpenOptions", {"open-options"}, {"flags": tuple(sorted(fl.items()))}))
                    return args[0]
                raise Undecided("OpenOptions::%s with an undetermined flag" % name)
            if name == "open" and args:
                oo = recv(it, args[0])
                if isinstance(oo, Opaque) and "open-options" in oo.tags:
                    fl = dict(oo.info.get("flags", ()))
                    if fl.get("append"):
                        self.sink_problem = "the output file is opened in append mode: an existing file keeps its content and the export is added after it"
                    elif not (fl.get("write") and (fl.get("truncate") or fl.get("create_new"))):
                        self.sink_problem = ("the output file is opened with %s — without truncation: an existing longer file keeps its tail after the export "
                                             "(stale lines follow the new ones)" % (", ".join(k for k, v in sorted(fl.items()) if v) or "no flags"))
                    return Adt(RESULT, 0, [Opaque("File", {"file"})])
        if "BufWriter" in path and name == "new":
            return Opaque("BufWriter", {"file"})
        return NotImplemented


class ExportOracles(WriterOracles):
    """a scripted graph: n nodes, explicit l/r edge lists"""
    sink_problem = None

    def __init__(self, n, l_edges, r_edges, K=5):
        WriterOracles.__init__(self)
        self.n = n
        self.le = l_edges
        self.re = r_edges
        self.K = K

    def node_id(self, n):
        v = n.fields[0] if isinstance(n, Adt) else None
        return v.val if isinstance(v, Int) and v.is_conc() else None

    def edges(self, lst):
        return VecV([Tup([Int(64, False, val=t), dir_v(d), mkbool(f)]) for (t, d, f) in lst])

    def on_call(self, it, fn, args, dest_ty, term, caller):
        path = fn.get("path", "")
        name = path.split("::")[-1]
        tr = fn.get("trait", "")
        if path.startswith("graph::DebruijnGraph") and name == "len":
            return Int(64, False, val=self.n)
        if name == "k" and tr == "Kmer":
            return Int(64, False, val=self.K)
        if path.startswith("graph::Node::<"):
            nd = recv(it, args[0])
            i = self.node_id(nd)
            if name == "sequence":
                return Opaque("DnaStringSlice", {"seq"}, {"node": i})
            if name == "data":
                return Ref(Cell(Opaque("D", {"data"}, {"node": i}), "data"))
            if name in ("l_edges", "r_edges", "edges"):
                d = LEFT if name == "l_edges" else (RIGHT if name == "r_edges" else dir_of(args[1]))
                return self.edges((self.le if d == LEFT else self.re)[i])
        if tr == "Mer" and name == "len" and args and isinstance(recv(it, args[0]), Opaque) and "seq" in recv(it, args[0]).tags:
            return Int(64, False, val=self.K + 2)
        if path.endswith("DnaStringSlice::<'a>::to_dna_string") or (name == "to_dna_string"):
            return Opaque("String", {"dna-text"})
        if name == "ascii" and args and isinstance(recv(it, args[0]), Opaque) and "seq" in recv(it, args[0]).tags:
            return VecV([Int(8, False, val=c) for c in b"ACGT"])      # the node's sequence as ASCII bytes (same placeholder as the text form)
        if name in ("call", "call_mut", "call_once") and isinstance(recv(it, args[0]), Opaque):
            f = recv(it, args[0])
            if "fmt-fn" in f.tags:
                return Opaque("serde_json::Value", {"json-value"})
            if "tag-fn" in f.tags:
                return Opaque("String", {"tag-string"})
        if path.startswith("serde_json::Value") and name in ("as_object", "as_object_mut") and len(args) == 1 and isinstance(args[0], Ref):
            v_ = it.read(args[0].cell, args[0].path)
            if isinstance(v_, Adt) and v_.variant is not None:
                if v_.variant == 5:
                    return some(Ref(args[0].cell, tuple(args[0].path) + (("f", 0),)))
                return none()
        if path.startswith("serde_json::Map") and name in ("len", "is_empty") and len(args) == 1 and isinstance(recv(it, args[0]), Opaque) \
                and "map" in recv(it, args[0]).tags:
            k = recv(it, args[0]).info.get("entries", 0)
            return Int(64, False, val=k) if name == "len" else mkbool(k == 0)
        if (path.startswith("serde_json::Map") and name == "iter") or (name == "into_iter" and args and isinstance(recv(it, args[0]), Opaque) and "map" in recv(it, args[0]).tags):
            m = recv(it, args[0])
            k = m.info.get("entries", 0) if isinstance(m, Opaque) else 0
            items = [Tup([Ref(Cell(Opaque("String", {"map-key"}), "k")), Ref(Cell(Opaque("serde_json::Value", {"json-value"}), "v"))]) for _ in range(k)]
            return IterV("owned", (Ref(Cell(VecV(items), "map")), 0, len(items)))
        return WriterOracles.on_call(self, it, fn, args, dest_ty, term, caller)


def json_tables(F, rep, rule="C20.1"):
    try:
        body = pub_fn(F, "to_json_rest")
    except Unsupported as e:
        rep.violated(rule, "to_json_rest", str(e), witness={"kind": "anchor-missing"})
        return
    VALUE = "serde_json::Value"
    problems = []
    inc = []
    rows = 0
    maxn = 3
    rests = [("None", lambda: Adt(OPTION, 0, [])),
             ("Object{}", lambda: Adt(OPTION, 1, [Adt(VALUE, 5, [Opaque("Map", {"map"}, {"entries": 0})])])),
             ("Object{1}", lambda: Adt(OPTION, 1, [Adt(VALUE, 5, [Opaque("Map", {"map"}, {"entries": 1})])])),
             ("Object{2}", lambda: Adt(OPTION, 1, [Adt(VALUE, 5, [Opaque("Map", {"map"}, {"entries": 2})])])),
             ("Null", lambda: Adt(OPTION, 1, [Adt(VALUE, 0, [])]))]
    for n in range(0, maxn + 1):
        for ecounts in itertools.product((0, 1, 2), repeat=n):
            for rname, rmk in (rests if n <= 2 else rests[:1]):
                rows += 1
                rep.evaluations += 1
                re_ = {i: [((i + j + 1) % max(n, 1), (LEFT, RIGHT)[j % 2], False) for j in range(ecounts[i])] for i in range(n)}
                h = ExportOracles(n, {i: [] for i in range(n)}, re_)
                it = Interp(F, False, h)
                g = graph_value(F, False)
                wcell = Cell(Opaque("W", {"writer"}), "writer")
                try:
                    it.call_body(body, [Ref(Cell(g, "graph")), Opaque("F", {"fmt-fn"}), Ref(wcell), rmk()])
                except (Undecided, Unsupported) as e:
                    inc.append("%d nodes, right-edge counts %s, rest=%s: %s" % (n, ecounts, rname, e))
                    continue
                except Diverge as e:
                    problems.append("%d nodes, right-edge counts %s, rest=%s: to_json_rest diverges: %s" % (n, ecounts, rname, e))
                    continue
                text = "".join(h.out)
                if "\u0001" in text:
                    inc.append("an emitted piece could not be classified: %r" % text[:200])
                    continue
                try:
                    doc = pyjson.loads(text)
                except ValueError as e:
                    problems.append("a graph with %d node(s), right-edge counts %s and rest=%s is exported as text that is not JSON (%s): %s" % (
                        n, list(ecounts), rname, e, re.sub(r"\s+", " ", text)[:260]))
                    continue
                ok = isinstance(doc, dict) and isinstance(doc.get("nodes"), list) and isinstance(doc.get("links"), list)
                if not ok:
                    problems.append("the JSON document lacks the nodes / links lists: %s" % text[:160])
                    continue
                if [nd.get("id") for nd in doc["nodes"]] != [str(i) for i in range(n)]:
                    problems.append("%d nodes: the nodes list has ids %s" % (n, [nd.get("id") for nd in doc["nodes"]]))
                want_links = [(str(i), str(t), "L" if d == LEFT else "R") for i in range(n) for (t, d, f) in re_[i]]
                got_links = [(l.get("source"), l.get("target"), l.get("D")) for l in doc["links"]]
                if got_links != want_links:
                    problems.append("right-edge counts %s: links listed %s; every right-going link must be listed once: %s" % (list(ecounts), got_links, want_links))
    if problems:
        rep.violated(rule, "to_json_rest", "JSON export: %s" % problems[0], site=F.site(body, body["line"]), witness={"kind": "tokens", "count": len(problems)})
    elif inc:
        rep.inconclusive(rule, "to_json_rest", "JSON export: %s" % inc[0])
    else:
        rep.holds(rule, "to_json_rest", "JSON export: for every graph shape with up to %d nodes and 0–2 right-going links per node (and the five kinds of `rest`), the emitted text "
                  "(templates decoded from MIR) parses as JSON and lists every node and every right-going link once (%d shapes)" % (maxn, rows), sample={"shapes": rows})


ENDPOINTS = [(0, LEFT), (0, RIGHT), (1, LEFT), (1, RIGHT)]


def adjacency_graphs(max_adj=3):
    pairs = [(a, b) for i, a in enumerate(ENDPOINTS) for b in ENDPOINTS[i:]]
    for r in range(0, max_adj + 1):
        for sub in itertools.combinations(pairs, r):
            yield sub


def gfa_tables(F, rep, rule="C20.2"):
    line_s = re.compile(r"^S\t\d+\t[ACGT]+(\t\S.*)?$")
    line_l = re.compile(r"^L\t(\d+)\t([+-])\t(\d+)\t([+-])\t(\d+)M$")
    for fname in ("write_gfa", "to_gfa", "to_gfa_with_tags"):
        try:
            body = pub_fn(F, fname)
        except Unsupported as e:
            rep.violated(rule, fname, str(e), witness={"kind": "anchor-missing"})
            continue
        problems = []
        inc = []
        rows = 0
        K = 5
        for adj in adjacency_graphs(3 if rep.tier != "thorough" else 4):
            rows += 1
            rep.evaluations += 1
            le = {0: [], 1: []}
            re_ = {0: [], 1: []}
            for (a, b) in adj:
                # the edge seen from a: target b's node, arriving at b's side; flip when both sides are the same kind
                for (x, y) in ((a, b), (b, a)) if a != b else ((a, b),):
                    lst = le if x[1] == LEFT else re_
                    lst[x[0]].append((y[0], y[1], x[1] == y[1]))
            h = ExportOracles(2, le, re_, K)
            it = Interp(F, False, h)
            g = graph_value(F, False)
            try:
                if fname == "write_gfa":
                    it.call_body(body, [Ref(Cell(g, "graph")), Ref(Cell(Opaque("W", {"writer"}), "w"))])
                elif fname == "to_gfa":
                    it.call_body(body, [Ref(Cell(g, "graph")), Opaque("P", {"path"})])
                else:
                    it.call_body(body, [Ref(Cell(g, "graph")), Opaque("P", {"path"}), Opaque("F", {"tag-fn"})])
            except (Undecided, Unsupported) as e:
                inc.append("adjacencies %s: %s" % (adj, e))
                continue
            except Diverge as e:
                problems.append("adjacencies %s: %s diverges: %s" % (adj, fname, e))
                continue
            if h.sink_problem:
                problems.append(h.sink_problem)
                continue
            text = "".join(h.out)
            if "\u0001" in text:
                inc.append("an emitted piece could not be classified: %r" % text[:200])
                continue
            lines = text.split("\n")
            if lines and lines[-1] == "":
                lines = lines[:-1]
            if not lines or not lines[0].startswith("H\t"):
                problems.append("the GFA does not start with a header line: %r" % text[:80])
                continue
            segs = [l for l in lines if l.startswith("S")]
            if [(l.split("\t") + ["", ""])[1] for l in segs] != ["0", "1"] or not all(line_s.match(l) for l in segs):
                problems.append("segment lines are %s; every node must be listed once with its sequence" % segs)
                continue
            if any(l.split("\t")[2] != "ACGT" for l in segs):
                problems.append("segment lines are %s; every node must be listed with its WHOLE sequence (the scripted sequence text is ACGT; the writer used here, "
                                "like any io::Write, may accept fewer bytes than offered by `write`)" % segs)
                continue
            counts = {}
            bad = None
            for l in lines[1:]:
                if l.startswith("S"):
                    continue
                m = line_l.match(l)
                if not m:
                    bad = "line %r is not a well-formed S or L line" % l
                    break
                a, oa, b, ob, ov = int(m.group(1)), m.group(2), int(m.group(3)), m.group(4), int(m.group(5))
                if ov != K - 1:
                    bad = "link %r has overlap %d, required K-1 = %d" % (l, ov, K - 1)
                    break
                e1 = (a, RIGHT if oa == "+" else LEFT)
                e2 = (b, LEFT if ob == "+" else RIGHT)
                key = tuple(sorted([e1, e2]))
                counts[key] = counts.get(key, 0) + 1
            if bad:
                problems.append("adjacencies %s: %s" % (fmt_adj(adj), bad))
                continue
            want = {tuple(sorted([a, b])): 1 for (a, b) in adj}
            if counts != want:
                missing = [k for k in want if counts.get(k, 0) == 0]
                twice = [k for k in counts if counts[k] > 1 and k in want]
                extra = [k for k in counts if k not in want]
                what = ("adjacency %s is not listed" % fmt_ep(missing[0])) if missing else (("adjacency %s is listed %d times" % (fmt_ep(twice[0]), counts[twice[0]])) if twice
                       else "a link %s is listed that is not an adjacency of the graph (wrong orientation?)" % fmt_ep(extra[0]))
                problems.append("graph with adjacencies %s: %s  [L lines: %s]" % (fmt_adj(adj), what, [l for l in lines if l.startswith("L")]))
        if problems:
            rep.violated(rule, fname, "GFA export (%s): %s" % (fname, problems[0]), site=F.site(body, body["line"]), witness={"kind": "tokens", "count": len(problems)})
        elif inc:
            rep.inconclusive(rule, fname, "GFA export (%s): %s" % (fname, inc[0]))
        else:
            rep.holds(rule, fname, "GFA export (%s): for every two-node graph with up to %d adjacencies among the 10 possible ones (links between the nodes on any sides, "
                      "circular self-links, left and right hairpins) the output has one S line per node and lists every adjacency exactly once with the right "
                      "orientations and a K-1 overlap (%d graphs)" % (fname, 3 if rep.tier != "thorough" else 4, rows), sample={"graphs": rows})


def fmt_ep(k):
    return "{%s}" % " — ".join("node %d %s side" % (n, dir_name(s)) for n, s in k)


def fmt_adj(adj):
    return [fmt_ep(tuple(sorted([a, b]))) for a, b in adj]


SERDE_TYPES = ["kmer::IntKmer", "kmer::VarIntKmer", "dna_string::DnaString", "dna_string::PackedDnaStringSet", "Exts", "Dir", "vmer::Lmer",
               "graph::BaseGraph", "graph::DebruijnGraph"]


def serde_rules(F, rep, rule="C20.4", types=None):
    for adt in (types or SERDE_TYPES):
        d = structural.derives(F, adt)
        for tr in ("Serialize", "Deserialize"):
            hit = [k for k in d if k.endswith("::" + tr)]
            key = "%s/%s" % (adt, tr)
            if not hit:
                rep.violated(rule, key, "%s has no %s impl: it cannot be persisted" % (adt, tr), witness={"kind": "anchor-missing"})
            elif not d[hit[0]]:
                if tr == "Deserialize":
                    # a hand-written Deserialize of an owned type that asks the deserializer for BORROWED text / bytes only works with
                    # deserializers that can lend from their input (from_str, from_slice): from_reader / from_value cannot, so a value the
                    # serializer wrote is not always readable back
                    borrowed = serde_borrowed_reads(F, adt)
                    if borrowed:
                        rep.violated(rule, key, "%s implements Deserialize by hand and reads %s (in %s): deserializers that cannot lend from their input "
                                     "(serde_json::from_reader, from_value) fail with `expected a borrowed string`, so a serialized value cannot "
                                     "always be read back" % (adt, borrowed[0][0], borrowed[0][1]), witness={"kind": "serde-borrowed"})
                        continue
                rep.inconclusive(rule, key, "%s implements %s by hand; the derive contract does not apply" % (adt, tr))
            else:
                rep.holds(rule, key, "%s: %s is derived" % (adt, tr))
        # a derived Deserialize that goes through a hand-written conversion (#[serde(try_from = ..)] / from = ..): the conversion is part of
        # reading back — it must accept every value the serializer writes and rebuild it field for field
        rep.run(serde_conversion, F, rep, rule, adt)
        rep.run(serde_buffered_rule, F, rep, rule, adt)
        # every declared field is written by the derived serializer (no skipped field)
        a = F.adts.get(adt)
        ser = [b for b in F.fns.values() if b["path"].endswith("::serialize") and b.get("impl_self", "").split("<")[0] == adt and b.get("derived")]
        if a and a["kind"] == "struct" and ser:
            nf = len(a["variants"][0]["fields"])
            g = C.CFG(ser[0])
            n = len(g.calls_to("serialize_field")) + len(g.calls_to("serialize_newtype_struct"))
            if any(c[2] and c[2].get("path", "").endswith("serialize_newtype_struct") for c in g.calls()):
                n = nf
            # conditionally omitted fields (skip_serializing_if): the deserializer must not *require* them
            def const_names(body, callee):
                out = []
                for c in C.CFG(body).calls():
                    fr = c[2]
                    if fr and fr.get("path", "").split("::")[-1] == callee:
                        for a_ in body["blocks"][c[0]]["t"].get("args", []):
                            cst = a_.get("const") if isinstance(a_, dict) else None
                            if cst and "bytes" in cst:
                                out.append(bytes(cst["bytes"]).decode("utf-8", "replace"))
                return out
            skipped = const_names(ser[0], "skip_field")
            required = []
            for b2 in F.fns.values():
                if "Deserialize" in b2.get("impl_self", "") + b2["path"] and ("for %s<" % adt in b2["path"] or "for %s>" % adt in b2["path"] or b2["path"].find("for " + adt) >= 0):
                    required += const_names(b2, "missing_field")
            both = sorted(set(skipped) & set(required))
            if both:
                rep.violated(rule, adt + "/conditional-fields", "the serializer of %s may omit field(s) %s (skip_serializing_if) while the deserializer requires them "
                             "(no default): a value for which the field is omitted cannot be read back" % (adt, both), witness={"kind": "serde-skip", "fields": both})
            elif skipped:
                rep.holds(rule, adt + "/conditional-fields", "fields %s may be omitted by the serializer and have a default on the reading side" % sorted(set(skipped)))
            via = [c[2].get("rkey") or c[2].get("key") or c[2].get("path", "") for c in g.calls()
                   if c[2] and (c[2].get("path", "").split("::")[-1] in ("into", "from")) and (c[2].get("trait", "") or "").split("<")[0].split("::")[-1] in ("Into", "From")]
            if n == nf:
                rep.holds(rule, adt + "/all-fields", "the derived serializer of %s writes all %d fields" % (adt, nf))
            elif n == 0 and via:
                # #[serde(into = "...")]: the value is converted and the converted value is serialized; which fields reach the wire is the
                # conversion's and the other type's business, not decided by counting this impl's field writes
                rep.inconclusive(rule, adt + "/all-fields", "the serializer of %s goes through a conversion (%s): its own field writes are not what reaches the wire" % (adt, via[0]))
            else:
                rep.violated(rule, adt + "/all-fields", "the serializer of %s writes %d of its %d fields: a skipped field is lost in a round trip" % (adt, n, nf),
                             witness={"kind": "field-count", "got": n, "spec": nf})


def serde_buffered_rule(F, rep, rule, adt):
    """Deserialize impls that go through serde's buffered `Content` (what #[serde(untagged)], internally / adjacently tagged enums and
    #[serde(flatten)] expand to) cannot carry 128-bit integers — serde's documented limitation.  A type that holds k-mers (whose storage
    may be u128: the crate exports Kmer40/48/64) and is read back through such an impl cannot be read back for those k-mer types."""
    roots = [b for b in F.fns.values() if ("Deserialize<'de> for %s>" % adt) in b["path"] or ("Deserialize<'de> for %s<" % adt) in b["path"]]
    if not roots:
        return
    a = F.adts.get(adt) or {}
    generic_or_wide = "<" in (roots[0]["path"].split(" for ")[-1]) or any("128" in str(f.get("ty", "")) for v in a.get("variants", []) for f in v.get("fields", []))
    seen, st, hit = set(), [b["path"] for b in roots], None
    while st and hit is None:
        p_ = st.pop()
        if p_ in seen:
            continue
        seen.add(p_)
        b = F.fns.get(p_)
        if not b:
            continue
        for bb in b["blocks"]:
            t = bb["t"]
            if t.get("k") == "call" and "const" in t["f"] and "fn" in t["f"]["const"]:
                fr = t["f"]["const"]["fn"]
                q = fr.get("rpath") or fr.get("path") or ""
                if "::de::content::Content" in q and "Deserialize<'de> for" in p_:
                    hit = (p_, q)
                    break
                for q2 in (fr.get("rpath"), fr.get("path")):
                    if q2 and q2 in F.fns and q2 not in seen:
                        st.append(q2)
    key = "%s/buffered-deserialize" % adt
    if hit is None:
        return
    via = hit[0].split(" for ")[-1].split(">::")[0]
    if generic_or_wide:
        rep.violated(rule, key, "%s is read back through %s, whose Deserialize impl buffers the input in serde's `Content` (%s): that representation has no 128-bit "
                     "integers, so a value holding k-mers with 128-bit storage (K > 32) that the serializer wrote cannot be read back" % (adt, via, hit[1].split("content::")[-1].split("::<")[0]),
                     witness={"kind": "serde-buffered", "impl": hit[0]})
    else:
        rep.inconclusive(rule, key, "%s is read back through %s, whose Deserialize impl buffers the input in serde's `Content`" % (adt, via))


def serde_conversion(F, rep, rule, adt):
    import re
    from .lemmas import DnaT, DS
    convs = set()
    for b in F.fns.values():
        if ("Deserialize<'de> for %s>" % adt) in b["path"] or ("Deserialize<'de> for %s<" % adt) in b["path"]:
            for c in C.CFG(b).calls():
                fr = c[2] or {}
                k = fr.get("rkey") or fr.get("key") or ""
                m = re.match(r"^<(.+) as std::convert::(TryFrom|From)<(.+)>>::(try_from|from)$", k)
                if m and m.group(1).split("<")[0] == adt:
                    convs.add((k, m.group(2), m.group(3)))
    for k, kind, src in sorted(convs):
        key = "%s/read-through-%s" % (adt, src.split("::")[-1])
        body = F.fns.get(k)
        sa, ta = F.adts.get(src.split("<")[0]), F.adts.get(adt)
        if body is None or sa is None or ta is None or sa.get("kind") != "struct" or ta.get("kind") != "struct":
            rep.inconclusive(rule, key, "%s is read back through %s, which is not a crate function / struct this check can interpret" % (adt, k))
            continue
        sn = [f["name"] for f in sa["variants"][0]["fields"]]
        tn = [f["name"] for f in ta["variants"][0]["fields"]]
        if sorted(sn) != sorted(tn) or adt != DS:
            rep.inconclusive(rule, key, "%s is read back through %s (fields %s); no generator of its serialized values for this shape" % (adt, src, sn))
            continue
        dt = DnaT(F)
        bad = inc = None
        lens = list(range(0, 131))
        for n in lens:
            rep.evaluations += 1
            ws = dt.words("s", n)
            vals = {"storage": VecV([Int(64, False, bits=w) for w in ws]), "len": Int(64, False, val=n)}
            it = Interp(F, False, Harness())
            try:
                r = it.call_body(body, [Adt(src.split("<")[0], 0, [vals[x] for x in sn])])
            except Diverge as e:
                bad = "panics on the serialized form of a %d-base string: %s" % (n, e)
                break
            except (Undecided, Unsupported) as e:
                inc = str(e)
                break
            v = r
            if kind == "TryFrom":
                if not isinstance(r, Adt) or r.variant not in (0, 1):
                    inc = "result %r" % (r,)
                    break
                if r.variant != 0:
                    bad = "rejects the serialized form of a %d-base string (%d storage word(s)): a value written by the serializer cannot be read back" % (n, len(ws))
                    break
                v = r.fields[0]
            if not (isinstance(v, Adt) and v.name == adt):
                inc = "result %r" % (v,)
                break
            got = {x: v.fields[i] for i, x in enumerate(tn)}
            st, ln = got["storage"], got["len"]
            same = isinstance(ln, Int) and ln.is_conc() and ln.val == n and isinstance(st, VecV) and len(st.elems) == len(ws) and \
                all(isinstance(e, Int) and list(e.getbits()) == list(w) for e, w in zip(st.elems, ws))
            if not same:
                bad = "changes the value of a %d-base string while reading it back (length %r, storage %r)" % (n, ln, st)
                break
        if bad:
            rep.violated(rule, key, "%s is deserialised through %s, which %s" % (adt, k, bad), site=F.site(body, body["line"]),
                         witness={"kind": "serde-conversion", "conversion": k})
        elif inc:
            rep.inconclusive(rule, key, "%s: %s" % (k, inc))
        else:
            rep.holds(rule, key, "%s is deserialised through %s: it accepts and rebuilds the serialized form of every string of %d..%d bases" % (adt, k, lens[0], lens[-1]))


def serde_borrowed_reads(F, impl_key):
    """calls `<&str as Deserialize>::deserialize` / `<&[u8] as Deserialize>::deserialize` reachable (within the crate) from the deserialize
    method of the impl: [(what, in function)]"""
    roots = [k for k, b in F.fns.items() if k.startswith("<" + impl_key) and "Deserialize" in k and k.endswith("::deserialize")]
    seen, st, out = set(), list(roots), []
    while st:
        p_ = st.pop()
        if p_ in seen or p_ not in F.fns:
            continue
        seen.add(p_)
        b = F.fns[p_]
        for bb in b["blocks"]:
            t = bb["t"]
            if t.get("k") == "call" and "const" in t["f"] and "fn" in t["f"]["const"]:
                fr = t["f"]["const"]["fn"]
                k = fr.get("key") or ""
                m = re.match(r"^<&(?:'\w+ )?(str|\[u8\]) as [^>]*Deserialize<[^>]*>>::deserialize", k)
                if m:
                    out.append(("a borrowed &%s" % m.group(1), b["path"]))
                for q in (fr.get("rpath"), fr.get("path")):
                    if q and q in F.fns and q not in seen:
                        st.append(q)
            for s_ in bb["s"]:
                rv = s_.get("rv") or {}
                if rv.get("k") == "agg" and rv.get("ak") == "closure" and rv.get("closure") in F.fns:
                    st.append(rv["closure"])
    return out
