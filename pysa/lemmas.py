"""Bit-vector lemmas (Appendix C of DESIGN.md) checked with the abstract interpreter in BV mode.

Every lemma is a statement about the provenance of every bit of a result for *all* values of the
symbolic operands; small index arguments (position, run length, nibble) are partitioned exhaustively.
The specification side is written here from the string semantics (lane maps), never from the code.
"""
import re
from . import bv
from .bv import Int, ZERO, ONE, TOP, var, t_not, t_xor, t_or, t_and
from .absint import (Adt, Arr, Cell, Diverge, Harness, Interp, Opaque, Ref, Tup, Undecided, Unsupported,
                     VecV, UNINIT)
from .report import HOLDS, VIOLATED, INCONCLUSIVE

DIR = "Dir"


def u(w, v):
    return Int(w, False, val=v)


def usize(v):
    return Int(64, False, val=v)


def base_arg(name="v"):
    """a 2-bit base in a u8 (precondition: in-range base)"""
    return Int(8, False, bits=[var(name, 0), var(name, 1)] + [ZERO] * 6)


def dir_val(d):
    return Adt(DIR, 0 if d == "Left" else 1, [])


class OrdHarness(Harness):
    """decides comparisons between the two named operands (bit vectors `left`, `right`, e.g. a k-mer's storage and its reverse
    complement's) by a fixed ordering oracle; any other undecided comparison stays undecided"""

    def __init__(self, order, left=None, right=None):
        self.order = order  # '<' '=' '>'   (left ? right)
        self.left = list(left) if left is not None else None
        self.right = list(right) if right is not None else None
        self.asked = 0

    def _orient(self, a, b):
        if self.left is None:
            return 1
        ba, bb = list(a.getbits()), list(b.getbits())
        if ba == self.left and bb == self.right:
            return 1
        if ba == self.right and bb == self.left:
            return -1
        return 0

    def unknown_compare(self, it, op, a, b):
        o_ = self._orient(a, b)
        if o_ == 0:
            return None
        self.asked += 1
        o = self.order if o_ == 1 else {"<": ">", "=": "=", ">": "<"}[self.order]
        return {"Eq": o == "=", "Ne": o != "=", "Lt": o == "<", "Le": o in "<=", "Gt": o == ">", "Ge": o in ">="}[op]

    def unknown_cmp(self, it, a, b):
        o_ = self._orient(a, b)
        if o_ == 0:
            return None
        self.asked += 1
        o = self.order if o_ == 1 else {"<": ">", "=": "=", ">": "<"}[self.order]
        return {"<": 0, "=": 1, ">": 2}[o]


class KType:
    """a concrete k-mer type: name, storage width W, K, constructor of abstract values"""

    def __init__(self, F, tystr):
        self.F = F
        self.ty = tystr
        t = F.ty(tystr)
        self.adt = t["name"]
        self.field_tys = t["vfields"][0]
        self.W = None
        for ft in self.field_tys:
            ti = F.ty(ft)
            if ti.get("k") == "uint":
                self.W = ti["w"]
                self.storage_idx = self.field_tys.index(ft)
                break
        if self.W is None:
            raise Unsupported("no unsigned storage field in %s" % tystr)
        self.K = None

    def key(self, trait, method):
        return "<%s as %s>::%s" % (self.ty, trait, method)

    def mk(self, storage):
        fs = []
        for i, ft in enumerate(self.field_tys):
            if i == self.storage_idx:
                fs.append(storage)
            else:
                fs.append(Adt(self.F.ty(ft).get("name", "core::marker::PhantomData"), 0, []))
        return Adt(self.adt, 0, fs)

    def sym(self, src):
        """abstract k-mer with the padding invariant: bits >= 2K are zero"""
        return self.mk(bv.sym_int(self.W, src, nbits=2 * self.K))

    def storage_of(self, kmer):
        if not isinstance(kmer, Adt):
            raise Unsupported("result is not a k-mer value: %r" % (kmer,))
        return kmer.fields[self.storage_idx]

    def lane_bits(self, j):
        """(hi, lo) bit indices of base j"""
        return (2 * (self.K - 1 - j) + 1, 2 * (self.K - 1 - j))


class CaseHarness(Harness):
    """default harness of the bit-vector lemmas: a comparison `x == c` / `x != c` between a constant and a symbolic word all of whose
    bits are literals (a variable or its negation) is decided by a case split — on the `equal` branch the variables are fixed to the
    constant's bits (the lemma is then checked under that substitution), the `different` branch carries no extra knowledge."""
    _script = []
    _choices = []
    subst = {}

    @classmethod
    def begin(cls, script):
        cls._script = list(script)
        cls._choices = []
        cls.subst = {}

    def unknown_compare(self, it, op, a, b):
        if op not in ("Eq", "Ne"):
            return None
        for x, y in ((a, b), (b, a)):
            if isinstance(y, Int) and y.is_conc() and isinstance(x, Int) and not x.is_conc():
                lits = []
                for i, t in enumerate(x.getbits()):
                    c = bv.t_is_const(t)
                    want = (y.val >> i) & 1
                    if c is not None:
                        if c != want:
                            return op == "Ne"       # a constant bit already differs
                        continue
                    if t is TOP:
                        return None
                    neg = False
                    t2 = t
                    if len(t) == 2 and ONE <= t and len(t - ONE) == 1:
                        t2, neg = t - ONE, True
                    if not (len(t2) == 1 and len(next(iter(t2))) == 1):
                        return None
                    lits.append((next(iter(next(iter(t2)))), want ^ (1 if neg else 0)))
                cls = CaseHarness
                i_ = len(cls._choices)
                eq = cls._script[i_] if i_ < len(cls._script) else False
                cls._choices.append(eq)
                if eq:
                    for v, val in lits:
                        if cls.subst.get(v, val) != val:
                            return op == "Ne"
                        cls.subst[v] = val
                return eq if op == "Eq" else not eq
        return None


def run_inst(F, key, args, harness=None):
    it = Interp(F, True, harness or CaseHarness())
    body = F.insts.get(key)
    if body is None:
        raise KeyError(key)
    return it.call_body(body, args), it


def expect_bits(rep, rule, key, got, want, desc, sample=None):
    """compare a result Int against a specified bit vector (list of terms, LSB first)"""
    rep.evaluations += 1
    if not isinstance(got, Int):
        rep.inconclusive(rule, key, "%s: result is not an integer (%r)" % (desc, got))
        return False
    gb = got.getbits()
    if len(gb) != len(want):
        rep.violated(rule, key, "%s: result width %d, specified %d" % (desc, len(gb), len(want)))
        return False
    if CaseHarness.subst:
        gb = [bv.t_subst(x, CaseHarness.subst) for x in gb]
        want = [bv.t_subst(x, CaseHarness.subst) for x in want]
        desc = desc + " [case: %s]" % ", ".join("%s[%s]=%d" % (bv.var_name(v) + (val,)) for v, val in sorted(CaseHarness.subst.items())[:6])
        key = key + "/case-%s" % "".join("1" if c else "0" for c in CaseHarness._choices)
    bad = None
    top = None
    for i, (g, w) in enumerate(zip(gb, want)):
        if g is TOP:
            top = i if top is None else top
            continue
        if g != w:
            bad = i
            break
    if bad is not None:
        rep.violated(rule, key, "%s: bit %d of the result is %s, the string semantics require %s" % (
            desc, bad, bv.t_str(gb[bad]), bv.t_str(want[bad])),
            witness={"kind": "bit", "bit": bad, "got": bv.t_str(gb[bad]), "spec": bv.t_str(want[bad])})
        return False
    if top is not None:
        rep.inconclusive(rule, key, "%s: bit %d is unknown to the abstract domain" % (desc, top))
        return False
    rep.holds(rule, key, desc, sample=sample)
    return True


def guarded(rep, rule, key, desc, fn):
    """run fn() for every case split the default lemma harness makes; map interpreter exceptions to verdicts"""
    stack = [[]]
    res = None
    n = 0
    while stack and n < 64:
        script = stack.pop()
        n += 1
        CaseHarness.begin(script)
        res = _guarded_once(rep, rule, key, desc, fn)
        ch = list(CaseHarness._choices)
        for i in range(len(script), len(ch)):
            stack.append(ch[:i] + [True])
    CaseHarness.begin([])
    return res


def _guarded_once(rep, rule, key, desc, fn):
    try:
        return fn()
    except KeyError as e:
        rep.add(rule, key, VIOLATED, "%s: anchor-missing — no monomorphic instance %s" % (desc, e),
                witness={"kind": "anchor-missing", "instance": str(e)})
    except Diverge as e:
        rep.violated(rule, key, "%s: the operation diverges (panics) on in-range arguments: %s" % (desc, e),
                     witness={"kind": "diverge", "why": str(e)})
    except Undecided as e:
        rep.inconclusive(rule, key, "%s: %s" % (desc, e))
    except Unsupported as e:
        rep.inconclusive(rule, key, "%s: unsupported construct: %s" % (desc, e))
    except RecursionError:
        rep.inconclusive(rule, key, "%s: recursion" % desc)
    return None


def kmer_k(F, kt):
    r, _ = run_inst(F, kt.key("Kmer", "k"), [])
    if not (isinstance(r, Int) and r.is_conc()):
        raise Unsupported("k() of %s is not a constant" % kt.ty)
    return r.val


def in_bits(src, n, w):
    return [var(src, i) if i < n else ZERO for i in range(w)]


# --------------------------------------------------------------------------- k-mer lemmas

def kmer_lemmas(F, rep, tystr, which=None, slice_cap=32):
    """all C10/C11/C12 bit lemmas for one k-mer type"""
    kt = KType(F, tystr)
    tag = tystr
    try:
        kt.K = kmer_k(F, kt)
    except (KeyError, Unsupported, Undecided, Diverge) as e:
        rep.violated("L-k", tag, "cannot evaluate K of %s: %s" % (tystr, e), witness={"kind": "anchor-missing"})
        return
    K, W = kt.K, kt.W
    # the shipped aliases state their length in their public name (`Kmer30` is the type of 30-letter strings): every other lemma derives K
    # from k() and so cannot see a marker type that answers with its neighbour's length (wave 10, C10-m18)
    for kk in getattr(F, "kmer_types", []):
        m_ = re.match(r"^(?:\w+::)*Kmer(\d+)$", kk.get("alias") or "")
        if kk.get("ty") == tystr and m_:
            if int(m_.group(1)) == K:
                rep.holds("L-k", tag + "/alias", "%s::k() = %d" % (kk["alias"], K))
            else:
                rep.violated("L-k", tag + "/alias", "the public k-mer type %s (= %s) reports k() = %d: it is not the type of %s-letter strings its name "
                             "states (from_ascii/from_bytes want %d letters, to_string renders %d)" % (kk["alias"], tystr, K, m_.group(1), K, K),
                             witness={"kind": "alias-length", "alias": kk["alias"], "k": K})
    if 2 * K > W:
        rep.violated("L-k", tag, "%s: 2K=%d exceeds storage width %d" % (tystr, 2 * K, W))
        return
    S = in_bits("s", 2 * K, W)

    def want(f):
        return which is None or f in which

    def self_ref(src="s"):
        return Ref(Cell(kt.sym(src), "self"))

    # len / k
    if want("len"):
        def f():
            r, _ = run_inst(F, kt.key("Mer", "len"), [self_ref()])
            rep.evaluations += 1
            if isinstance(r, Int) and r.is_conc() and r.val == K:
                rep.holds("L-len", tag, "len() = k() = %d" % K, nontrivial=False)
            else:
                rep.violated("L-len", tag, "len() = %r differs from k() = %d" % (r, K))
        guarded(rep, "L-len", tag, "len", f)

    # empty
    if want("empty"):
        def f():
            r, _ = run_inst(F, kt.key("Kmer", "empty"), [])
            expect_bits(rep, "L-empty", tag, kt.storage_of(r), [ZERO] * W, "empty() is all A")
        guarded(rep, "L-empty", tag, "empty", f)

    # get
    if want("get"):
        for pos in range(K):
            def f(pos=pos):
                r, _ = run_inst(F, kt.key("Mer", "get"), [self_ref(), usize(pos)])
                hi, lo = kt.lane_bits(pos)
                expect_bits(rep, "L-get", "%s/pos=%d" % (tag, pos), r, [S[lo], S[hi]] + [ZERO] * 6,
                            "get(%d) returns base %d" % (pos, pos),
                            sample={"type": tystr, "lemma": "get", "pos": pos})
            guarded(rep, "L-get", "%s/pos=%d" % (tag, pos), "get(%d)" % pos, f)

    # set_mut
    if want("set"):
        for pos in range(K):
            def f(pos=pos):
                sr = self_ref()
                run_inst(F, kt.key("Mer", "set_mut"), [sr, usize(pos), base_arg()])
                hi, lo = kt.lane_bits(pos)
                spec = list(S)
                spec[lo], spec[hi] = var("v", 0), var("v", 1)
                expect_bits(rep, "L-set", "%s/pos=%d" % (tag, pos), kt.storage_of(sr.cell.v), spec,
                            "set_mut(%d, v) writes exactly base %d" % (pos, pos))
            guarded(rep, "L-set", "%s/pos=%d" % (tag, pos), "set_mut(%d)" % pos, f)

    # set_slice_mut
    if want("slice"):
        V = in_bits("val", 64, 64)
        for pos in range(K):
            for n in range(1, min(slice_cap, K - pos) + 1):
                def f(pos=pos, n=n):
                    sr = self_ref()
                    run_inst(F, kt.key("Mer", "set_slice_mut"),
                             [sr, usize(pos), usize(n), Int(64, False, bits=V)])
                    spec = list(S)
                    for t in range(n):
                        hi, lo = kt.lane_bits(pos + t)
                        spec[hi], spec[lo] = V[63 - 2 * t], V[62 - 2 * t]
                    expect_bits(rep, "L-slice", "%s/pos=%d/n=%d" % (tag, pos, n), kt.storage_of(sr.cell.v), spec,
                                "set_slice_mut(%d, %d, value) writes exactly bases %d..%d from the top lanes of value" % (
                                    pos, n, pos, pos + n))
                guarded(rep, "L-slice", "%s/pos=%d/n=%d" % (tag, pos, n), "set_slice_mut(%d,%d)" % (pos, n), f)

    # the immutable forms (MerImmut, blanket-implemented): the same writes on a copy, the receiver untouched
    if want("set") and kt.key("MerImmut", "set") in F.insts:
        for pos in sorted({0, 1, K // 2, K - 1} & set(range(K))):
            def f(pos=pos):
                sr = self_ref()
                r, _ = run_inst(F, kt.key("MerImmut", "set"), [sr, usize(pos), base_arg()])
                hi, lo = kt.lane_bits(pos)
                spec = list(S)
                spec[lo], spec[hi] = var("v", 0), var("v", 1)
                ok = expect_bits(rep, "L-set", "%s/immut/pos=%d" % (tag, pos), kt.storage_of(r), spec, "set(%d, v) returns the k-mer with exactly base %d replaced" % (pos, pos))
                if ok:
                    expect_bits(rep, "L-set", "%s/immut-self/pos=%d" % (tag, pos), kt.storage_of(sr.cell.v), list(S), "set(%d, v) leaves the receiver unchanged" % pos)
            guarded(rep, "L-set", "%s/immut/pos=%d" % (tag, pos), "set(%d)" % pos, f)
    if want("slice") and kt.key("MerImmut", "set_slice") in F.insts:
        V = in_bits("val", 64, 64)
        pairs = sorted({(pos, n) for pos in (0, 1, 2, K - 2, K - 1) for n in (1, 2, 3, K) if 0 <= pos < K and 1 <= n <= min(slice_cap, K - pos)})
        for pos, n in pairs:
            def f(pos=pos, n=n):
                sr = self_ref()
                r, _ = run_inst(F, kt.key("MerImmut", "set_slice"), [sr, usize(pos), usize(n), Int(64, False, bits=V)])
                spec = list(S)
                for t in range(n):
                    hi, lo = kt.lane_bits(pos + t)
                    spec[hi], spec[lo] = V[63 - 2 * t], V[62 - 2 * t]
                ok = expect_bits(rep, "L-slice", "%s/immut/pos=%d/n=%d" % (tag, pos, n), kt.storage_of(r), spec,
                                 "set_slice(%d, %d, value) returns the k-mer with exactly bases %d..%d written from the top lanes of value" % (pos, n, pos, pos + n))
                if ok:
                    expect_bits(rep, "L-slice", "%s/immut-self/pos=%d/n=%d" % (tag, pos, n), kt.storage_of(sr.cell.v), list(S),
                                "set_slice(%d, %d, value) leaves the receiver unchanged" % (pos, n))
            guarded(rep, "L-slice", "%s/immut/pos=%d/n=%d" % (tag, pos, n), "set_slice(%d,%d)" % (pos, n), f)

    # rc
    if want("rc"):
        def f():
            r, _ = run_inst(F, kt.key("Mer", "rc"), [self_ref()])
            spec = [ZERO] * W
            for j in range(K):
                hi, lo = kt.lane_bits(j)
                shi, slo = kt.lane_bits(K - 1 - j)
                spec[hi], spec[lo] = t_not(S[shi]), t_not(S[slo])
            expect_bits(rep, "L-rc", tag, kt.storage_of(r), spec,
                        "rc(): base j = complement of base K-1-j, unused bits zero",
                        sample={"type": tystr, "lemma": "rc"})
        guarded(rep, "L-rc", tag, "rc", f)

    # extend_left / extend_right / extend
    if want("ext"):
        def spec_ext(left):
            spec = [ZERO] * W
            for j in range(K):
                hi, lo = kt.lane_bits(j)
                if left:
                    if j == 0:
                        spec[hi], spec[lo] = var("v", 1), var("v", 0)
                    else:
                        shi, slo = kt.lane_bits(j - 1)
                        spec[hi], spec[lo] = S[shi], S[slo]
                else:
                    if j == K - 1:
                        spec[hi], spec[lo] = var("v", 1), var("v", 0)
                    else:
                        shi, slo = kt.lane_bits(j + 1)
                        spec[hi], spec[lo] = S[shi], S[slo]
            return spec
        for left, meth in ((True, "extend_left"), (False, "extend_right")):
            def f(left=left, meth=meth):
                r, _ = run_inst(F, kt.key("Kmer", meth), [self_ref(), base_arg()])
                expect_bits(rep, "L-ext", "%s/%s" % (tag, meth), kt.storage_of(r), spec_ext(left),
                            "%s(v) shifts one base, new base at the %s end, dropped base gone" % (meth, "left" if left else "right"))
            guarded(rep, "L-ext", "%s/%s" % (tag, meth), meth, f)
        for d in ("Left", "Right"):
            def f(d=d):
                r, _ = run_inst(F, kt.key("Kmer", "extend"), [self_ref(), base_arg(), dir_val(d)])
                expect_bits(rep, "L-ext", "%s/extend/%s" % (tag, d), kt.storage_of(r), spec_ext(d == "Left"),
                            "extend(v, %s) = extend_%s(v)" % (d, d.lower()))
            guarded(rep, "L-ext", "%s/extend/%s" % (tag, d), "extend", f)

    # rank
    if want("rank"):
        if K <= 32:
            def f():
                r, _ = run_inst(F, kt.key("Kmer", "to_u64"), [self_ref()])
                expect_bits(rep, "L-rank", "%s/to_u64" % tag, r, in_bits("s", 2 * K, 64), "to_u64() is the lexicographic rank")
            guarded(rep, "L-rank", "%s/to_u64" % tag, "to_u64", f)

        def f2():
            nb = min(2 * K, 64)
            rr = Int(64, False, bits=in_bits("r", nb, 64))
            r, _ = run_inst(F, kt.key("Kmer", "from_u64"), [rr])
            expect_bits(rep, "L-rank", "%s/from_u64" % tag, kt.storage_of(r), in_bits("r", nb, W),
                        "from_u64(rank) for rank < 4^K (leading bases A when K > 32)")
        guarded(rep, "L-rank", "%s/from_u64" % tag, "from_u64", f2)

    # hamming
    if want("ham"):
        def f():
            a = self_ref("a")
            b = kt.sym("b")
            r, _ = run_inst(F, kt.key("Kmer", "hamming_dist"), [a, b])
            A, B = in_bits("a", 2 * K, W), in_bits("b", 2 * K, W)
            spec = []
            for j in range(K):
                hi, lo = kt.lane_bits(j)
                spec.append(t_or(t_xor(A[hi], B[hi]), t_xor(A[lo], B[lo])))
            expect_pop(rep, "L-ham", tag, r, spec, "hamming_dist counts exactly the lanes where the two k-mers differ")
        guarded(rep, "L-ham", tag, "hamming_dist", f)

    # at / gc
    if want("atgc"):
        for meth, neg in (("at_count", True), ("gc_count", False)):
            def f(meth=meth, neg=neg):
                r, _ = run_inst(F, kt.key("Mer", meth), [self_ref()])
                spec = []
                for j in range(K):
                    hi, lo = kt.lane_bits(j)
                    x = t_xor(S[hi], S[lo])
                    spec.append(t_not(x) if neg else x)
                expect_pop(rep, "L-atgc", "%s/%s" % (tag, meth), r, spec,
                           "%s counts exactly the lanes holding %s" % (meth, "A or T" if neg else "C or G"))
            guarded(rep, "L-atgc", "%s/%s" % (tag, meth), meth, f)

    # canonical form / palindrome decision tables over ord(self, rc)
    if want("canon"):
        rc_spec = [ZERO] * W
        for j in range(K):
            hi, lo = kt.lane_bits(j)
            shi, slo = kt.lane_bits(K - 1 - j)
            rc_spec[hi], rc_spec[lo] = t_not(S[shi]), t_not(S[slo])
        def canon(meth):
            """min_rc / min_rc_flip return the lexicographically smaller of the k-mer and its reverse complement (and whether that is the
            reverse complement), however the order is decided: by comparing the two whole values, or base by base (base i against the
            complement of base K-1-i — the i-th base of the reverse complement).  Each comparison is an oracle; the answer must be right
            for every k-mer consistent with the comparisons made, i.e. the code must have looked at enough pairs to know the order."""
            from .dt import Oracles, explore
            half = (K + 1) // 2          # pairs (i, K-1-i) for i < half decide the order; for odd K the middle base never ties

            def lane_of(v, negated):
                bits = list(v.getbits())
                if any(x != ZERO for x in bits[2:]):
                    return None
                for j in range(K):
                    hi, lo = kt.lane_bits(j)
                    lo_t, hi_t = (t_not(S[lo]), t_not(S[hi])) if negated else (S[lo], S[hi])
                    if bits[0] == lo_t and bits[1] == hi_t:
                        return j
                return None

            class CanonH(Oracles):
                def pair(self, i, j):
                    # self[i] ? complement(self[j]); for the middle base of an odd k-mer equality is impossible
                    dom = ("<", ">") if i == j else ("<", "=", ">")
                    return self.choose("base%d?compl(base%d)" % (i, j), dom)

                def whole(self, a, b):
                    ba, bb = list(a.getbits()), list(b.getbits())
                    if ba == list(S) and bb == rc_spec:
                        return 1
                    if ba == rc_spec and bb == list(S):
                        return -1
                    return 0

                def order(self, a, b):
                    if a.w == W:
                        o_ = self.whole(a, b)
                        if o_:
                            o = self.choose("ord(self,rc)", ("<", "=", ">") if K % 2 == 0 else ("<", ">"))
                            return o if o_ == 1 else {"<": ">", "=": "=", ">": "<"}[o]
                    i, j = lane_of(a, False), lane_of(b, True)
                    if i is not None and j is not None:
                        return self.pair(i, j)
                    i, j = lane_of(b, False), lane_of(a, True)
                    if i is not None and j is not None:
                        return {"<": ">", "=": "=", ">": "<"}[self.pair(i, j)]
                    return None

                def unknown_compare(self, it, op, a, b):
                    o = self.order(a, b)
                    if o is None:
                        return None
                    return {"Eq": o == "=", "Ne": o != "=", "Lt": o == "<", "Le": o in "<=", "Gt": o == ">", "Ge": o in ">="}[op]

                def unknown_cmp(self, it, a, b):
                    o = self.order(a, b)
                    return None if o is None else {"<": 0, "=": 1, ">": 2}[o]

            def run(h):
                r, _ = run_inst(F, kt.key("Kmer", meth), [self_ref()], h)
                return r
            bad, inc, rows = None, None, 0
            for a, out, h in explore(lambda script: CanonH(script), run, max_runs=6000):
                rows += 1
                rep.evaluations += 1
                if isinstance(out, tuple) and out and out[0] in ("inconclusive", "diverge"):
                    if out[0] == "diverge":
                        bad = bad or ("%s diverges: %s" % (meth, out[1]), a)
                    else:
                        inc = inc or out[1]
                    continue
                if meth == "min_rc_flip":
                    if not (isinstance(out, Tup) and len(out.fields) == 2 and isinstance(out.fields[1], Int) and out.fields[1].is_conc()):
                        inc = inc or ("result %r" % (out,))
                        continue
                    kk, flip = out.fields[0], bool(out.fields[1].val)
                else:
                    kk, flip = out, None
                got = list(kt.storage_of(kk).getbits()) if hasattr(kt.storage_of(kk), "getbits") else None
                is_self, is_rc = got == list(S), got == rc_spec
                if not (is_self or is_rc):
                    bad = bad or ("%s returns a value that is neither the k-mer nor its reverse complement" % meth, a)
                    continue
                # which orders are still possible given the comparisons made?
                possible = set()
                if "ord(self,rc)" in a:
                    possible = {a["ord(self,rc)"]}
                else:
                    undecided = True
                    for i in range(half):
                        v_ = a.get("base%d?compl(base%d)" % (i, K - 1 - i))
                        if v_ is None:
                            # never compared: this pair can come out either way (or tie, unless it is the middle base)
                            possible |= {"<", ">"}
                            if i == K - 1 - i:
                                undecided = False
                                break
                            continue
                        if v_ in "<>":
                            possible.add(v_)
                            undecided = False
                            break
                    if undecided and K % 2 == 0:
                        possible.add("=")
                stray = [k_ for k_ in a if k_.startswith("base") and "?compl(base" in k_ and int(k_[4:k_.index("?")]) + int(k_[k_.index("(base") + 5:-1]) != K - 1]
                if stray:
                    bad = bad or ("%s compares %s — not a base of the k-mer against the corresponding base of its reverse complement" % (meth, stray[0]), a)
                    continue
                for o in sorted(possible):
                    want_rc = o == ">"
                    ok = (is_rc if want_rc else is_self) or o == "="
                    if flip is not None and o != "=":
                        ok = ok and flip == want_rc
                    if not ok:
                        unseen = [i for i in range(half) if ("base%d?compl(base%d)" % (i, K - 1 - i)) not in a]
                        bad = bad or ("%s returns %s%s although the k-mer %s its reverse complement is consistent with every comparison it made%s" % (
                            meth, "the reverse complement" if is_rc else "the k-mer itself", "" if flip is None else " with flip=%s" % flip,
                            {"<": "being smaller than", ">": "being larger than"}[o],
                            (" (base pair(s) %s were never compared, K = %d)" % ([(i, K - 1 - i) for i in unseen][:3], K)) if unseen and "ord(self,rc)" not in a else ""), a)
                        break
            key = "%s/%s" % (tag, meth)
            if bad:
                rep.violated("L-canon", key, bad[0], witness={"kind": "row", "row": {k_: str(v_) for k_, v_ in bad[1].items()}})
            elif inc:
                rep.inconclusive("L-canon", key, "%s: %s" % (meth, inc))
            else:
                rep.holds("L-canon", key, "%s returns the smaller of the k-mer and its reverse complement%s (%d outcome rows)" % (
                    meth, " and flip = (it is the reverse complement)" if meth == "min_rc_flip" else "", rows))
        for meth in ("min_rc_flip", "min_rc"):
            guarded(rep, "L-canon", "%s/%s" % (tag, meth), meth, lambda meth=meth: canon(meth))

        def pal():
            """is_palindrome ⇔ K even ∧ self = rc(self), whatever way it is computed: comparisons of the whole k-mer with its reverse
            complement and comparisons of single bases (base i with the complement of base j) are oracles; `true` may only be returned
            when the comparisons made establish equality of every pair (i, K-1-i), `false` only when one of them failed (or K is odd)"""
            from .dt import Oracles, explore

            def lane_of(v, negated):
                bits = list(v.getbits())
                if any(x != ZERO for x in bits[2:]):
                    return None
                for j in range(K):
                    hi, lo = kt.lane_bits(j)
                    lo_t, hi_t = (t_not(S[lo]), t_not(S[hi])) if negated else (S[lo], S[hi])
                    if bits[0] == lo_t and bits[1] == hi_t:
                        return j
                return None

            class PalH(Oracles):
                def whole(self, a, b):
                    ba, bb = list(a.getbits()), list(b.getbits())
                    return (ba == list(S) and bb == rc_spec) or (ba == rc_spec and bb == list(S))

                def unknown_compare(self, it, op, a, b):
                    if op in ("Eq", "Ne") and a.w == W and self.whole(a, b):
                        eq = self.choose("self==rc", (True, False))
                        return eq if op == "Eq" else not eq
                    if a.w == W and self.whole(a, b):
                        o = self.choose("ord(self,rc)", ("<", "=", ">"))
                        if list(a.getbits()) != list(S):
                            o = {"<": ">", "=": "=", ">": "<"}[o]
                        return {"Lt": o == "<", "Le": o in "<=", "Gt": o == ">", "Ge": o in ">="}[op]
                    if op in ("Eq", "Ne"):
                        for x, y in ((a, b), (b, a)):
                            i, j = lane_of(x, False), lane_of(y, True)
                            if i is not None and j is not None:
                                eq = self.choose("base%d==compl(base%d)" % (i, j), (True, False))
                                return eq if op == "Eq" else not eq
                    if op in ("Eq", "Ne"):
                        # any other comparison of two bit-vectors whose bits are XORs of the k-mer's bits (shifted / reversed / complemented /
                        # masked copies of it): an affine condition on the k-mer, decided exactly by linear algebra over GF(2) — the outcome
                        # is an oracle unless the conditions assumed so far already imply or contradict it
                        from . import gf2
                        eqs = gf2.vec_eqs(list(a.getbits()), list(b.getbits()))
                        if eqs is not None:
                            if not hasattr(self, "lin"):
                                self.lin, self.lin_neg, self.lin_n = gf2.System(), [], 0
                            st = [self.lin.status(e) for e in eqs]
                            if all(x == "implied" for x in st):
                                eq = True
                            elif any(x == "contradicted" for x in st):
                                eq = False
                            else:
                                self.lin_n += 1
                                eq = self.choose("affine-comparison#%d" % self.lin_n, (True, False))
                                if eq:
                                    for e in eqs:
                                        self.lin.add(e)
                                else:
                                    self.lin_neg.append(eqs)
                            return eq if op == "Eq" else not eq
                    return None

                def unknown_cmp(self, it, a, b):
                    if a.w == W and self.whole(a, b):
                        o = self.choose("ord(self,rc)", ("<", "=", ">"))
                        if list(a.getbits()) != list(S):
                            o = {"<": ">", "=": "=", ">": "<"}[o]
                        return {"<": 0, "=": 1, ">": 2}[o]
                    return None

            def run(h):
                r, _ = run_inst(F, kt.key("Kmer", "is_palindrome"), [self_ref()], h)
                return r
            bad, inc, rows = None, None, 0
            for a, out, h in explore(lambda script: PalH(script), run, max_runs=4000):
                rows += 1
                rep.evaluations += 1
                if isinstance(out, tuple) and out and out[0] in ("inconclusive", "diverge"):
                    if out[0] == "diverge":
                        bad = bad or ("is_palindrome diverges: %s" % out[1], a)
                    else:
                        inc = inc or out[1]
                    continue
                if not (isinstance(out, Int) and out.is_conc()):
                    inc = inc or ("undetermined result %r" % (out,))
                    continue
                val = bool(out.val)
                if hasattr(h, "lin"):
                    # decided by affine comparisons: the answer must agree with "self = rc(self)" on EVERY k-mer consistent with the outcomes
                    from . import gf2
                    P = gf2.vec_eqs(list(S), list(rc_spec)) or []

                    def letters(sol):
                        out_ = ""
                        for j in range(K):
                            hi_, lo_ = kt.lane_bits(j)
                            vb = lambda t: (1 if t == ONE else 0) if bv.t_is_const(t) is not None else sol.get(next(iter(next(iter(t)))), 0)
                            out_ += "ACGT"[vb(S[lo_]) | (vb(S[hi_]) << 1)]
                        return out_
                    if not h.lin.consistent:
                        continue
                    wit = None
                    if val:
                        # true: every k-mer satisfying the assumed equalities (and failing the others) must be its own reverse complement
                        for p_ in (P if K % 2 == 0 else [(frozenset(), 1)]):
                            if h.lin.status(p_) != "implied":
                                T2 = h.lin.copy()
                                T2.add((p_[0], p_[1] ^ 1))
                                if T2.consistent:
                                    sol = T2.solution()
                                    if all(any(not gf2.holds(e, sol) for e in neg) for neg in h.lin_neg):
                                        wit = (sol, "returns true for %s, which is not its own reverse complement" % letters(sol))
                                        break
                    elif K % 2 == 0:
                        TP = h.lin.copy()
                        for p_ in P:
                            TP.add(p_)
                        if TP.consistent and len(h.lin_neg) <= 1:
                            sol = None
                            if not h.lin_neg:
                                sol = TP.solution()
                            else:
                                for e in h.lin_neg[0]:
                                    if TP.status(e) != "implied":
                                        T3 = TP.copy()
                                        T3.add((e[0], e[1] ^ 1))
                                        if T3.consistent:
                                            sol = T3.solution()
                                            break
                            if sol is not None:
                                wit = (sol, "returns false for %s, which IS its own reverse complement" % letters(sol))
                        elif TP.consistent:
                            inc = inc or "several failed affine comparisons on one path"
                    if wit is not None:
                        bad = bad or ("is_palindrome %s (K = %d)" % (wit[1], K), a)
                    continue
                whole_eq = a.get("self==rc")
                if whole_eq is None and "ord(self,rc)" in a:
                    whole_eq = a["ord(self,rc)"] == "="
                pairs = {}
                for k_, v_ in a.items():
                    if k_.startswith("base") and "==compl(base" in k_:
                        i = int(k_[4:k_.index("==")])
                        j = int(k_[k_.index("(base") + 5:-1])
                        pairs[(i, j)] = v_
                if K % 2 == 1:
                    if val:
                        bad = bad or ("is_palindrome returns true for odd K = %d (an odd-length k-mer never equals its reverse complement)" % K, a)
                    continue
                # what the comparisons made establish
                proven_equal = whole_eq is True or all(pairs.get((i, K - 1 - i)) is True or pairs.get((K - 1 - i, i)) is True for i in range(K // 2))
                refuted = whole_eq is False or any(v_ is False and i + j == K - 1 for (i, j), v_ in pairs.items())
                stray = [(i, j) for (i, j) in pairs if i + j != K - 1]
                if stray:
                    bad = bad or ("is_palindrome compares base %d with the complement of base %d (not a mirror pair)" % stray[0], a)
                elif val and not proven_equal:
                    missing = [i for i in range(K // 2) if not (pairs.get((i, K - 1 - i)) or pairs.get((K - 1 - i, i)))]
                    bad = bad or ("is_palindrome returns true although the mirror pair(s) %s were never compared (K = %d): a k-mer that differs from its reverse "
                                  "complement only there is reported palindromic" % ([(i, K - 1 - i) for i in missing][:3], K), a)
                elif (not val) and not refuted:
                    bad = bad or ("is_palindrome returns false although every comparison it made found equality (K = %d)" % K, a)
            key = "%s/is_palindrome" % tag
            if bad:
                rep.violated("L-canon", key, bad[0], witness={"kind": "row", "row": {k_: str(v_) for k_, v_ in bad[1].items()}})
            elif inc:
                rep.inconclusive("L-canon", key, "is_palindrome: %s" % inc)
            else:
                rep.holds("L-canon", key, "is_palindrome ⇔ K even ∧ self = rc(self) (%d outcome rows)" % rows)
        guarded(rep, "L-canon", "%s/is_palindrome" % tag, "is_palindrome", pal)

    # bucket (C05.2)
    if want("bucket") and K >= 4:
        def f():
            key = "filter::bucket::<%s>" % tystr
            if key not in F.insts:
                # a private helper: if it is gone or has another shape, which bucket a k-mer goes to is decided by the pass-membership
                # tables of filter_kmers alone
                rep.inconclusive("L-bucket", tag, "the private helper filter::bucket::<%s> is not among the driver's instances (renamed, inlined or given another signature)" % tystr)
                return
            r, _ = run_inst(F, key, [kt.sym("s")])
            spec = [ZERO] * 64
            for j in range(4):
                hi, lo = kt.lane_bits(j)
                spec[2 * (3 - j) + 1], spec[2 * (3 - j)] = S[hi], S[lo]
            expect_bits(rep, "L-bucket", tag, r, spec, "bucket(k) = the first four bases as an 8-bit number (< 256, monotone in the k-mer order)")
        guarded(rep, "L-bucket", tag, "bucket", f)
    return kt


def expect_pop(rep, rule, key, got, spec_terms, desc):
    """the popcount argument must consist of exactly the specified lane terms (as a multiset)"""
    if CaseHarness.subst:
        rep.inconclusive(rule, key + _case_suffix(), "%s: decided under a case split this comparison does not support" % desc)
        return
    rep.evaluations += 1
    if isinstance(got, Int) and got.is_conc():
        terms = []
        if got.val != 0:
            rep.violated(rule, key, "%s: result is the constant %d" % (desc, got.val))
            return
    elif isinstance(got, Opaque) and "pop" in got.info and got.info.get("plus"):
        rep.violated(rule, key, "%s: the result is a count plus the constant %d" % (desc, got.info["plus"]), witness={"kind": "bit"})
        return
    elif isinstance(got, Opaque) and "pop" in got.info:
        terms = got.info["pop"]
    elif isinstance(got, Int) and got.sf is not None and len(got.sf) == 1 and got.sf[0][0] == 0:
        # counted in the register (mask / shift / add): one counter in the low bits
        lo_, wd_, terms = got.sf[0]
        spec_n = len([t for t in spec_terms if not (t is not TOP and len(t) == 0)])
        if len(terms) >= (1 << wd_) and sorted(bv.t_str(t) for t in terms) == sorted(bv.t_str(t) for t in spec_terms if not (t is not TOP and len(t) == 0)):
            rep.violated(rule, key, "%s: the %d lanes are counted, but only the low %d bits of the count are kept: a k-mer in which all %d lanes count "
                         "yields %d instead of %d" % (desc, spec_n, wd_, spec_n, spec_n % (1 << wd_), spec_n),
                         witness={"kind": "count-wraps", "lanes": spec_n, "kept_bits": wd_})
            return
        if len(terms) >= (1 << wd_):
            rep.inconclusive(rule, key, "%s: a counter reduced modulo 2^%d over other terms than the specified lanes" % (desc, wd_))
            return
    else:
        rep.inconclusive(rule, key, "%s: result %r is not a population count" % (desc, got))
        return
    if any(t is TOP for t in terms):
        rep.inconclusive(rule, key, "%s: unknown bit in the counted word" % desc)
        return
    spec_terms = [t for t in spec_terms if not (t is not TOP and len(t) == 0)]
    a = sorted(bv.t_str(t) for t in terms)
    b = sorted(bv.t_str(t) for t in spec_terms)
    if a == b:
        rep.holds(rule, key, desc)
    else:
        extra = [x for x in a if x not in b][:2]
        missing = [x for x in b if x not in a][:2]
        rep.violated(rule, key, "%s: counted terms differ from the per-lane specification (extra %s, missing %s)" % (desc, extra, missing),
                     witness={"kind": "bit", "extra": extra, "missing": missing, "n_got": len(a), "n_spec": len(b)})


# --------------------------------------------------------------------------- IntHelp ladders

def ladder_lemmas(F, rep):
    n = 0
    for w in (8, 16, 32, 64, 128):
        ty = "u%d" % w
        key = "<%s as kmer::IntHelp>::reverse_by_twos" % ty

        def f(w=w, key=key, ty=ty):
            x = bv.sym_int(w, "x")
            r, _ = run_inst(F, key, [Ref(Cell(x, "x"))])
            X = in_bits("x", w, w)
            spec = [None] * w
            for j in range(w // 2):
                src = w // 2 - 1 - j
                spec[2 * j], spec[2 * j + 1] = X[2 * src], X[2 * src + 1]
            expect_bits(rep, "L-rev", ty, r, spec, "reverse_by_twos reverses the order of the %d two-bit lanes" % (w // 2))
        guarded(rep, "L-rev", ty, "reverse_by_twos", f)

        def g(w=w, ty=ty):
            r, _ = run_inst(F, "<%s as kmer::IntHelp>::lower_of_two" % ty, [])
            expect_bits(rep, "L-low", ty, r, [ONE if i % 2 == 0 else ZERO for i in range(w)], "lower_of_two = 0b01 repeated")
        guarded(rep, "L-low", ty, "lower_of_two", g)
        n += 2
    return n


# --------------------------------------------------------------------------- Exts lemmas (u8)

def mk_exts(bits):
    return Adt("Exts", 0, [Int(8, False, bits=bits)])


def exts_val(v):
    if isinstance(v, Adt) and v.name == "Exts":
        return v.fields[0]
    return v


def exts_lemmas(F, rep):
    E = in_bits("e", 8, 8)
    G = in_bits("g", 8, 8)

    def eref():
        return Ref(Cell(mk_exts(E), "exts"))

    def run(name, args, h=None):
        return run_inst(F, "Exts::" + name, args, h)[0]

    def chk(name, got, spec, desc):
        expect_bits(rep, "L-exts", name, exts_val(got), spec, desc)

    guarded(rep, "L-exts", "complement", "complement", lambda: chk(
        "complement", run("complement", [eref()]), [E[4 * (i // 4) + 3 - (i % 4)] for i in range(8)],
        "Exts::complement maps base b to 3-b within each side"))
    guarded(rep, "L-exts", "reverse", "reverse", lambda: chk(
        "reverse", run("reverse", [eref()]), [E[(i + 4) % 8] for i in range(8)], "Exts::reverse swaps the two sides"))
    guarded(rep, "L-exts", "rc", "rc", lambda: chk(
        "rc", run("rc", [eref()]), [E[4 * (1 - i // 4) + 3 - (i % 4)] for i in range(8)],
        "Exts::rc swaps sides and complements bases"))
    for d in ("Left", "Right"):
        sh = 4 if d == "Right" else 0
        guarded(rep, "L-exts", "single_dir/" + d, "single_dir", lambda d=d, sh=sh: chk(
            "single_dir/" + d, run("single_dir", [eref(), dir_val(d)]),
            [E[i + sh] if i < 4 else ZERO for i in range(8)], "single_dir(%s) = that side's nibble in the low bits" % d))
        for b in range(4):
            def f(d=d, sh=sh, b=b):
                r = run("has_ext", [eref(), dir_val(d), u(8, b)])
                rep.evaluations += 1
                # result is (bits & (1<<b)) > 0 — decided only when the bit is; check both polarities
                for val in (0, 1):
                    bits = list(E)
                    bits[sh + b] = ONE if val else ZERO
                    rr = run("has_ext", [Ref(Cell(mk_exts(bits))), dir_val(d), u(8, b)])
                    if not (isinstance(rr, Int) and rr.is_conc() and rr.val == val):
                        rep.violated("L-exts", "has_ext/%s/%d" % (d, b),
                                     "has_ext(%s,%d) = %r when bit %d of the extension byte is %d" % (d, b, rr, sh + b, val),
                                     witness={"kind": "row", "row": {"dir": d, "base": b, "bit": val}, "got": repr(rr)})
                        return
                rep.holds("L-exts", "has_ext/%s/%d" % (d, b), "has_ext(%s,%d) ⇔ bit %d" % (d, b, sh + b))
            guarded(rep, "L-exts", "has_ext/%s/%d" % (d, b), "has_ext", f)

            def s(d=d, sh=sh, b=b):
                r = run("set", [eref(), dir_val(d), u(8, b)])
                spec = list(E)
                spec[sh + b] = ONE
                chk("set/%s/%d" % (d, b), r, spec, "set(%s,%d) sets exactly bit %d" % (d, b, sh + b))
            guarded(rep, "L-exts", "set/%s/%d" % (d, b), "set", s)
        # num_ext_dir / get_unique_extension over the 16 nibble values (index-like partition)
        for nib in range(16):
            def f(d=d, sh=sh, nib=nib):
                bits = list(E)
                for i in range(4):
                    bits[sh + i] = ONE if (nib >> i) & 1 else ZERO
                r = run("num_ext_dir", [Ref(Cell(mk_exts(bits))), dir_val(d)])
                rep.evaluations += 1
                pc = bin(nib).count("1")
                if not (isinstance(r, Int) and r.is_conc() and r.val == pc):
                    rep.violated("L-exts", "num_ext_dir/%s/%d" % (d, nib),
                                 "num_ext_dir(%s) = %r for nibble %s (popcount %d)" % (d, r, bin(nib), pc),
                                 witness={"kind": "row", "row": {"dir": d, "nibble": nib}, "got": repr(r), "spec": pc})
                    return
                r2 = run("get_unique_extension", [Ref(Cell(mk_exts(bits))), dir_val(d)])
                want = None if pc != 1 else nib.bit_length() - 1
                got = None
                if isinstance(r2, Adt) and r2.variant == 1:
                    gv = r2.fields[0]
                    got = gv.val if isinstance(gv, Int) and gv.is_conc() else "?"
                elif not (isinstance(r2, Adt) and r2.variant == 0):
                    got = "?"
                if got != want:
                    rep.violated("L-exts", "get_unique_extension/%s/%d" % (d, nib),
                                 "get_unique_extension(%s) = %r for nibble %s, specified %r" % (d, r2, bin(nib), want),
                                 witness={"kind": "row", "row": {"dir": d, "nibble": nib}, "got": repr(r2), "spec": want})
                    return
                rep.holds("L-exts", "num_ext/%s/%d" % (d, nib), "num_ext_dir and get_unique_extension agree with the nibble", nontrivial=True)
            guarded(rep, "L-exts", "num_ext/%s/%d" % (d, nib), "num_ext_dir", f)
    guarded(rep, "L-exts", "merge", "merge", lambda: chk(
        "merge", run("merge", [mk_exts(E), mk_exts(G)]), [E[i] if i < 4 else G[i] for i in range(8)],
        "merge(l, r) = left side of l, right side of r"))
    guarded(rep, "L-exts", "from_single_dirs", "from_single_dirs", lambda: chk(
        "from_single_dirs", run("from_single_dirs", [mk_exts(E), mk_exts(G)]), [E[i] if i < 4 else G[i - 4] for i in range(8)],
        "from_single_dirs(l, r) = l's low nibble on the left, r's low nibble on the right"))
    guarded(rep, "L-exts", "add", "add", lambda: chk(
        "add", run("add", [eref(), mk_exts(G)]), [t_or(E[i], G[i]) for i in range(8)], "add = union"))
    for b in range(4):
        guarded(rep, "L-exts", "mk_left/%d" % b, "mk_left", lambda b=b: chk(
            "mk_left/%d" % b, run("mk_left", [u(8, b)]), [ONE if i == b else ZERO for i in range(8)], "mk_left(b) = {b} on the left"))
        guarded(rep, "L-exts", "mk_right/%d" % b, "mk_right", lambda b=b: chk(
            "mk_right/%d" % b, run("mk_right", [u(8, b)]), [ONE if i == 4 + b else ZERO for i in range(8)], "mk_right(b) = {b} on the right"))
    guarded(rep, "L-exts", "empty", "empty", lambda: chk("empty", run("empty", []), [ZERO] * 8, "empty"))
    # 2-bit complement
    def c():
        b = base_arg("b")
        r, _ = run_inst(F, "complement", [b])
        expect_bits(rep, "L-compl", "complement", r, [t_not(var("b", 0)), t_not(var("b", 1))] + [ZERO] * 6,
                    "complement(b) = 3 - b = bitwise not of the two base bits")
    guarded(rep, "L-compl", "complement", "complement", c)


# --------------------------------------------------------------------------- Lmer lemmas

class LmerT:
    def __init__(self, F, tystr):
        self.F = F
        self.ty = tystr
        t = F.ty(tystr)
        self.adt = t["name"]
        arr = F.ty(t["vfields"][0][0])
        self.N = arr["len"]
        self.max_len = (self.N * 64 - 8) // 2

    def key(self, trait, m):
        return "<%s as %s>::%s" % (self.ty, trait, m)

    def pos_bits(self, p):
        """(word, hi, lo) of base p"""
        return (p // 32, 63 - 2 * (p % 32), 62 - 2 * (p % 32))

    def words(self, src, length, nbases=None):
        """symbolic storage: bases < nbases symbolic, the rest zero, length byte = length"""
        nb = self.max_len if nbases is None else nbases
        ws = [[ZERO] * 64 for _ in range(self.N)]
        for p in range(nb):
            w, hi, lo = self.pos_bits(p)
            ws[w][hi] = var(src, 2 * p + 1)
            ws[w][lo] = var(src, 2 * p)
        for i in range(8):
            ws[self.N - 1][i] = ONE if (length >> i) & 1 else ZERO
        return ws

    def mk(self, ws):
        return Adt(self.adt, 0, [Arr([Int(64, False, bits=w) for w in ws])])

    def words_of(self, v):
        if not (isinstance(v, Adt) and isinstance(v.fields[0], Arr)):
            raise Unsupported("not an Lmer value: %r" % (v,))
        return [e for e in v.fields[0].elems]


def _case_suffix():
    return ("/case-%s" % "".join("1" if c else "0" for c in CaseHarness._choices)) if CaseHarness.subst else ""


def expect_words(rep, rule, key, got_words, spec_words, desc):
    rep.evaluations += 1
    for wi, (g, sp) in enumerate(zip(got_words, spec_words)):
        if not isinstance(g, Int):
            rep.inconclusive(rule, key, "%s: word %d is not an integer: %r" % (desc, wi, g))
            return False
        gb = g.getbits()
        if CaseHarness.subst:
            gb = [bv.t_subst(x, CaseHarness.subst) for x in gb]
            sp = [bv.t_subst(x, CaseHarness.subst) for x in sp]
        for i in range(64):
            if gb[i] is TOP:
                rep.inconclusive(rule, key, "%s: word %d bit %d unknown" % (desc, wi, i))
                return False
            if gb[i] != sp[i]:
                rep.violated(rule, key, "%s: word %d bit %d is %s, specified %s" % (desc, wi, i, bv.t_str(gb[i]), bv.t_str(sp[i])),
                             witness={"kind": "bit", "word": wi, "bit": i, "got": bv.t_str(gb[i]), "spec": bv.t_str(sp[i])})
                return False
    rep.holds(rule, key + _case_suffix(), desc)
    return True


def lmer_lemmas(F, rep, which=None, ktypes=None):
    def want(x):
        return which is None or x in which
    lts = [c for c in F.d["containers"] if c.startswith("vmer::Lmer<")]
    rep.floor("Lmer capacities", 3, len(lts))
    for tystr in lts:
        lt = LmerT(F, tystr)
        N, ML = lt.N, lt.max_len
        tag = "Lmer%d" % N
        if N > 3 and rep.tier != "thorough":
            # quick tier: capacities 4-6 (lengths >= 128 need the whole length byte) get the constructor / length lemmas only
            def want(x, which=which):
                return x in ("new", "from_slice") and (which is None or x in which)

        if which is None or "debug" in which:
            # {:?}: the letters of bases 0..len in order and nothing else — in particular for lengths that fill whole storage words
            dkey = "<%s as std::fmt::Debug>::fmt" % tystr
            if dkey in F.insts:
                for ell in sorted({0, 1, 31, 32, 33, 63, 64, 65, ML - 1, ML} & set(range(ML + 1))):
                    def f_dbg(ell=ell, dkey=dkey, tag=tag, lt=lt):
                        h = render_harness()()
                        run_inst(F, dkey, [Ref(Cell(lt.mk(lt.words("s", ell, ell)), "self")), Ref(Cell(Opaque("Formatter", {"fmt"}), "f"))], h)
                        rep.evaluations += 1
                        text = "".join(h.out)
                        wtext = "".join("<r:%s|%s>" % (bv.t_str(var("s", 2 * p_)), bv.t_str(var("s", 2 * p_ + 1))) for p_ in range(ell))
                        k_ = "%s/Debug/len=%d" % (tag, ell)
                        if h.bad or "\u0001" in text:
                            rep.inconclusive("L-lmer-text", k_, "Debug: %s" % (h.bad[0] if h.bad else text[:120]))
                        elif text == wtext:
                            rep.holds("L-lmer-text", k_, "{:?} of a %d-base string writes its %d letters in order" % (ell, ell), nontrivial=False)
                        else:
                            got = re.findall(r"<r:[^>]*>|.", text)
                            rep.violated("L-lmer-text", k_, "{:?} of a %d-base string writes %d symbols (%s…); specified: the %d letters of bases 0..%d in order" % (
                                ell, len(got), "".join(got[:2])[:60], ell, ell), witness={"kind": "render", "len": ell})
                    guarded(rep, "L-lmer-text", "%s/Debug/len=%d" % (tag, ell), "Debug", f_dbg)

        if want("new"):
            def f_max():
                r, _ = run_inst(F, lt.key("Vmer", "max_len"), [])
                rep.evaluations += 1
                if isinstance(r, Int) and r.is_conc() and r.val == ML:
                    rep.holds("L-lmer-new", "%s/max_len" % tag, "max_len = (64*cap - 8)/2 = %d" % ML)
                else:
                    rep.violated("L-lmer-new", "%s/max_len" % tag, "max_len() = %r, the layout holds %d bases" % (r, ML))
            guarded(rep, "L-lmer-new", "%s/max_len" % tag, "max_len", f_max)
            for ell in range(ML + 1):
                def f(ell=ell):
                    r, _ = run_inst(F, lt.key("Vmer", "new"), [usize(ell)])
                    ok = expect_words(rep, "L-lmer-new", "%s/new/len=%d" % (tag, ell), lt.words_of(r), lt.words("s", ell, 0),
                                      "new(%d) is all A with the length byte %d" % (ell, ell))
                    if ok:
                        ln, _ = run_inst(F, lt.key("Mer", "len"), [Ref(Cell(r, "self"))])
                        rep.evaluations += 1
                        if isinstance(ln, Int) and ln.is_conc() and ln.val == ell:
                            rep.holds("L-lmer-new", "%s/len/len=%d" % (tag, ell), "len() reads back %d" % ell, nontrivial=False)
                        else:
                            rep.violated("L-lmer-new", "%s/len/len=%d" % (tag, ell), "len() of new(%d) is %r" % (ell, ln))
                guarded(rep, "L-lmer-new", "%s/new/len=%d" % (tag, ell), "new", f)
            # len() must read only the length byte, whatever the bases are
            def f_len():
                for ell in (0, 1, ML):
                    sr = Ref(Cell(lt.mk(lt.words("s", ell, ell)), "self"))
                    ln, _ = run_inst(F, lt.key("Mer", "len"), [sr])
                    rep.evaluations += 1
                    if not (isinstance(ln, Int) and ln.is_conc() and ln.val == ell):
                        rep.violated("L-lmer-new", "%s/len-full" % tag, "len() of a full Lmer with length byte %d is %r" % (ell, ln))
                        return
                rep.holds("L-lmer-new", "%s/len-full" % tag, "len() depends on the length byte only")
            guarded(rep, "L-lmer-new", "%s/len-full" % tag, "len", f_len)

        if want("from_slice"):
            for ell in sorted({0, 1, 2, min(5, ML), max(ML - 5, 0), max(ML - 4, 0), max(ML - 3, 0), max(ML - 2, 0), ML - 1, ML} |
                              ({31, 32, 33, 63, 64, 65, 95, 96, 97, 127, 128, 129, 159, 160, 161} & set(range(ML + 1)))):
                def f(ell=ell):
                    src = Ref(Cell(Arr(byte_seq("s", ell)), "bases"), (), 0, ell)
                    r, _ = run_inst(F, lt.key("Vmer", "from_slice"), [src])
                    expect_words(rep, "L-lmer-new", "%s/from_slice/len=%d" % (tag, ell), lt.words_of(r), lt.words("s", ell, ell),
                                 "from_slice of %d bases holds exactly those bases and the length byte %d" % (ell, ell))
                guarded(rep, "L-lmer-new", "%s/from_slice/len=%d" % (tag, ell), "from_slice", f)

        if want("get"):
            for p in range(ML):
                def f(p=p):
                    ws = lt.words("s", ML)
                    sr = Ref(Cell(lt.mk(ws), "self"))
                    r, _ = run_inst(F, lt.key("Mer", "get"), [sr, usize(p)])
                    expect_bits(rep, "L-lmer-get", "%s/pos=%d" % (tag, p), r, [var("s", 2 * p), var("s", 2 * p + 1)] + [ZERO] * 6,
                                "get(%d) returns base %d" % (p, p))
                guarded(rep, "L-lmer-get", "%s/pos=%d" % (tag, p), "get", f)

        if want("set"):
            for p in range(ML):
                def f(p=p):
                    ws = lt.words("s", ML)
                    sr = Ref(Cell(lt.mk(ws), "self"))
                    run_inst(F, lt.key("Mer", "set_mut"), [sr, usize(p), base_arg()])
                    spec = lt.words("s", ML)
                    w, hi, lo = lt.pos_bits(p)
                    spec[w][hi], spec[w][lo] = var("v", 1), var("v", 0)
                    expect_words(rep, "L-lmer-set", "%s/pos=%d" % (tag, p), lt.words_of(sr.cell.v), spec,
                                 "set_mut(%d, v) changes exactly base %d (never the length byte)" % (p, p))
                guarded(rep, "L-lmer-set", "%s/pos=%d" % (tag, p), "set_mut", f)

        if want("slice"):
            V = in_bits("val", 64, 64)
            for p in range(ML):
                for n in range(1, min(32, ML - p) + 1):
                    def f(p=p, n=n):
                        sr = Ref(Cell(lt.mk(lt.words("s", ML)), "self"))
                        run_inst(F, lt.key("Mer", "set_slice_mut"), [sr, usize(p), usize(n), Int(64, False, bits=V)])
                        spec = lt.words("s", ML)
                        for t in range(n):
                            w, hi, lo = lt.pos_bits(p + t)
                            spec[w][hi], spec[w][lo] = V[63 - 2 * t], V[62 - 2 * t]
                        expect_words(rep, "L-lmer-slice", "%s/pos=%d/n=%d" % (tag, p, n), lt.words_of(sr.cell.v), spec,
                                     "set_slice_mut(%d, %d, value) changes exactly bases %d..%d; length byte and other bases unchanged" % (p, n, p, p + n))
                    guarded(rep, "L-lmer-slice", "%s/pos=%d/n=%d" % (tag, p, n), "set_slice_mut", f)

        if want("slice") and lt.key("MerImmut", "set_slice") in F.insts:
            # the immutable form (blanket-implemented): the same write on a copy — runs of 1, 2, 31 and 32 bases, at offsets that keep them
            # inside a word, make them straddle one and end at the last base
            V = in_bits("val", 64, 64)
            pairs = sorted({(p_, n_) for p_ in (0, 1, 5, 31, 33, ML - 32, ML - 2, ML - 1) for n_ in (1, 2, 31, 32) if 0 <= p_ and n_ >= 1 and p_ + n_ <= ML})
            for p_, n_ in pairs:
                def f(p=p_, n=n_):
                    sr = Ref(Cell(lt.mk(lt.words("s", ML)), "self"))
                    r, _ = run_inst(F, lt.key("MerImmut", "set_slice"), [sr, usize(p), usize(n), Int(64, False, bits=V)])
                    spec = lt.words("s", ML)
                    for t in range(n):
                        w, hi, lo = lt.pos_bits(p + t)
                        spec[w][hi], spec[w][lo] = V[63 - 2 * t], V[62 - 2 * t]
                    ok = expect_words(rep, "L-lmer-slice", "%s/immut/pos=%d/n=%d" % (tag, p, n), lt.words_of(r), spec,
                                      "set_slice(%d, %d, value) returns the string with exactly bases %d..%d written; length byte and other bases unchanged" % (p, n, p, p + n))
                    if ok:
                        expect_words(rep, "L-lmer-slice", "%s/immut-self/pos=%d/n=%d" % (tag, p, n), lt.words_of(sr.cell.v), lt.words("s", ML),
                                     "set_slice(%d, %d, value) leaves the receiver unchanged" % (p, n))
                guarded(rep, "L-lmer-slice", "%s/immut/pos=%d/n=%d" % (tag, p_, n_), "set_slice", f)
        if want("set") and lt.key("MerImmut", "set") in F.insts:
            for p_ in sorted({0, 1, 31, 32, ML - 1} & set(range(ML))):
                def f(p=p_):
                    sr = Ref(Cell(lt.mk(lt.words("s", ML)), "self"))
                    r, _ = run_inst(F, lt.key("MerImmut", "set"), [sr, usize(p), base_arg()])
                    spec = lt.words("s", ML)
                    w, hi, lo = lt.pos_bits(p)
                    spec[w][hi], spec[w][lo] = var("v", 1), var("v", 0)
                    expect_words(rep, "L-lmer-set", "%s/immut/pos=%d" % (tag, p), lt.words_of(r), spec, "set(%d, v) returns the string with exactly base %d replaced" % (p, p))
                guarded(rep, "L-lmer-set", "%s/immut/pos=%d" % (tag, p_), "set", f)

        if want("rc"):
            for ell in range(ML + 1):
                def f(ell=ell):
                    sr = Ref(Cell(lt.mk(lt.words("s", ell, ell)), "self"))
                    r, _ = run_inst(F, lt.key("Mer", "rc"), [sr])
                    spec = lt.words("s", ell, 0)
                    for j in range(ell):
                        w, hi, lo = lt.pos_bits(j)
                        src = ell - 1 - j
                        spec[w][hi], spec[w][lo] = t_not(var("s", 2 * src + 1)), t_not(var("s", 2 * src))
                    expect_words(rep, "L-lmer-rc", "%s/len=%d" % (tag, ell), lt.words_of(r), spec,
                                 "rc() of a length-%d Lmer: base j = complement of base %d-j, length kept, unused lanes zero" % (ell, ell - 1))
                guarded(rep, "L-lmer-rc", "%s/len=%d" % (tag, ell), "rc", f)

        if want("get_kmer"):
            kts = ktypes if ktypes is not None else [k["ty"] for k in F.kmer_types]
            for kty in kts:
                try:
                    kt = KType(F, kty)
                    kt.K = kmer_k(F, kt)
                except Exception as e:  # reported by the k-mer lemmas
                    continue
                K = kt.K
                for pos in range(0, ML - K + 1):
                    def f(pos=pos, kt=kt, K=K, kty=kty):
                        sr = Ref(Cell(lt.mk(lt.words("s", ML)), "self"))
                        key = "<%s as Vmer>::get_kmer::<%s>" % (lt.ty, kty)
                        r, _ = run_inst(F, key, [sr, usize(pos)])
                        spec = [ZERO] * kt.W
                        for j in range(K):
                            hi, lo = kt.lane_bits(j)
                            spec[hi], spec[lo] = var("s", 2 * (pos + j) + 1), var("s", 2 * (pos + j))
                        expect_bits(rep, "L-lmer-getkmer", "%s/%s/pos=%d" % (tag, kty, pos), kt.storage_of(r), spec,
                                    "get_kmer::<%s>(%d) = bases %d..%d" % (kty, pos, pos, pos + K))
                    guarded(rep, "L-lmer-getkmer", "%s/%s/pos=%d" % (tag, kty, pos), "get_kmer", f)
                # the terminal accessors (trait defaults unless the container overrides them): first / last / term(Left|Right) / both, at the
                # full length and at lengths K+1, K+2, 2K-1, 2K where they fit (overlapping and disjoint terminal k-mers)
                from .dt import dir_v, LEFT, RIGHT
                for ell in sorted({e for e in (ML, K + 1, K + 2, 2 * K - 1, 2 * K) if K <= e <= ML}):
                    for meth, extra, picks in (("first_kmer", [], [0]), ("last_kmer", [], [ell - K]), ("term_kmer", [dir_v(LEFT)], [0]),
                                               ("term_kmer", [dir_v(RIGHT)], [ell - K]), ("both_term_kmer", [], [0, ell - K])):
                        akey = "<%s as Vmer>::%s::<%s>" % (lt.ty, meth, kty)
                        if akey not in F.insts:
                            continue
                        vk = "%s/%s/%s%s/len=%d" % (tag, kty, meth, ("(%s)" % ("Left" if picks == [0] else "Right")) if extra else "", ell)

                        def g(ell=ell, kt=kt, K=K, akey=akey, vk=vk, meth=meth, extra=extra, picks=picks):
                            sr = Ref(Cell(lt.mk(lt.words("s", ell, ell)), "self"))
                            r, _ = run_inst(F, akey, [sr] + list(extra))
                            outs = list(r.fields) if isinstance(r, Tup) else [r]
                            if len(outs) != len(picks):
                                rep.inconclusive("L-lmer-getkmer", vk, "%s returns %r" % (meth, r))
                                return
                            for o, pos in zip(outs, picks):
                                spec = [ZERO] * kt.W
                                for j in range(K):
                                    hi, lo = kt.lane_bits(j)
                                    spec[hi], spec[lo] = var("s", 2 * (pos + j) + 1), var("s", 2 * (pos + j))
                                if not expect_bits(rep, "L-lmer-getkmer", vk, kt.storage_of(o), spec,
                                                   "%s on a length-%d Lmer = bases %d..%d" % (meth, ell, pos, pos + K)):
                                    return
                        guarded(rep, "L-lmer-getkmer", vk, meth, g)


# --------------------------------------------------------------------------- C11: eq / ord on k-mers

class CaptureOrd(OrdHarness):
    def __init__(self, order):
        OrdHarness.__init__(self, order)
        self.captured = []

    def unknown_compare(self, it, op, a, b):
        self.captured.append((op, a, b))
        return OrdHarness.unknown_compare(self, it, op, a, b)

    def unknown_cmp(self, it, a, b):
        self.captured.append(("Cmp", a, b))
        return OrdHarness.unknown_cmp(self, it, a, b)


def _same_bits(x, bits):
    return isinstance(x, Int) and not x.signed and list(x.getbits()) == list(bits)


def eq_ord_lemmas(F, rep, tystr):
    """equality and order of a k-mer type consult exactly the two storage integers, as unsigned numbers"""
    kt = KType(F, tystr)
    try:
        kt.K = kmer_k(F, kt)
    except Exception as e:
        rep.violated("L-eqord", tystr, "cannot evaluate K: %s" % e)
        return
    K, W = kt.K, kt.W
    A, B = in_bits("a", 2 * K, W), in_bits("b", 2 * K, W)

    def refs():
        return Ref(Cell(kt.sym("a"), "a")), Ref(Cell(kt.sym("b"), "b"))

    ORD = {"<": 0, "=": 1, ">": 2}
    specs = [
        ("std::cmp::PartialEq", "eq", lambda o: o == "="),
        ("std::cmp::PartialEq", "ne", lambda o: o != "="),
        ("std::cmp::PartialOrd", "lt", lambda o: o == "<"),
        ("std::cmp::PartialOrd", "le", lambda o: o in "<="),
        ("std::cmp::PartialOrd", "gt", lambda o: o == ">"),
        ("std::cmp::PartialOrd", "ge", lambda o: o in ">="),
        ("std::cmp::Ord", "cmp", lambda o: ("ord", ORD[o])),
        ("std::cmp::PartialOrd", "partial_cmp", lambda o: ("some-ord", ORD[o])),
    ]
    for trait, meth, spec in specs:
        key = "<%s as %s>::%s" % (tystr, trait, meth)
        if key not in F.insts:
            if meth in ("eq", "cmp", "partial_cmp"):
                rep.violated("L-eqord", "%s/%s" % (tystr, meth), "anchor-missing: no instance %s" % key, witness={"kind": "anchor-missing"})
            continue
        for order in "<=>":
            okey = "%s/%s/%s" % (tystr, meth, order)

            def f(key=key, order=order, spec=spec, meth=meth, okey=okey):
                h = CaptureOrd(order)
                a, b = refs()
                r, _ = run_inst(F, key, [a, b], h)
                rep.evaluations += 1
                want = spec(order)
                got = None
                if isinstance(r, Int) and r.is_conc():
                    got = bool(r.val)
                elif isinstance(r, Adt) and r.name.endswith("Ordering"):
                    got = ("ord", r.variant)
                elif isinstance(r, Adt) and r.name.endswith("Option") and r.variant == 1 and isinstance(r.fields[0], Adt):
                    got = ("some-ord", r.fields[0].variant)
                if got != want:
                    rep.violated("L-eqord", okey, "%s returns %r when the two strings compare %s (specified %r)" % (meth, r, order, want),
                                 witness={"kind": "row", "row": {"ord(a,b)": order}, "got": repr(r), "spec": repr(want)})
                    return
                if not h.captured:
                    rep.violated("L-eqord", okey, "%s decided %r without comparing the storage of the operands" % (meth, r),
                                 witness={"kind": "row", "row": {"ord(a,b)": order}, "got": repr(r)})
                    return
                for op, x, y in h.captured:
                    fwd = _same_bits(x, A) and _same_bits(y, B)
                    rev = _same_bits(x, B) and _same_bits(y, A) and op in ("Eq", "Ne")
                    if not (fwd or rev):
                        rep.violated("L-eqord", okey,
                                     "%s compares %r with %r — not the two storage integers as unsigned numbers, so the result is not the "
                                     "lexicographic string comparison" % (meth, x, y),
                                     witness={"kind": "operands", "op": op, "a": repr(x)[:200], "b": repr(y)[:200]})
                        return
                rep.holds("L-eqord", okey, "%s ⇔ string comparison (%s): compares exactly the storage integers" % (meth, order))
            guarded(rep, "L-eqord", okey, meth, f)


# --------------------------------------------------------------------------- DnaString lemmas (C13.1, C14.2, C14.3, C14.6)

DS = "dna_string::DnaString"


class DnaT:
    """abstract DnaString values: base i lives in word i/32, bit pair (63-2(i%32), 62-2(i%32))"""

    def __init__(self, F):
        self.F = F
        a = F.adts.get(DS)
        if not a:
            raise Unsupported("anchor-missing: %s" % DS)
        self.names = [f["name"] for f in a["variants"][0]["fields"]]
        if sorted(self.names) != ["len", "storage"]:
            raise Unsupported("the private fields of DnaString are %s (the lemmas are written against storage, len)" % self.names)

    def words(self, src, n, nsym=None):
        """canonical storage of a length-n string: bases < nsym symbolic, padding zero"""
        nsym = n if nsym is None else nsym
        nw = (n + 31) // 32
        ws = [[ZERO] * 64 for _ in range(nw)]
        for i in range(nsym):
            w, hi, lo = i // 32, 63 - 2 * (i % 32), 62 - 2 * (i % 32)
            ws[w][hi], ws[w][lo] = var(src, 2 * i + 1), var(src, 2 * i)
        return ws

    def mk(self, ws, n):
        vals = {"storage": VecV([Int(64, False, bits=w) for w in ws]), "len": usize(n)}
        return Adt(DS, 0, [vals[k] for k in self.names])

    def sym(self, src, n):
        return self.mk(self.words(src, n), n)

    def parts(self, v):
        if not (isinstance(v, Adt) and v.name == DS):
            raise Unsupported("not a DnaString: %r" % (v,))
        d = {k: v.fields[i] for i, k in enumerate(self.names)}
        return d["storage"], d["len"]


def expect_dna(rep, rule, key, dt, got, spec_words, spec_len, desc):
    rep.evaluations += 1
    try:
        st, ln = dt.parts(got)
    except Unsupported as e:
        rep.inconclusive(rule, key, "%s: %s" % (desc, e))
        return False
    if not (isinstance(ln, Int) and ln.is_conc()):
        rep.inconclusive(rule, key, "%s: length is %r" % (desc, ln))
        return False
    if ln.val != spec_len:
        rep.violated(rule, key, "%s: length is %d, specified %d" % (desc, ln.val, spec_len), witness={"kind": "len", "got": ln.val, "spec": spec_len})
        return False
    if not isinstance(st, VecV):
        rep.inconclusive(rule, key, "%s: storage is %r" % (desc, st))
        return False
    if len(st.elems) != len(spec_words):
        rep.violated(rule, key, "%s: %d storage words for %d bases, the representation invariant needs ceil(len/32) = %d (equality, order and hash "
                     "compare the word vector)" % (desc, len(st.elems), spec_len, len(spec_words)),
                     witness={"kind": "blocks", "got": len(st.elems), "spec": len(spec_words)})
        return False
    for wi, (g, sp) in enumerate(zip(st.elems, spec_words)):
        gb = g.getbits() if isinstance(g, Int) else None
        if gb is None:
            rep.inconclusive(rule, key, "%s: word %d is %r" % (desc, wi, g))
            return False
        if CaseHarness.subst:
            gb = [bv.t_subst(x, CaseHarness.subst) for x in gb]
            sp = [bv.t_subst(x, CaseHarness.subst) for x in sp]
        for i in range(64):
            if gb[i] is TOP:
                rep.inconclusive(rule, key, "%s: word %d bit %d unknown" % (desc, wi, i))
                return False
            if gb[i] != sp[i]:
                base = wi * 32 + (63 - i) // 2
                rep.violated(rule, key, "%s: word %d bit %d (base %d) is %s, specified %s" % (desc, wi, i, base, bv.t_str(gb[i]), bv.t_str(sp[i])),
                             witness={"kind": "bit", "word": wi, "bit": i, "got": bv.t_str(gb[i]), "spec": bv.t_str(sp[i])})
                return False
    rep.holds(rule, key, desc)
    return True


def byte_seq(src, m, start=0):
    """m in-range base bytes b_start.. as u8 values (precondition: < 4)"""
    return [Int(8, False, bits=[var(src, 2 * (start + j)), var(src, 2 * (start + j) + 1)] + [ZERO] * 6) for j in range(m)]


def first_inst(F, prefix):
    ks = sorted(k for k in F.insts if k.startswith(prefix))
    if not ks:
        raise KeyError(prefix + "…")
    return ks[0]


def dnastring_lemmas(F, rep, which=None, maxn=70, ktypes=None, kmer_positions=None):
    from .models import IterV

    def want(x):
        return which is None or x in which
    try:
        dt = DnaT(F)
    except Unsupported as e:
        rep.inconclusive("L-dna", "DnaString", "role discovery: %s" % e)
        return

    def spec_after(n0, added_src, m):
        """words of s0[0..n0) followed by m new bases from added_src"""
        n = n0 + m
        ws = dt.words("s", n, n0)
        for j in range(m):
            i = n0 + j
            w, hi, lo = i // 32, 63 - 2 * (i % 32), 62 - 2 * (i % 32)
            ws[w][hi], ws[w][lo] = var(added_src, 2 * j + 1), var(added_src, 2 * j)
        return ws

    if want("new"):
        for nm in ("new", "with_capacity"):
            def f(nm=nm):
                args = [] if nm == "new" else [usize(77)]
                r, _ = run_inst(F, "dna_string::DnaString::" + nm, args)
                expect_dna(rep, "L-dna-new", nm, dt, r, [], 0, "%s() is the empty string with no storage words" % nm)
            guarded(rep, "L-dna-new", nm, nm, f)
        for n in range(0, maxn + 1):
            def f(n=n):
                r, _ = run_inst(F, "dna_string::DnaString::blank", [usize(n)])
                expect_dna(rep, "L-dna-new", "blank/n=%d" % n, dt, r, dt.words("s", n, 0), n, "blank(%d) is %d A's in ceil(n/32) zero words" % (n, n))
            guarded(rep, "L-dna-new", "blank/n=%d" % n, "blank", f)

        def fclear():
            cell = Cell(dt.sym("s", 40), "self")
            run_inst(F, "dna_string::DnaString::clear", [Ref(cell)])
            expect_dna(rep, "L-dna-new", "clear", dt, cell.v, [], 0, "clear() leaves the empty string")
        guarded(rep, "L-dna-new", "clear", "clear", fclear)

    if want("get"):
        n = 70
        for i in range(n):
            def f(i=i):
                r, _ = run_inst(F, "<dna_string::DnaString as Mer>::get", [Ref(Cell(dt.sym("s", n), "self")), usize(i)])
                expect_bits(rep, "L-dna-get", "pos=%d" % i, r, [var("s", 2 * i), var("s", 2 * i + 1)] + [ZERO] * 6, "get(%d) returns base %d" % (i, i))
            guarded(rep, "L-dna-get", "pos=%d" % i, "get", f)

            def g(i=i):
                cell = Cell(dt.sym("s", n), "self")
                v = Int(8, False, bits=[var("v", j) for j in range(8)])
                run_inst(F, "<dna_string::DnaString as Mer>::set_mut", [Ref(cell), usize(i), v])
                ws = dt.words("s", n)
                w, hi, lo = i // 32, 63 - 2 * (i % 32), 62 - 2 * (i % 32)
                ws[w][hi], ws[w][lo] = var("v", 1), var("v", 0)
                expect_dna(rep, "L-dna-set", "pos=%d" % i, dt, cell.v, ws, n, "set_mut(%d, v) writes exactly base %d (value masked to two bits)" % (i, i))
            guarded(rep, "L-dna-set", "pos=%d" % i, "set_mut", g)

    if want("push"):
        for n0 in range(0, 67):
            def f(n0=n0):
                cell = Cell(dt.sym("s", n0), "self")
                v = Int(8, False, bits=[var("a", j) for j in range(8)])
                run_inst(F, "dna_string::DnaString::push", [Ref(cell), v])
                expect_dna(rep, "L-dna-push", "len=%d" % n0, dt, cell.v, spec_after(n0, "a", 1), n0 + 1,
                           "push on a length-%d string appends exactly one base (low two bits of the value) and keeps ceil(len/32) words" % n0)
            guarded(rep, "L-dna-push", "len=%d" % n0, "push", f)

    if want("extend"):
        def ext_key():
            # any instance of the generic `extend` whose iterator yields the bytes of a slice by value (which adapter is used is the
            # caller's business: `.iter().cloned()`, `.iter().copied()`, …)
            for pre in ("dna_string::DnaString::extend::<std::iter::Cloned<std::slice::Iter<", "dna_string::DnaString::extend::<std::iter::Copied<std::slice::Iter<"):
                ks = sorted(k for k in F.insts if k.startswith(pre))
                if ks:
                    return ks[0]
            raise Unsupported("no instance of DnaString::extend over a by-value slice iterator is compiled into the crate")
        for n0 in (0, 1, 31, 32, 33):
            for m in range(0, maxn + 1):
                def f(n0=n0, m=m):
                    cell = Cell(dt.sym("s", n0), "self")
                    src = Ref(Cell(Arr(byte_seq("a", m)), "bytes"))
                    itv = IterV("cloned", (IterV("slice", (src, 0, m)),))
                    run_inst(F, ext_key(), [Ref(cell), itv])
                    expect_dna(rep, "L-dna-extend", "len=%d/m=%d" % (n0, m), dt, cell.v, spec_after(n0, "a", m), n0 + m,
                               "extend of a length-%d string by %d bases appends exactly those bases in order" % (n0, m))
                guarded(rep, "L-dna-extend", "len=%d/m=%d" % (n0, m), "extend", f)
        for m in range(0, maxn + 1):
            def f(m=m):
                src = Ref(Cell(Arr(byte_seq("a", m)), "bytes"))
                r, _ = run_inst(F, "dna_string::DnaString::from_bytes", [src])
                expect_dna(rep, "L-dna-extend", "from_bytes/m=%d" % m, dt, r, spec_after(0, "a", m), m, "from_bytes of %d bases" % m)
            guarded(rep, "L-dna-extend", "from_bytes/m=%d" % m, "from_bytes", f)

    if want("rc"):
        for n in list(range(0, 40)) + [63, 64, 65]:
            def f(n=n):
                r, _ = run_inst(F, "<dna_string::DnaString as Mer>::rc", [Ref(Cell(dt.sym("s", n), "self"))])
                ws = dt.words("s", n, 0)
                for j in range(n):
                    srci = n - 1 - j
                    w, hi, lo = j // 32, 63 - 2 * (j % 32), 62 - 2 * (j % 32)
                    ws[w][hi], ws[w][lo] = t_not(var("s", 2 * srci + 1)), t_not(var("s", 2 * srci))
                expect_dna(rep, "L-dna-rc", "len=%d" % n, dt, r, ws, n, "rc() of a length-%d string: base j = complement of base n-1-j" % n)
            guarded(rep, "L-dna-rc", "len=%d" % n, "rc", f)

            def g(n=n):
                r, _ = run_inst(F, "dna_string::DnaString::reverse", [Ref(Cell(dt.sym("s", n), "self"))])
                ws = dt.words("s", n, 0)
                for j in range(n):
                    srci = n - 1 - j
                    w, hi, lo = j // 32, 63 - 2 * (j % 32), 62 - 2 * (j % 32)
                    ws[w][hi], ws[w][lo] = var("s", 2 * srci + 1), var("s", 2 * srci)
                expect_dna(rep, "L-dna-rc", "reverse/len=%d" % n, dt, r, ws, n, "reverse() of a length-%d string" % n)
            guarded(rep, "L-dna-rc", "reverse/len=%d" % n, "reverse", g)

    if want("render"):
        for n in (0, 1, 31, 32, 33, 64):
            def f(n=n):
                r, _ = run_inst(F, "dna_string::DnaString::to_bytes", [Ref(Cell(dt.sym("s", n), "self"))])
                rep.evaluations += 1
                ok = isinstance(r, VecV) and len(r.elems) == n and all(
                    isinstance(e, Int) and list(e.getbits()) == [var("s", 2 * i), var("s", 2 * i + 1)] + [ZERO] * 6 for i, e in enumerate(r.elems))
                if ok:
                    rep.holds("L-dna-render", "to_bytes/len=%d" % n, "to_bytes() lists the %d bases in order" % n)
                else:
                    rep.violated("L-dna-render", "to_bytes/len=%d" % n, "to_bytes() of a length-%d string is %r" % (n, r))
            guarded(rep, "L-dna-render", "to_bytes/len=%d" % n, "to_bytes", f)

    if want("ndiffs"):
        for n in (0, 1, 32, 33, 64, 70):
            def f(n=n):
                a, b = dt.sym("a", n), dt.sym("b", n)
                r, _ = run_inst(F, "dna_string::ndiffs", [Ref(Cell(a)), Ref(Cell(b))])
                spec = []
                for i in range(n):
                    spec.append(t_or(t_xor(var("a", 2 * i + 1), var("b", 2 * i + 1)), t_xor(var("a", 2 * i), var("b", 2 * i))))
                expect_popsum(rep, "L-dna-ndiffs", "len=%d" % n, r, spec, "ndiffs counts exactly the positions where two length-%d strings differ" % n)
            guarded(rep, "L-dna-ndiffs", "len=%d" % n, "ndiffs", f)

    if want("get_kmer"):
        nbases = 160
        kts = ktypes if ktypes is not None else [k["ty"] for k in F.kmer_types]
        for kty in kts:
            try:
                kt = KType(F, kty)
                kt.K = kmer_k(F, kt)
            except Exception:
                continue
            K = kt.K
            for pos in (range(0, 70) if kmer_positions is None else kmer_positions(K)):
                def f(pos=pos, kt=kt, K=K, kty=kty):
                    key = "<dna_string::DnaString as Vmer>::get_kmer::<%s>" % kty
                    r, _ = run_inst(F, key, [Ref(Cell(dt.sym("s", nbases), "self")), usize(pos)])
                    spec = [ZERO] * kt.W
                    for j in range(K):
                        hi, lo = kt.lane_bits(j)
                        spec[hi], spec[lo] = var("s", 2 * (pos + j) + 1), var("s", 2 * (pos + j))
                    expect_bits(rep, "L-dna-getkmer", "%s/pos=%d" % (kty, pos), kt.storage_of(r), spec,
                                "DnaString::get_kmer::<%s>(%d) = bases %d..%d (block walk over up to %d words)" % (kty, pos, pos, pos + K, (pos % 32 + K + 31) // 32))
                guarded(rep, "L-dna-getkmer", "%s/pos=%d" % (kty, pos), "get_kmer", f)


def expect_popsum(rep, rule, key, got, spec_terms, desc):
    """a sum of population counts (ndiffs adds one per word): collect the counted terms of the summands"""
    if CaseHarness.subst:
        rep.inconclusive(rule, key + _case_suffix(), "%s: decided under a case split this comparison does not support" % desc)
        return
    rep.evaluations += 1
    terms = None
    if isinstance(got, Int) and got.is_conc():
        terms = [] if got.val == 0 else None
        if terms is None:
            rep.violated(rule, key, "%s: result is the constant %d" % (desc, got.val))
            return
    elif isinstance(got, Opaque) and "pop" in got.info and got.info.get("plus"):
        rep.violated(rule, key, "%s: the result is a count plus the constant %d" % (desc, got.info["plus"]), witness={"kind": "bit"})
        return
    elif isinstance(got, Opaque) and "pop" in got.info:
        terms = got.info["pop"]
    elif isinstance(got, Int) and got.sf is not None and (len(got.sf) == 0 or (len(got.sf) == 1 and got.sf[0][0] == 0 and len(got.sf[0][2]) < (1 << got.sf[0][1]))):
        # counted in the register (mask / shift / add): one exact counter in the low bits
        terms = list(got.sf[0][2]) if got.sf else []
    elif isinstance(got, Int) and got.tags and any(t.startswith("popsum:") for t in got.tags):
        terms = None
    if terms is None:
        rep.inconclusive(rule, key, "%s: result %r is not a recognisable sum of population counts" % (desc, got))
        return
    spec_terms = [t for t in spec_terms if not (t is not TOP and len(t) == 0)]
    a = sorted(bv.t_str(t) for t in terms)
    b = sorted(bv.t_str(t) for t in spec_terms)
    if a == b:
        rep.holds(rule, key, desc)
    else:
        rep.violated(rule, key, "%s: counted terms differ (extra %s, missing %s)" % (desc, [x for x in a if x not in b][:2], [x for x in b if x not in a][:2]),
                     witness={"kind": "bit", "n_got": len(a), "n_spec": len(b)})


# ----------------------------------------------------------------------------------------------------------------------
# DnaString: text / ASCII renderings, iteration and packed-byte push (C14, C16 "rendering back")
# The per-byte tables bits_to_ascii / bits_to_base are decided by C16.1 (byte_tables); here they are intercepted as
# uninterpreted functions of their argument so that what is decided is *which* base every output position renders.
class RenderOracles:
    """mixin for a WriterOracles-like harness: bits_to_ascii / bits_to_base return a value tagged with the exact
    provenance of their argument bits"""
    pass


def ascii_bits(lo, hi, width=8):
    """the ASCII letter of the base whose two bits are the terms (lo, hi): A C G T = 65 67 71 84, as ANF terms"""
    vals = {0: 65, 1: 67, 2: 71, 3: 84}
    out = []
    for bit in range(width):
        tt = [(vals[b] >> bit) & 1 if bit < 8 else 0 for b in range(4)]        # index = lo + 2*hi
        # Moebius over (lo, hi)
        c0 = tt[0]
        c_lo = tt[0] ^ tt[1]
        c_hi = tt[0] ^ tt[2]
        c_both = tt[0] ^ tt[1] ^ tt[2] ^ tt[3]
        t = ONE if c0 else ZERO
        if c_lo:
            t = t_xor(t, lo)
        if c_hi:
            t = t_xor(t, hi)
        if c_both:
            t = t_xor(t, t_and(lo, hi))
        out.append(t)
    return out


def renders_base(e, lo, hi):
    """is the output element e the letter of the base (lo, hi)?  Either the (uninterpreted) table result tagged with exactly these bits,
    or an integer whose bits are the ASCII letter as a function of them"""
    from .absint import tags_of
    if not isinstance(e, Int):
        return False
    if ("r:%s|%s" % (bv.t_str(lo), bv.t_str(hi))) in tags_of(e):
        return True
    bits = list(e.getbits())
    if any(b is TOP for b in bits):
        return False
    return bits == ascii_bits(lo, hi, len(bits))


def _render_tag(arg):
    if not isinstance(arg, Int):
        return None
    bits = list(arg.getbits())
    if any(b is TOP for b in bits):
        return None
    if any(b != ZERO for b in bits[2:]):
        return None
    return "r:%s|%s" % (bv.t_str(bits[0]), bv.t_str(bits[1]))


def render_harness():
    from .dt_export import WriterOracles, FmtArg, FmtArgs
    from .absint import tags_of

    class H(WriterOracles):
        interpret_fmt = True

        def __init__(self):
            WriterOracles.__init__(self)
            self.bad = []

        def on_call(self, it, fn, args, dest_ty, term, caller):
            path = fn.get("path", "")
            if path in ("bits_to_base", "bits_to_ascii"):
                t = _render_tag(args[0])
                if t is None:
                    self.bad.append("%s applied to %r" % (path, args[0]))
                    t = "r:?"
                w = 32 if path == "bits_to_base" else 8
                return Int(w, False, bits=[TOP] * w, tags=frozenset({t}), kind="char" if path == "bits_to_base" else "int")
            name = path.split("::")[-1]
            if name in ("from_utf8", "from_utf8_unchecked") and len(args) == 1 and isinstance(args[0], Ref):
                # bytes that are all letters of bases (table results) are valid UTF-8
                from .models import seq_of
                sq = seq_of(it, args[0])
                if sq is not None and all(isinstance(e, Int) and (any(x.startswith("r:") for x in tags_of(e)) or (e.is_conc() and e.val < 128))
                                          for e in sq[0].elems[sq[1]:sq[1] + sq[2]]):
                    return Adt("std::result::Result", 0, [args[0]]) if name == "from_utf8" else args[0]
            if path.startswith("core::fmt::Formatter") or path.startswith("std::fmt::Formatter"):
                if name == "write_fmt" and len(args) == 2 and isinstance(args[1], FmtArgs):
                    self.emit(it, args[1])
                    return Adt("std::result::Result", 0, [Tup([])])
                if name in ("write_str", "write_char", "pad") and len(args) == 2:
                    self.out.append(self.render_arg(it, FmtArg("display", args[1])))
                    return Adt("std::result::Result", 0, [Tup([])])
                if name == "debug_struct" and len(args) == 2:
                    # the builder writes as it goes: `Name`, then ` { f: v` / `, f: v` per field, then ` }`
                    self.out.append(self.render_arg(it, FmtArg("display", args[1])))
                    return Opaque("std::fmt::DebugStruct", {"debug-struct"}, {"fields": 0})
            if "fmt::DebugStruct" in path or "fmt::builders::DebugStruct" in path:
                b = args[0]
                st = it.read(b.cell, b.path) if isinstance(b, Ref) else b
                if isinstance(st, Opaque) and "debug-struct" in st.tags:
                    if name == "field" and len(args) == 3:
                        nf = st.info.get("fields", 0)
                        self.out.append((", " if nf else " { ") + self.render_arg(it, FmtArg("display", args[1])) + ": " + self.render_arg(it, FmtArg("debug", args[2])))
                        if isinstance(b, Ref):
                            it.write(b.cell, b.path, Opaque("std::fmt::DebugStruct", {"debug-struct"}, {"fields": nf + 1}))
                        return b
                    if name in ("finish", "finish_non_exhaustive") and len(args) == 1:
                        nf = st.info.get("fields", 0)
                        if name == "finish_non_exhaustive":
                            self.out.append(", .. }" if nf else " { .. }")
                        elif nf:
                            self.out.append(" }")
                        return Adt("std::result::Result", 0, [Tup([])])
            r = WriterOracles.on_call(self, it, fn, args, dest_ty, term, caller)
            if r is NotImplemented and name == "fmt" and it.find_body(fn) is not None:
                return r        # a formatting impl of the crate itself: interpreted
            if r is NotImplemented and ("fmt::" in path or "fmt::" in (fn.get("trait") or "")) and not path.startswith("dna_string::"):
                self.bad.append("formatting call %s is not captured" % path)
            return r

        def render_arg(self, it, a):
            v = a.val
            last = None
            while isinstance(v, Ref):
                last = v
                v = it.read(v.cell, v.path)
            if isinstance(v, (Arr, VecV)) and last is not None and (last.off or last.len is not None):
                # a sub-slice (&buf[..n]): only its own elements are written
                n_ = last.len if last.len is not None else len(v.elems) - last.off
                v = VecV(list(v.elems[last.off:last.off + n_]))
            elif isinstance(v, Arr):
                v = VecV(list(v.elems))
            if isinstance(v, Int):
                t = [x for x in tags_of(v) if x.startswith("r:")]
                if t:
                    return ("'<%s>'" if a.kind == "debug" and v.kind == "char" else "<%s>") % t[0]
                if v.kind == "bool" and v.is_conc():
                    return "true" if v.val else "false"
            if isinstance(v, VecV) or (isinstance(v, Adt) and v.name.endswith("String")):
                el = v.elems if isinstance(v, VecV) else (v.fields[0].elems if v.fields and isinstance(v.fields[0], VecV) else None)
                if el is not None:
                    out = ""
                    for e in el:
                        t = [x for x in tags_of(e) if x.startswith("r:")] if isinstance(e, Int) else []
                        if t:
                            out += "<%s>" % t[0]
                        elif isinstance(e, Int) and e.is_conc() and e.val < 0x110000:
                            out += chr(e.val)           # literal text (a field name, a separator)
                        else:
                            out += "\u0001<untagged %r>" % (e,)
                    if a.kind == "debug":
                        # Debug of a String / str is the quoted text (letters need no escape), of a Vec the bracketed list
                        is_text = isinstance(v, Adt) or all(isinstance(e, Int) and e.kind == "char" for e in el) or getattr(last, "is_str", False)
                        return '"%s"' % out if is_text else "\u0001<Debug of a vector>"
                    return out
            return WriterOracles.render_arg(self, it, FmtArg(a.kind, v) if isinstance(v, Int) else a)

    return H


def dnastring_render_lemmas(F, rep, rule="L-dna-text", lengths=(0, 1, 2, 31, 32, 33, 64, 65)):
    from .dt_export import WriterOracles, FmtArg, FmtArgs
    from .absint import tags_of

    try:
        dt = DnaT(F)
    except Unsupported as e:
        rep.inconclusive(rule, "DnaString", "role discovery: %s" % e)
        return

    H = render_harness()

    def want_tags(n):
        return ["r:%s|%s" % (bv.t_str(var("s", 2 * i)), bv.t_str(var("s", 2 * i + 1))) for i in range(n)]

    def vec_tags(r):
        if not isinstance(r, VecV):
            return None
        out = []
        for e in r.elems:
            t = [x for x in tags_of(e) if x.startswith("r:")] if isinstance(e, Int) else []
            out.append(t[0] if t else None)
        return out

    for n in lengths:
        def f_ascii(n=n):
            h = H()
            r, _ = run_inst(F, "dna_string::DnaString::to_ascii_vec", [Ref(Cell(dt.sym("s", n), "self"))], h)
            rep.evaluations += 1
            got = vec_tags(r)
            if h.bad or got is None:
                rep.inconclusive(rule, "to_ascii_vec/len=%d" % n, "to_ascii_vec: %s" % (h.bad[0] if h.bad else repr(r)))
            elif got == want_tags(n):
                rep.holds(rule, "to_ascii_vec/len=%d" % n, "to_ascii_vec() of a length-%d string is bits_to_ascii of base 0..%d in order" % (n, n))
            else:
                rep.violated(rule, "to_ascii_vec/len=%d" % n, "to_ascii_vec() of a length-%d string renders %s; specified: the ASCII letter of base i at position i for "
                             "i = 0..%d" % (n, [g for g in got][:4], n), witness={"kind": "render", "got": got[:6], "want": want_tags(n)[:6]})
        guarded(rep, rule, "to_ascii_vec/len=%d" % n, "to_ascii_vec", f_ascii)

        for tr in ("Display", "Debug"):
            def f_fmt(n=n, tr=tr):
                h = H()
                key = "<dna_string::DnaString as std::fmt::%s>::fmt" % tr
                r, _ = run_inst(F, key, [Ref(Cell(dt.sym("s", n), "self")), Ref(Cell(Opaque("Formatter", {"fmt"}), "f"))], h)
                rep.evaluations += 1
                text = "".join(h.out)
                want = "".join("<%s>" % t for t in want_tags(n))
                ok_res = isinstance(r, Adt) and r.variant == 0
                k = "%s/len=%d" % (tr, n)
                if h.bad or "\u0001" in text:
                    rep.inconclusive(rule, k, "%s::fmt: %s" % (tr, h.bad[0] if h.bad else text[:120]))
                elif text == want and ok_res:
                    rep.holds(rule, k, "%s of a length-%d string writes the letter of base 0..%d in order and nothing else" % (tr, n, n))
                else:
                    rep.violated(rule, k, "%s of a length-%d string writes %r (result %r); specified %r" % (tr, n, text[:80], r, want[:80]),
                                 witness={"kind": "render", "got": text[:200], "want": want[:200]})
            guarded(rep, rule, "%s/len=%d" % (tr, n), tr, f_fmt)

    # ---- iteration: DnaStringIter yields base i at step i and ends (to_bytes = iter().collect() is in L-dna-render; here into_iter + len)
    # ---- push_bytes: base j of the packed run is bits (2(j%4), 2(j%4)+1) of byte j/4
    for n0 in (0, 1, 30, 31, 32, 33):
        for m in (0, 1, 3, 4, 5, 8, 31, 32, 33, 36):
            def f_pb(n0=n0, m=m):
                nb = (m + 3) // 4 + 1
                cell = Cell(dt.sym("s", n0), "self")
                bytes_ = [Int(8, False, bits=[var("p", 8 * j + b) for b in range(8)]) for j in range(nb)]
                run_inst(F, "dna_string::DnaString::push_bytes", [Ref(cell), Ref(Cell(Arr(bytes_), "bytes")), usize(m)])
                n = n0 + m
                ws = dt.words("s", n, n0)
                for j in range(m):
                    i = n0 + j
                    w, hi, lo = i // 32, 63 - 2 * (i % 32), 62 - 2 * (i % 32)
                    ws[w][hi], ws[w][lo] = var("p", 8 * (j // 4) + 2 * (j % 4) + 1), var("p", 8 * (j // 4) + 2 * (j % 4))
                expect_dna(rep, rule, "push_bytes/len=%d/m=%d" % (n0, m), dt, cell.v, ws, n,
                           "push_bytes of %d packed bases onto a length-%d string appends base j = bits 2(j%%4)..2(j%%4)+1 of byte j/4, in order" % (m, n0))
            guarded(rep, rule, "push_bytes/len=%d/m=%d" % (n0, m), "push_bytes", f_pb)


# ----------------------------------------------------------------------------------------------------------------------
# DnaStringSlice: exact view lemmas on a symbolic backing string (C15): every conversion / rendering / comparison of a
# view (start, length, is_rc) equals that of the substring (reverse-complemented when flagged)
SLICE_T = "dna_string::DnaStringSlice"


def view_base_bits(src, start, length, rc, i):
    """(lo, hi) provenance of position i of the view"""
    if not rc:
        j = start + i
        return var(src, 2 * j), var(src, 2 * j + 1)
    j = start + length - 1 - i
    return t_not(var(src, 2 * j)), t_not(var(src, 2 * j + 1))


def slice_hamming_lemmas(F, rep, rule="C15.2"):
    """DnaStringSlice::hamming_dist, exact, on views made of whole 32-base blocks over two symbolic backing strings: the result is a count
    whose counted terms are exactly "position i of self differs from position i of other", i = 0..len — however the blocks are fetched and
    however the differing lanes are counted (count_ones, or in-register sums)"""
    try:
        dt = DnaT(F)
    except Unsupported as e:
        rep.inconclusive(rule, "DnaString", "role discovery: %s" % e)
        return
    flds = [f["name"] for f in F.adts.get(SLICE_T, {}).get("variants", [{}])[0].get("fields", [])] if hasattr(F, "adts") else []
    order = flds if sorted(flds) == sorted(["dna_string", "start", "length", "is_rc"]) else ["dna_string", "start", "length", "is_rc"]
    c = [k for k in F.insts if k.startswith(SLICE_T) and k.endswith("::hamming_dist")]
    if not c:
        rep.violated(rule, "exact/hamming_dist", "anchor-missing: DnaStringSlice::hamming_dist", witness={"kind": "anchor-missing"})
        return
    key = c[0]

    def mkview(back_cell, start, length, rc):
        vals = {"dna_string": Ref(back_cell), "start": usize(start), "length": usize(length), "is_rc": Int(8, False, val=int(rc), kind="bool")}
        return Adt(SLICE_T, 0, [vals[k] for k in order])
    nback = 140
    for (st1, st2, ln, rc1, rc2) in ((0, 0, 0, False, False), (0, 0, 32, False, False), (1, 33, 32, False, True), (33, 2, 64, True, True), (5, 5, 64, True, False),
                                     (7, 40, 96, False, True)):
        vk = "self=(%d,%d,%s)/other=(%d,%d,%s)" % (st1, ln, int(rc1), st2, ln, int(rc2))

        def f(st1=st1, st2=st2, ln=ln, rc1=rc1, rc2=rc2, vk=vk):
            a = mkview(Cell(dt.sym("s", nback), "back-s"), st1, ln, rc1)
            b = mkview(Cell(dt.sym("t", nback), "back-t"), st2, ln, rc2)
            r, _ = run_inst(F, key, [Ref(Cell(a, "self")), Ref(Cell(b, "other"))])
            spec = []
            for i in range(ln):
                alo, ahi = view_base_bits("s", st1, ln, rc1, i)
                blo, bhi = view_base_bits("t", st2, ln, rc2, i)
                spec.append(t_or(t_xor(ahi, bhi), t_xor(alo, blo)))
            expect_popsum(rep, rule, "exact/hamming_dist/" + vk, r, spec,
                          "hamming_dist of two %d-base views (starts %d / %d, is_rc %s / %s) counts exactly the positions where the views differ" % (ln, st1, st2, rc1, rc2))
        guarded(rep, rule, "exact/hamming_dist/" + vk, "hamming_dist", f)

    # views whose length is not a multiple of 32 end in bases that the pinned tree compares one by one (a branch per base): those last bases
    # are given fixed values here (some equal, some different), everything before them stays symbolic.  `self` is a WHOLE string (the view
    # covers its backing string exactly), `other` a prefix of a longer one, and the other way round — the shapes in which a fast path for
    # whole strings sees padding on one side and real bases on the other.
    TAILA = (0, 1, 2, 3, 0, 1, 2, 3)
    TAILB = (0, 1, 3, 3, 1, 1, 2, 0)

    def backing(name, nbases, view_len, tail):
        ws = dt.words(name, nbases)
        for j, b in enumerate(tail):
            p_ = view_len - len(tail) + j
            w, hi, lo = p_ // 32, 63 - 2 * (p_ % 32), 62 - 2 * (p_ % 32)
            ws[w][hi], ws[w][lo] = (ONE if b & 2 else ZERO), (ONE if b & 1 else ZERO)
        return dt.mk(ws, nbases)
    for (la_back, lb_back, ln) in ((40, 140, 40), (140, 40, 40), (72, 72, 72), (72, 100, 72)):
        vk = "whole/self-backing=%d/other-backing=%d/len=%d" % (la_back, lb_back, ln)

        def f2(la_back=la_back, lb_back=lb_back, ln=ln, vk=vk):
            a = mkview(Cell(backing("s", la_back, ln, TAILA), "back-s"), 0, ln, False)
            b = mkview(Cell(backing("t", lb_back, ln, TAILB), "back-t"), 0, ln, False)
            r, _ = run_inst(F, key, [Ref(Cell(a, "self")), Ref(Cell(b, "other"))])
            nblk = ln - len(TAILA)
            spec = []
            for i in range(nblk):
                alo, ahi = view_base_bits("s", 0, ln, False, i)
                blo, bhi = view_base_bits("t", 0, ln, False, i)
                spec.append(t_or(t_xor(ahi, bhi), t_xor(alo, blo)))
            ndiff_tail = sum(1 for x, y in zip(TAILA, TAILB) if x != y)
            # the fixed tail contributes a constant: fold it into the comparison as that many constant-one terms
            spec += [ONE] * ndiff_tail
            got = r
            if isinstance(r, Int) and r.is_conc():
                got = r
            expect_count(rep, rule, "exact/hamming_dist/" + vk, got, spec,
                         "hamming_dist of a %d-base string (backing %d bases) and a %d-base prefix view (backing %d bases) counts exactly the positions where they differ" % (
                             ln, la_back, ln, lb_back))
        guarded(rep, rule, "exact/hamming_dist/" + vk, "hamming_dist", f2)


def expect_count(rep, rule, key, got, spec_terms, desc):
    """a count = (sum of counted 0/1 terms) + constant; spec_terms may contain the constant ONE"""
    const = sum(1 for t in spec_terms if t is not TOP and t == ONE)
    sym = [t for t in spec_terms if not (t is not TOP and (len(t) == 0 or t == ONE))]
    rep.evaluations += 1
    terms, c = None, 0
    if isinstance(got, Int) and got.is_conc():
        terms, c = [], got.val
    elif isinstance(got, Opaque) and "pop" in got.info:
        terms, c = list(got.info["pop"]), got.info.get("plus", 0)
    elif isinstance(got, Int) and got.sf is not None and len(got.sf) == 1 and got.sf[0][0] == 0 and len(got.sf[0][2]) < (1 << got.sf[0][1]):
        terms = list(got.sf[0][2])
    if terms is None:
        rep.inconclusive(rule, key, "%s: result %r is not a recognisable count" % (desc, got))
        return
    c += sum(1 for t in terms if t is not TOP and t == ONE)
    terms = [t for t in terms if not (t is not TOP and (len(t) == 0 or t == ONE))]
    if any(t is TOP for t in terms):
        rep.inconclusive(rule, key, "%s: unknown bit among the counted terms" % desc)
        return
    a = sorted(bv.t_str(t) for t in terms)
    b = sorted(bv.t_str(t) for t in sym)
    if a == b and c == const:
        rep.holds(rule, key, desc)
    else:
        rep.violated(rule, key, "%s: counted %d symbolic position(s) + %d, specified %d + %d (extra %s, missing %s)" % (
            desc, len(a), c, len(b), const, [x for x in a if x not in b][:2], [x for x in b if x not in a][:2]), witness={"kind": "count"})


def slice_getkmer_lemmas(F, rep, rule="C15.1", quick=True):
    """Vmer::get_kmer on a VIEW, monomorphic and exact: for every listed k-mer type, view (start, is_rc) and position, the result is the K
    bases view[pos..pos+K] (for a reverse-complement view: the complemented bases read backwards).  Starts and positions put the k-mer at
    every kind of offset inside the backing string's storage words — aligned, straddling two words, straddling three words (K > 32)."""
    try:
        dt = DnaT(F)
    except Unsupported as e:
        rep.inconclusive(rule, "DnaString", "role discovery: %s" % e)
        return
    flds = [f["name"] for f in F.adts.get(SLICE_T, {}).get("variants", [{}])[0].get("fields", [])] if hasattr(F, "adts") else []
    order = flds if sorted(flds) == sorted(["dna_string", "start", "length", "is_rc"]) else ["dna_string", "start", "length", "is_rc"]
    names = [k["ty"] for k in F.kmer_types]
    if quick:
        pick = [n for n in names if n in ("kmer::IntKmer<u128>", "kmer::VarIntKmer<u128, kmer::K48>", "kmer::VarIntKmer<u128, kmer::K40>",
                                          "kmer::IntKmer<u64>", "kmer::VarIntKmer<u64, kmer::K31>", "kmer::VarIntKmer<u8, kmer::K3>")] or names[:6]
    else:
        pick = names
    nback = 200
    for kty in pick:
        try:
            kt = KType(F, kty)
            kt.K = kmer_k(F, kt)
        except Exception:
            continue
        K = kt.K
        key = "<%s<'_> as Vmer>::get_kmer::<%s>" % (SLICE_T, kty)
        if key not in F.insts:
            rep.inconclusive(rule, "view-getkmer/%s" % kty, "no monomorphic instance %s in the driver's facts" % key)
            continue
        for st in ((0, 1, 17, 31, 33) if quick else (0, 1, 9, 17, 25, 31, 32, 33, 63)):
            for pos in ((0, 1, 8) if quick else (0, 1, 7, 8, 24, 31, 32)):
                for rc in (False, True):
                    ln = pos + K + 2
                    vk = "%s/start=%d/pos=%d/rc=%d" % (kty, st, pos, int(rc))

                    def f(st=st, pos=pos, rc=rc, ln=ln, kt=kt, K=K, kty=kty, key=key, vk=vk):
                        vals = {"dna_string": Ref(Cell(dt.sym("s", nback), "back")), "start": usize(st), "length": usize(ln),
                                "is_rc": Int(8, False, val=int(rc), kind="bool")}
                        view = Adt(SLICE_T, 0, [vals[k] for k in order])
                        r, _ = run_inst(F, key, [Ref(Cell(view, "self")), usize(pos)])
                        spec = [ZERO] * kt.W
                        for j in range(K):
                            hi, lo = kt.lane_bits(j)
                            blo, bhi = view_base_bits("s", st, ln, rc, pos + j)
                            spec[hi], spec[lo] = bhi, blo
                        expect_bits(rep, rule, "view-getkmer/" + vk, kt.storage_of(r), spec,
                                    "get_kmer::<%s>(%d) on the view (start %d, length %d, is_rc %s) = the %d bases of the view from position %d"
                                    % (kty, pos, st, ln, rc, K, pos))
                    guarded(rep, rule, "view-getkmer/" + vk, "get_kmer", f)
        # the terminal accessors on views: first_kmer = the K bases from 0, last_kmer = the last K bases, term_kmer(Left/Right) = first / last,
        # both_term_kmer = (first, last) — on both strands (whichever way the accessor is implemented for views)
        from .dt import dir_v, LEFT, RIGHT
        for st in ((1, 33) if quick else (0, 1, 17, 31, 33)):
            for rc, ln in [(rc_, ln_) for rc_ in (False, True) for ln_ in ((K + 5, K + 1) if quick else (K + 5, K, K + 1, K + 2, K + 4))]:
                for meth, extra, picks in (("first_kmer", [], [0]), ("last_kmer", [], [ln - K]), ("term_kmer", [dir_v(LEFT)], [0]),
                                           ("term_kmer", [dir_v(RIGHT)], [ln - K]), ("both_term_kmer", [], [0, ln - K])):
                    akey = "<%s<'_> as Vmer>::%s::<%s>" % (SLICE_T, meth, kty)
                    if akey not in F.insts:
                        continue
                    vk = "%s/%s%s/start=%d/rc=%d%s" % (kty, meth, ("(%s)" % ("Left" if picks == [0] else "Right")) if extra else "", st, int(rc),
                                                       "" if ln == K + 5 else "/len=K+%d" % (ln - K))

                    def g(st=st, rc=rc, ln=ln, kt=kt, K=K, akey=akey, vk=vk, meth=meth, extra=extra, picks=picks):
                        vals = {"dna_string": Ref(Cell(dt.sym("s", nback), "back")), "start": usize(st), "length": usize(ln),
                                "is_rc": Int(8, False, val=int(rc), kind="bool")}
                        view = Adt(SLICE_T, 0, [vals[k] for k in order])
                        r, _ = run_inst(F, akey, [Ref(Cell(view, "self"))] + list(extra))
                        outs = list(r.fields) if isinstance(r, Tup) else [r]
                        if len(outs) != len(picks):
                            rep.inconclusive(rule, "view-getkmer/" + vk, "%s returns %r" % (meth, r))
                            return
                        for o, pos in zip(outs, picks):
                            spec = [ZERO] * kt.W
                            for j in range(K):
                                hi, lo = kt.lane_bits(j)
                                blo, bhi = view_base_bits("s", st, ln, rc, pos + j)
                                spec[hi], spec[lo] = bhi, blo
                            if not expect_bits(rep, rule, "view-getkmer/" + vk, kt.storage_of(o), spec,
                                               "%s%s on the view (start %d, length %d, is_rc %s) = the %d bases of the view from position %d" % (
                                                   meth, "(%s)" % ("Left" if pos == 0 else "Right") if extra else "", st, ln, rc, K, pos)):
                                return
                    guarded(rep, rule, "view-getkmer/" + vk, meth, g)


def slice_exact_lemmas(F, rep, rule="C15.1", nback=70, quick=True, only=None):
    """`only`: restrict to the named conversions (to_owned, bytes, ascii, to_dna_string, Display, Debug); the equality table is then skipped"""
    from .absint import tags_of
    from .dt import Oracles, explore
    try:
        dt = DnaT(F)
    except Unsupported as e:
        rep.inconclusive(rule, "DnaString", "role discovery: %s" % e)
        return
    flds = [f["name"] for f in F.adts.get(SLICE_T, {}).get("variants", [{}])[0].get("fields", [])] if hasattr(F, "adts") else []
    order = flds if sorted(flds) == sorted(["dna_string", "start", "length", "is_rc"]) else ["dna_string", "start", "length", "is_rc"]

    def mkview(back_cell, start, length, rc):
        vals = {"dna_string": Ref(back_cell), "start": usize(start), "length": usize(length), "is_rc": Int(8, False, val=int(rc), kind="bool")}
        return Adt(SLICE_T, 0, [vals[k] for k in order])

    def body_of(suffix):
        c = [b for k, b in F.fns.items() if k.startswith(SLICE_T) and k.endswith("::" + suffix)] + \
            [b for k, b in F.fns.items() if k.startswith("<" + SLICE_T) and k.endswith(suffix)]
        if not c:
            raise KeyError(SLICE_T + "::" + suffix)
        return c[0]

    H = render_harness()
    starts = (0, 1, 31, 32, 33) if quick else (0, 1, 2, 31, 32, 33, 63, 64)
    lens = (0, 1, 3, 31, 32, 33) if quick else (0, 1, 2, 3, 31, 32, 33, 34)
    views = [(nback, st, ln, rc) for st in starts for ln in lens for rc in (False, True) if st + ln <= nback]
    # views that END AT THE END of a backing string whose length is a multiple of the storage word (no spare word behind them), and
    # views of the empty string (no storage word at all)
    for nb_, st_, ln_ in ((64, 32, 32), (64, 33, 31), (64, 0, 64), (64, 64, 0), (32, 0, 32), (32, 1, 31), (32, 31, 1), (0, 0, 0)) + \
            (() if quick else ((96, 33, 63), (96, 64, 32), (32, 32, 0), (64, 63, 1))):
        for rc_ in (False, True):
            views.append((nb_, st_, ln_, rc_))

    def want_tags(st, ln, rc):
        out = []
        for i in range(ln):
            lo, hi = view_base_bits("s", st, ln, rc, i)
            out.append("r:%s|%s" % (bv.t_str(lo), bv.t_str(hi)))
        return out

    def vtags(r):
        el = r.elems if isinstance(r, VecV) else (r.fields[0].elems if isinstance(r, Adt) and r.fields and isinstance(r.fields[0], VecV) else None)
        if el is None:
            return None
        out = []
        for e in el:
            t = [x for x in tags_of(e) if x.startswith("r:")] if isinstance(e, Int) else []
            out.append(t[0] if t else None)
        return out

    nback0 = nback
    for nback, st, ln, rc in views:
        vk = "start=%d/len=%d/rc=%d" % (st, ln, int(rc)) + ("" if nback == nback0 else "/backing=%d" % nback)

        def f_owned():
            it = Interp(F, False, Harness())
            r = it.call_body(body_of("to_owned"), [Ref(Cell(mkview(Cell(dt.sym("s", nback), "back"), st, ln, rc), "self"))])
            ws = dt.words("s", ln, 0)
            for i in range(ln):
                lo, hi = view_base_bits("s", st, ln, rc, i)
                w, bh, bl = i // 32, 63 - 2 * (i % 32), 62 - 2 * (i % 32)
                ws[w][bh], ws[w][bl] = hi, lo
            expect_dna(rep, rule, "exact/to_owned/" + vk, dt, r, ws, ln,
                       "to_owned() of the view (start %d, length %d, is_rc %s) is the canonical DnaString of the substring%s" % (st, ln, rc, " reverse-complemented" if rc else ""))
        if only is None or "to_owned" in only:
            guarded(rep, rule, "exact/to_owned/" + vk, "to_owned", f_owned)

        def f_bytes():
            it = Interp(F, False, Harness())
            r = it.call_body(body_of("bytes"), [Ref(Cell(mkview(Cell(dt.sym("s", nback), "back"), st, ln, rc), "self"))])
            rep.evaluations += 1
            want = [list(view_base_bits("s", st, ln, rc, i)) + [ZERO] * 6 for i in range(ln)]
            if not isinstance(r, VecV) or any(not isinstance(e, Int) or any(b is TOP for b in e.getbits()) for e in r.elems):
                rep.inconclusive(rule, "exact/bytes/" + vk, "bytes() returned %r" % (r,))
            elif [list(e.getbits()) for e in r.elems] == want:
                rep.holds(rule, "exact/bytes/" + vk, "bytes() lists the %d bases of the view in order" % ln)
            else:
                rep.violated(rule, "exact/bytes/" + vk, "bytes() of the view (start %d, length %d, is_rc %s) is %r" % (st, ln, rc, r), witness={"kind": "render"})
        if only is None or "bytes" in only:
            guarded(rep, rule, "exact/bytes/" + vk, "bytes", f_bytes)

        for nm, kind in (("ascii", "vec"), ("to_dna_string", "vec"), ("std::fmt::Display>::fmt", "fmt"), ("std::fmt::Debug>::fmt", "fmt")):
            short = nm.split("::")[-2].rstrip(">") if kind == "fmt" else nm
            if kind == "fmt":
                short = "Display" if "Display" in nm else "Debug"

            def f_r(nm=nm, kind=kind, short=short):
                h = H()
                it = Interp(F, False, h)
                args = [Ref(Cell(mkview(Cell(dt.sym("s", nback), "back"), st, ln, rc), "self"))]
                if kind == "fmt":
                    args.append(Ref(Cell(Opaque("Formatter", {"fmt"}), "f")))
                r = it.call_body(body_of(nm), args)
                rep.evaluations += 1
                want = want_tags(st, ln, rc)
                k = "exact/%s/%s" % (short, vk)
                if kind == "vec":
                    got = vtags(r)
                    if h.bad or got is None or any(g is None for g in got):
                        rep.inconclusive(rule, k, "%s: %s" % (short, h.bad[0] if h.bad else repr(r)))
                    elif got == want:
                        rep.holds(rule, k, "%s() renders the letter of view position 0..%d in order" % (short, ln))
                    else:
                        rep.violated(rule, k, "%s() of the view (start %d, length %d, is_rc %s) renders %s, specified %s" % (short, st, ln, rc, got[:4], want[:4]),
                                     witness={"kind": "render", "got": got[:6], "want": want[:6]})
                else:
                    text = "".join(h.out)
                    wtext = "".join("<%s>" % t for t in want)
                    if h.bad or "\u0001" in text:
                        rep.inconclusive(rule, k, "%s: %s" % (short, h.bad[0] if h.bad else text[:120]))
                    elif text == wtext and isinstance(r, Adt) and r.variant == 0:
                        rep.holds(rule, k, "%s writes the letter of view position 0..%d in order and nothing else" % (short, ln))
                    else:
                        rep.violated(rule, k, "%s of the view (start %d, length %d, is_rc %s) writes %r, specified %r" % (short, st, ln, rc, text[:80], wtext[:80]),
                                     witness={"kind": "render", "got": text[:200], "want": wtext[:200]})
            if only is None or short in only:
                guarded(rep, rule, "exact/%s/%s" % (short, vk), short, f_r)

    nback = nback0
    if only is not None:
        return
    # ---- equality: exact table.  Operands over the same or different backing strings; every comparison of two base values is an oracle
    # named by the provenance of both operands; the verdict must be `all positions equal`, and `true` may only be returned when every
    # position whose two provenance terms are not identical has been compared (ANF terms are canonical: different terms differ somewhere)
    class EqH(Oracles):
        def unknown_compare(self, it, op, a, b):
            if op not in ("Eq", "Ne"):
                return None
            ba, bb = list(a.getbits()), list(b.getbits())
            if any(x is TOP for x in ba + bb):
                return None
            name = "eq(%s;%s)" % (",".join(bv.t_str(x) for x in ba[:2]), ",".join(bv.t_str(x) for x in bb[:2]))
            rname = "eq(%s;%s)" % (",".join(bv.t_str(x) for x in bb[:2]), ",".join(bv.t_str(x) for x in ba[:2]))
            if rname in self.memo:
                name = rname
            eq = self.choose(name, (True, False))
            return eq if op == "Eq" else not eq

    L = 3
    eq_body = None
    try:
        eq_body = body_of("std::cmp::PartialEq>::eq")
    except KeyError as e:
        rep.violated(rule, "exact/eq", "anchor-missing: %s" % e, witness={"kind": "anchor-missing"})
    scen = []
    for same in (True, False):
        for (sa, ra), (sb, rb) in (((2, False), (2, False)), ((2, False), (2, True)), ((2, True), (2, False)), ((2, True), (2, True)),
                                   ((2, False), (7, False)), ((0, False), (32, True)), ((32, False), (32, True)), ((0, True), (0, False))):
            for lb in (L, L + 1):
                scen.append((same, sa, ra, sb, rb, L, lb))
    rows = 0
    problems, inc = [], []
    for same, sa, ra, sb, rb, la, lb in scen if eq_body is not None else []:
        srcb = "s" if same else "t"

        def run(h):
            it = Interp(F, False, h)
            ca = Cell(dt.sym("s", nback), "backA")
            cb = ca if same else Cell(dt.sym("t", nback), "backB")
            return it.call_body(eq_body, [Ref(Cell(mkview(ca, sa, la, ra), "self")), Ref(Cell(mkview(cb, sb, lb, rb), "other"))])
        for a, out, h in explore(lambda script: EqH(script), run):
            rows += 1
            rep.evaluations += 1
            if isinstance(out, tuple) and out and out[0] in ("inconclusive", "diverge"):
                (inc if out[0] == "inconclusive" else problems).append("eq %s: %s" % (out[0], out[1]))
                continue
            val = bool(out.val) if isinstance(out, Int) and out.is_conc() else None
            desc = "self=(%s,start %d,len %d,rc %s) other=(%s,start %d,len %d,rc %s)" % ("s", sa, la, ra, srcb, sb, lb, rb)
            if la != lb:
                if val is not False:
                    problems.append("eq returns %s for views of different lengths: %s" % (val, desc))
                continue
            status = []          # per position: True (identical terms or found equal), False (found different), None (never compared)
            for i in range(la):
                x, y = view_base_bits("s", sa, la, ra, i), view_base_bits(srcb, sb, lb, rb, i)
                if x == y:
                    status.append(True)
                    continue
                n1 = "eq(%s,%s;%s,%s)" % (bv.t_str(x[0]), bv.t_str(x[1]), bv.t_str(y[0]), bv.t_str(y[1]))
                n2 = "eq(%s,%s;%s,%s)" % (bv.t_str(y[0]), bv.t_str(y[1]), bv.t_str(x[0]), bv.t_str(x[1]))
                status.append(a.get(n1, a.get(n2)))
            if val is True and any(s is not True for s in status):
                p = [i for i, s in enumerate(status) if s is not True][0]
                problems.append("eq returns true although view position %d %s: %s" % (p, "was found different" if status[p] is False else "was never compared (the two bases can differ)", desc))
            elif val is False and all(s is True for s in status):
                problems.append("eq returns false although every position was found equal: %s" % desc)
            elif val is None:
                inc.append("eq returned %r" % (out,))
    if eq_body is not None:
        if problems:
            rep.violated(rule, "exact/eq", problems[0], site=F.site(eq_body, eq_body["line"]), witness={"kind": "row", "count": len(problems)})
        elif inc:
            rep.inconclusive(rule, "exact/eq", inc[0])
        else:
            rep.holds(rule, "exact/eq", "slice equality ⇔ equal length and equal bases at every view position, over same / different backing strings, "
                      "equal / shifted intervals and every strand combination (%d rows)" % rows)


_FMT_FAITHFUL = {}


def slice_fmt_faithful(F, trait, lengths=(3, 255, 256, 300)):
    """does `<DnaStringSlice as fmt::{trait}>::fmt` write exactly the letters of the view, for short and for long views?
    returns (True, None) / (False, description of the first unfaithful case) / (None, why undecided)"""
    key = (id(F), trait)
    if key in _FMT_FAITHFUL:
        return _FMT_FAITHFUL[key]
    res = (True, None)
    try:
        dt = DnaT(F)
        H = render_harness()
        bodies = [b for k, b in F.fns.items() if k.startswith("<" + SLICE_T) and k.endswith("std::fmt::%s>::fmt" % trait)]
        if not bodies:
            raise Unsupported("no %s impl for DnaStringSlice" % trait)
        nback = max(lengths) + 8
        for ln in lengths:
            h = H()
            it = Interp(F, False, h)
            view = Adt(SLICE_T, 0, [Ref(Cell(dt.sym("s", nback), "back")), usize(4), usize(ln), Int(8, False, val=0, kind="bool")])
            it.call_body(bodies[0], [Ref(Cell(view, "self")), Ref(Cell(Opaque("Formatter", {"fmt"}), "f"))])
            text = "".join(h.out)
            want = ""
            for i in range(ln):
                lo, hi = view_base_bits("s", 4, ln, False, i)
                want += "<r:%s|%s>" % (bv.t_str(lo), bv.t_str(hi))
            if h.bad or "\u0001" in text:
                res = (None, h.bad[0] if h.bad else text[:100])
                break
            if text != want:
                res = (False, "a view of %d bases is written as %r" % (ln, re.sub(r"<r:[^>]*>", "N", text)[:80]), re.sub(r"<r:[^>]*>", "A", text))
                break
    except (Unsupported, Undecided, Diverge) as e:
        res = (None, str(e))
    _FMT_FAITHFUL[key] = res
    return res


# ----------------------------------------------------------------------------------------------------------------------
# provided (default) methods of Kmer / MerImmut, instantiated for one concrete k-mer type: exact lemmas on the monomorphic
# MIR.  The per-byte tables base_to_bits / bits_to_base are C16.1's; here they are uninterpreted functions of their argument.
class _TableHarness(Harness):
    """base_to_bits(c_i) -> the two fresh bits a[2i], a[2i+1]; bits_to_base / bits_to_ascii -> value tagged with its argument bits"""

    def __init__(self):
        self.bad = []

    def on_call(self, it, fn, args, dest_ty, term, caller):
        path = fn.get("path", "")
        if path in ("base_to_bits", "dna_only_base_to_bits") and len(args) == 1 and isinstance(args[0], Int):
            bits = list(args[0].getbits())
            idx = None
            t0 = bits[0]
            if t0 is not TOP and len(t0) == 1 and len(next(iter(t0))) == 1:
                nm, i = bv.var_name(next(iter(next(iter(t0)))))
                if nm == "c" and i % 8 == 0 and all(bits[b] == var("c", i + b) for b in range(8)):
                    idx = i // 8
            if idx is None:
                self.bad.append("%s applied to %r (not one whole input byte)" % (path, args[0]))
                return Int(8, False, bits=[TOP] * 8)
            return Int(8, False, bits=[var("a", 2 * idx), var("a", 2 * idx + 1)] + [ZERO] * 6)
        if path in ("bits_to_base", "bits_to_ascii") and len(args) == 1:
            t = _render_tag(args[0])
            if t is None:
                self.bad.append("%s applied to %r" % (path, args[0]))
                t = "r:?"
            w = 32 if path == "bits_to_base" else 8
            return Int(w, False, bits=[TOP] * w, tags=frozenset({t}), kind="char" if path == "bits_to_base" else "int")
        return NotImplemented


def kmer_default_lemmas(F, rep, tystr, which=None, rule="L-default"):
    from .absint import tags_of
    kt = KType(F, tystr)
    tag = tystr
    try:
        kt.K = kmer_k(F, kt)
    except (KeyError, Unsupported, Undecided, Diverge) as e:
        rep.violated(rule, tag, "cannot evaluate K of %s: %s" % (tystr, e), witness={"kind": "anchor-missing"})
        return
    K, W = kt.K, kt.W
    S = in_bits("s", 2 * K, W)

    def want(f):
        return which is None or f in which

    def lanes_from(src, first=0):
        """storage bits of the k-mer whose base j is the two bits (src[2(first+j)], src[2(first+j)+1])"""
        spec = [ZERO] * W
        for j in range(K):
            hi, lo = kt.lane_bits(j)
            spec[hi], spec[lo] = var(src, 2 * (first + j) + 1), var(src, 2 * (first + j))
        return spec

    def slice_ref(elems):
        return Ref(Cell(Arr(elems), "bytes"), (), 0, len(elems))

    def ascii_bytes(n):
        return [Int(8, False, bits=[var("c", 8 * i + b) for b in range(8)]) for i in range(n)]

    if want("from_bytes"):
        for extra in (0, 2):
            def f(extra=extra):
                r, _ = run_inst(F, kt.key("Kmer", "from_bytes"), [slice_ref(byte_seq("a", K + extra))])
                expect_bits(rep, rule, "%s/from_bytes/len=K+%d" % (tag, extra), kt.storage_of(r), lanes_from("a"),
                            "from_bytes of %d base bytes: base j of the k-mer is byte j, for j < K (further bytes ignored)" % (K + extra))
            guarded(rep, rule, "%s/from_bytes/len=K+%d" % (tag, extra), "from_bytes", f)

    if want("from_ascii"):
        for extra in (0, 2):
            def f(extra=extra):
                h = _TableHarness()
                r, _ = run_inst(F, kt.key("Kmer", "from_ascii"), [slice_ref(ascii_bytes(K + extra))], h)
                if h.bad:
                    rep.inconclusive(rule, "%s/from_ascii/len=K+%d" % (tag, extra), "from_ascii: %s" % h.bad[0])
                    return
                expect_bits(rep, rule, "%s/from_ascii/len=K+%d" % (tag, extra), kt.storage_of(r), lanes_from("a"),
                            "from_ascii of %d letters: base j of the k-mer is base_to_bits(letter j), for j < K" % (K + extra))
            guarded(rep, rule, "%s/from_ascii/len=K+%d" % (tag, extra), "from_ascii", f)

    if want("to_string"):
        def f():
            h = _TableHarness()
            r, _ = run_inst(F, kt.key("Kmer", "to_string"), [Ref(Cell(kt.sym("s"), "self"))], h)
            rep.evaluations += 1
            el = r.elems if isinstance(r, VecV) else (r.fields[0].elems if isinstance(r, Adt) and r.fields and isinstance(r.fields[0], VecV) else None)
            want_t = []
            for j in range(K):
                hi, lo = kt.lane_bits(j)
                want_t.append("r:%s|%s" % (bv.t_str(S[lo]), bv.t_str(S[hi])))
            lanes = [kt.lane_bits(j) for j in range(K)]
            if h.bad or el is None or any(not isinstance(e, Int) or (any(b is TOP for b in e.getbits()) and not any(x.startswith("r:") for x in tags_of(e))) for e in el):
                rep.inconclusive(rule, "%s/to_string" % tag, "to_string: %s" % (h.bad[0] if h.bad else repr(r)[:200]))
            elif len(el) == K and all(renders_base(e, S[lo], S[hi]) for e, (hi, lo) in zip(el, lanes)):
                rep.holds(rule, "%s/to_string" % tag, "to_string() is the letter of base 0..K in order")
            else:
                badj = next((j for j, (e, (hi, lo)) in enumerate(zip(el, lanes)) if not renders_base(e, S[lo], S[hi])), min(len(el), K))
                rep.violated(rule, "%s/to_string" % tag, "to_string() renders %d letters; letter %d is not the letter of base %d (specified: the letters of bases 0..%d "
                             "in order)" % (len(el), badj, badj, K), witness={"kind": "render", "position": badj, "got": repr(el[badj])[:200] if badj < len(el) else None})
        guarded(rep, rule, "%s/to_string" % tag, "to_string", f)

    if want("to_string"):
        # {:?} (and {} where implemented): exactly the K letters of bases 0..K, in order
        for trn in ("Debug", "Display"):
            ikey = "<%s as std::fmt::%s>::fmt" % (tystr, trn)
            if ikey not in F.insts:
                if trn == "Debug":
                    rep.inconclusive(rule, "%s/%s" % (tag, trn), "no monomorphic instance %s in the driver's facts" % ikey)
                continue

            def f(ikey=ikey, trn=trn):
                h = render_harness()()
                run_inst(F, ikey, [Ref(Cell(kt.sym("s"), "self")), Ref(Cell(Opaque("Formatter", {"fmt"}), "f"))], h)
                rep.evaluations += 1
                text = "".join(h.out)
                wtext = ""
                for j in range(K):
                    hi, lo = kt.lane_bits(j)
                    wtext += "<r:%s|%s>" % (bv.t_str(S[lo]), bv.t_str(S[hi]))
                k_ = "%s/%s" % (tag, trn)
                if h.bad or "\u0001" in text:
                    rep.inconclusive(rule, k_, "%s: %s" % (trn, h.bad[0] if h.bad else text[:120]))
                elif text == wtext:
                    rep.holds(rule, k_, "{%s} writes the letters of bases 0..K in order and nothing else" % (":?" if trn == "Debug" else ""))
                else:
                    got = re.findall(r"<r:[^>]*>|.", text)
                    wl = re.findall(r"<r:[^>]*>", wtext)
                    badj = next((j for j in range(min(len(got), len(wl))) if got[j] != wl[j]), min(len(got), len(wl)))
                    rep.violated(rule, k_, "%s of the k-mer writes %d symbols; symbol %d is %s, specified: the letter of base %d (K = %d letters in order)" % (
                        trn, len(got), badj, (got[badj] if badj < len(got) else "missing")[:60], badj, K), witness={"kind": "render", "position": badj})
            guarded(rep, rule, "%s/%s" % (tag, trn), trn, f)

    if want("bulk"):
        for meth, mk in (("kmers_from_bytes", lambda n: byte_seq("a", n)), ("kmers_from_ascii", ascii_bytes)):
            for n in (max(K - 1, 0), K, K + 2):
                def f(meth=meth, mk=mk, n=n):
                    h = _TableHarness()
                    r, _ = run_inst(F, kt.key("Kmer", meth), [slice_ref(mk(n))], h)
                    key = "%s/%s/len=%d" % (tag, meth, n)
                    cnt = max(0, n - K + 1)
                    if h.bad or not isinstance(r, VecV):
                        rep.evaluations += 1
                        rep.inconclusive(rule, key, "%s: %s" % (meth, h.bad[0] if h.bad else repr(r)))
                        return
                    if len(r.elems) != cnt:
                        rep.evaluations += 1
                        rep.violated(rule, key, "%s of a sequence of %d bases (K = %d) yields %d k-mers; specified max(0, n-K+1) = %d" % (meth, n, K, len(r.elems), cnt),
                                     witness={"kind": "count", "got": len(r.elems), "want": cnt})
                        return
                    if cnt == 0:
                        rep.evaluations += 1
                        rep.holds(rule, key, "%s of %d bases yields no k-mer" % (meth, n))
                        return
                    ok = True
                    for i, e in enumerate(r.elems):
                        ok = expect_bits(rep, rule, key if i == 0 else key + "/item=%d" % i, kt.storage_of(e), lanes_from("a", i),
                                         "%s of %d bases: item %d is the k-mer of bases %d..%d" % (meth, n, i, i, i + K)) and ok
                guarded(rep, rule, "%s/%s/len=%d" % (tag, meth, n), meth, f)

    if want("bulk"):
        # concrete inputs whose consecutive windows are EQUAL k-mers (a homopolymer run) or alternate between two (a dinucleotide repeat): one
        # k-mer per start position all the same — whatever the rolling loop compares along the way
        for meth, enc in (("kmers_from_bytes", lambda bs: [Int(8, False, val=b) for b in bs]), ("kmers_from_ascii", lambda bs: [Int(8, False, val=b"ACGT"[b]) for b in bs])):
            for pname, bases in (("homopolymer", [3] * (K + 3)), ("dinucleotide repeat", [(1, 2)[i % 2] for i in range(K + 4)])):
                key = "%s/%s/%s" % (tag, meth, pname.split()[0])

                def f(meth=meth, enc=enc, bases=bases, key=key, pname=pname):
                    r, _ = run_inst(F, kt.key("Kmer", meth), [slice_ref(enc(bases))])      # (concrete input: the byte tables are interpreted)
                    rep.evaluations += 1
                    cnt = len(bases) - K + 1
                    if not isinstance(r, VecV):
                        rep.inconclusive(rule, key, "%s: %r" % (meth, r))
                        return
                    if len(r.elems) != cnt:
                        rep.violated(rule, key, "%s of a %s of %d bases (K = %d) yields %d k-mers; specified one per start position: %d" % (meth, pname, len(bases), K, len(r.elems), cnt),
                                     witness={"kind": "count", "got": len(r.elems), "want": cnt})
                        return
                    for i, e in enumerate(r.elems):
                        st_ = kt.storage_of(e)
                        want_ = 0
                        for j in range(K):
                            hi, lo = kt.lane_bits(j)
                            want_ |= ((bases[i + j] >> 1) & 1) << hi | (bases[i + j] & 1) << lo
                        if not (isinstance(st_, Int) and st_.is_conc()):
                            rep.inconclusive(rule, key, "%s: item %d is %r" % (meth, i, st_))
                            return
                        if st_.val != want_:
                            rep.violated(rule, key, "%s of a %s: item %d is not the k-mer of bases %d..%d" % (meth, pname, i, i, i + K), witness={"kind": "item", "i": i})
                            return
                    rep.holds(rule, key, "%s of a %s of %d bases yields the %d (repeating) k-mers in order" % (meth, pname, len(bases), cnt), nontrivial=False)
                guarded(rep, rule, key, meth, f)

    if want("immut"):
        for pos in range(K):
            def f(pos=pos):
                cell = Cell(kt.sym("s"), "self")
                r, _ = run_inst(F, kt.key("MerImmut", "set"), [Ref(cell), usize(pos), base_arg()])
                hi, lo = kt.lane_bits(pos)
                spec = list(S)
                spec[lo], spec[hi] = var("v", 0), var("v", 1)
                ok = expect_bits(rep, rule, "%s/set/pos=%d" % (tag, pos), kt.storage_of(r), spec, "set(%d, v) returns the k-mer with exactly base %d replaced" % (pos, pos))
                if ok and list(kt.storage_of(cell.v).getbits()) != list(S):
                    rep.violated(rule, "%s/set/pos=%d/self" % (tag, pos), "set(%d, v) modifies its receiver" % pos)
            guarded(rep, rule, "%s/set/pos=%d" % (tag, pos), "set", f)
        V = in_bits("val", 64, 64)
        runs = sorted({(pos, n) for pos in range(K) for n in (1, 2, 31, 32, K - pos) if 1 <= n <= min(32, K - pos)})
        for pos, n in runs:
            def f(pos=pos, n=n):
                cell = Cell(kt.sym("s"), "self")
                r, _ = run_inst(F, kt.key("MerImmut", "set_slice"), [Ref(cell), usize(pos), usize(n), Int(64, False, bits=V)])
                spec = list(S)
                for t in range(n):
                    hi, lo = kt.lane_bits(pos + t)
                    spec[hi], spec[lo] = V[63 - 2 * t], V[62 - 2 * t]
                expect_bits(rep, rule, "%s/set_slice/pos=%d/n=%d" % (tag, pos, n), kt.storage_of(r), spec,
                            "set_slice(%d, %d, value) returns the k-mer with exactly bases %d..%d taken from the top lanes of value" % (pos, n, pos, pos + n))
            guarded(rep, rule, "%s/set_slice/pos=%d/n=%d" % (tag, pos, n), "set_slice", f)


def byte_container_lemmas(F, rep, rule="L-bytes", ktypes=None):
    """DnaBytes / DnaSlice: get_kmer, first_kmer, last_kmer on every k-mer type = the K base bytes at the position (exact, monomorphic)"""
    kts = ktypes if ktypes is not None else [k["ty"] for k in F.kmer_types]
    for kty in kts:
        try:
            kt = KType(F, kty)
            kt.K = kmer_k(F, kt)
        except Exception as e:
            rep.inconclusive(rule, kty, "cannot set up %s: %s" % (kty, e))
            continue
        K, W = kt.K, kt.W
        n = K + 5

        def lanes(first):
            spec = [ZERO] * W
            for j in range(K):
                hi, lo = kt.lane_bits(j)
                spec[hi], spec[lo] = var("a", 2 * (first + j) + 1), var("a", 2 * (first + j))
            return spec
        for cont, mk in (("DnaBytes", lambda: Adt("DnaBytes", 0, [VecV(byte_seq("a", n))])),
                         ("DnaSlice<'_>", lambda: Adt("DnaSlice", 0, [Ref(Cell(Arr(byte_seq("a", n)), "bytes"), (), 0, n)]))):
            for meth, pos in (("get_kmer", 0), ("get_kmer", 3), ("get_kmer", 5), ("first_kmer", 0), ("last_kmer", 5)):
                key = "%s/%s/%s%s" % (kty, cont.split("<")[0], meth, ("/pos=%d" % pos) if meth == "get_kmer" else "")

                def f(cont=cont, mk=mk, meth=meth, pos=pos, key=key):
                    args = [Ref(Cell(mk(), "self"))] + ([usize(pos)] if meth == "get_kmer" else [])
                    r, _ = run_inst(F, "<%s as Vmer>::%s::<%s>" % (cont, meth, kty), args)
                    expect_bits(rep, rule, key, kt.storage_of(r), lanes(pos), "%s::%s::<%s>%s = the K base bytes at %d..%d" % (
                        cont.split("<")[0], meth, kty, "(%d)" % pos if meth == "get_kmer" else "()", pos, pos + K))
                guarded(rep, rule, key, meth, f)


# ----------------------------------------------------------------------------------------------------------------------
# Order / equality of DnaString as the order / equality of the base sequences (C14): decided on structured operand pairs with
# symbolic content — common prefix p (symbolic), then either one operand ends (proper prefix) or the operands differ at one base
# (concrete u < v) followed by arbitrary symbolic suffixes.  Whatever implements Ord / PartialEq (derive or hand-written) is interpreted.
def dnastring_order_lemmas(F, rep, rule="C14.4"):
    try:
        dt = DnaT(F)
    except Unsupported as e:
        rep.inconclusive(rule, "DnaString", "role discovery: %s" % e)
        return
    ORDN = "std::cmp::Ordering"

    def build(n, spec):
        """spec: list of (kind, payload) per base: ('sym', (src, idx)) or ('const', value)"""
        nw = (n + 31) // 32
        ws = [[ZERO] * 64 for _ in range(nw)]
        for i, (kind, pl) in enumerate(spec):
            w, hi, lo = i // 32, 63 - 2 * (i % 32), 62 - 2 * (i % 32)
            if kind == "sym":
                ws[w][hi], ws[w][lo] = var(pl[0], 2 * pl[1] + 1), var(pl[0], 2 * pl[1])
            else:
                ws[w][hi], ws[w][lo] = (ONE if pl & 2 else ZERO), (ONE if pl & 1 else ZERO)
        return dt.mk(ws, n)

    def body_for(trait, meth):
        for k, b in F.fns.items():
            if k == "<dna_string::DnaString as %s>::%s" % (trait, meth):
                return b
        return None
    cmp_b = body_for("std::cmp::Ord", "cmp")
    pcmp_b = body_for("std::cmp::PartialOrd", "partial_cmp")
    eq_b = body_for("std::cmp::PartialEq", "eq")
    if cmp_b is None or eq_b is None:
        rep.violated(rule, "order/anchors", "anchor-missing: Ord::cmp / PartialEq::eq of DnaString", witness={"kind": "anchor-missing"})
        return
    cases = []
    for np in (0, 1, 5, 31, 32, 33, 64):
        P = [("sym", ("p", i)) for i in range(np)]
        # equal strings
        cases.append(("equal/len=%d" % np, P, P, 0))
        # proper prefix: b = a ++ extra (extra bases constant A, constant C…, or symbolic)
        for extra in ([("const", 0)], [("const", 0)] * 2, [("const", 1)], [("const", 3)], [("const", 0)] * 32, [("const", 0)] * 33, [("const", 0), ("const", 2)]):
            cases.append(("prefix/len=%d/extra=%s" % (np, "".join("ACGT"[e[1]] if e[0] == "const" else "?" for e in extra[:3]) + ("…" if len(extra) > 3 else "")), P, P + extra, -1))
        # first difference at position np: u < v, then arbitrary (possibly different-length) suffixes
        for (u, v) in ((0, 1), (1, 2), (2, 3), (0, 3)):
            for sa, sb in ((0, 0), (3, 0), (0, 3), (2, 40)):
                A = P + [("const", u)] + [("sym", ("a", i)) for i in range(sa)]
                B = P + [("const", v)] + [("sym", ("b", i)) for i in range(sb)]
                cases.append(("diff/len=%d/%s<%s/suffixes=%d,%d" % (np, "ACGT"[u], "ACGT"[v], sa, sb), A, B, -1))
    bad, inc = [], []
    n_ok = 0
    for name, A, B, want in cases:
        for swap in (False, True):
            X, Y, w = (B, A, -want) if swap else (A, B, want)
            rep.evaluations += 1
            try:
                a, b = build(len(X), X), build(len(Y), Y)
                it = Interp(F, False, Harness())
                o = it.call_body(cmp_b, [Ref(Cell(a, "a")), Ref(Cell(b, "b"))])
                e = Interp(F, False, Harness()).call_body(eq_b, [Ref(Cell(a, "a")), Ref(Cell(b, "b"))])
                po = Interp(F, False, Harness()).call_body(pcmp_b, [Ref(Cell(a, "a")), Ref(Cell(b, "b"))]) if pcmp_b is not None else None
            except (Undecided, Unsupported) as ex:
                inc.append("%s: %s" % (name, ex))
                continue
            except Diverge as ex:
                bad.append("%s: comparison diverges: %s" % (name, ex))
                continue
            got = o.variant - 1 if isinstance(o, Adt) and o.variant is not None else None
            goteq = bool(e.val) if isinstance(e, Int) and e.is_conc() else None
            gotp = None
            if isinstance(po, Adt) and po.variant == 1 and isinstance(po.fields[0], Adt) and po.fields[0].variant is not None:
                gotp = po.fields[0].variant - 1
            tag = name + ("/swapped" if swap else "")
            if got is None or goteq is None:
                inc.append("%s: cmp returned %r, eq returned %r" % (tag, o, e))
            elif got != w:
                bad.append("%s: cmp is %s, the base sequences compare %s (lexicographic A<C<G<T, a proper prefix first)" % (
                    tag, {-1: "Less", 0: "Equal", 1: "Greater"}[got], {-1: "Less", 0: "Equal", 1: "Greater"}[w]))
            elif goteq != (w == 0):
                bad.append("%s: == is %s although the base sequences are %s" % (tag, goteq, "equal" if w == 0 else "different"))
            elif pcmp_b is not None and gotp is not None and gotp != w:
                bad.append("%s: partial_cmp disagrees with cmp" % tag)
            else:
                n_ok += 1
    if bad:
        rep.violated(rule, "order/table", "DnaString ordering / equality: %s" % bad[0], site=F.site(cmp_b, cmp_b["line"]), witness={"kind": "row", "count": len(bad), "rows": bad[:6]})
    elif inc:
        rep.inconclusive(rule, "order/table", "DnaString ordering / equality: %s" % inc[0])
    else:
        rep.holds(rule, "order/table", "cmp / partial_cmp / == of DnaString agree with the base sequences on %d structured operand pairs (symbolic common prefix of 0..64 bases; "
                  "equal, proper-prefix with constant continuations incl. all-A, first difference u < v with symbolic suffixes; both argument orders)" % n_ok)


# ----------------------------------------------------------------------------------------------------------------------
# k-mer iterators end to end (C13 / C05): construct the iterator with the container's own constructor and drive it through its own
# `next` (and any other Iterator method the impl overrides) until it ends — independent of the iterator's private fields.
def _onehot(lo, hi, shift):
    """bits of (1 << base) << shift for the 2-bit base (lo, hi), as ANF terms in a u8"""
    nl, nh = t_not(lo), t_not(hi)
    four = [t_and(nl, nh), t_and(lo, nh), t_and(nl, hi), t_and(lo, hi)]
    out = [ZERO] * 8
    for i in range(4):
        out[shift + i] = four[i]
    return out


class _ExtsHarness(CaseHarness):
    """Exts::set / mk_left / mk_right with a symbolic base: the exact one-hot bits (the shift by a symbolic amount is not interpreted)"""

    def on_call(self, it, fn, args, dest_ty, term, caller):
        p = fn.get("path", "")
        if p in ("Exts::mk_left", "Exts::mk_right") and len(args) == 1 and isinstance(args[0], Int) and not args[0].is_conc():
            b = list(args[0].getbits())
            if any(x is TOP for x in b[:2]) or any(x != ZERO for x in b[2:]):
                return NotImplemented
            return Adt("Exts", 0, [Int(8, False, bits=_onehot(b[0], b[1], 0 if p.endswith("left") else 4))])
        if p == "Exts::set" and len(args) == 3 and isinstance(args[2], Int) and not args[2].is_conc():
            from .absint import Ref as _R
            e = it.read(args[0].cell, args[0].path) if isinstance(args[0], _R) else args[0]
            d = args[1]
            b = list(args[2].getbits())
            if isinstance(e, Adt) and isinstance(d, Adt) and d.variant is not None and not any(x is TOP for x in b[:2]) and all(x == ZERO for x in b[2:]):
                oh = _onehot(b[0], b[1], 0 if d.variant == 0 else 4)
                old = list(e.fields[0].getbits())
                return Adt("Exts", 0, [Int(8, False, bits=[bv.t_or(x, y) for x, y in zip(old, oh)])])
        return NotImplemented


def kmer_iter_e2e_lemmas(F, rep, rule="L-iter"):
    _kmer_iter_e2e(F, rep, rule, "string")
    # ... and over views of a string (forward and reverse-complemented, at an offset), when the driver exported those instances
    if any(k.startswith("<KmerExtsIter<'_, ") and (", " + SLICE_T + "<'_>> as ") in k for k in F.insts):
        _kmer_iter_e2e(F, rep, rule, "view")
        _kmer_iter_e2e(F, rep, rule, "rc-view")


def _kmer_iter_e2e(F, rep, rule, cont):
    try:
        dt = DnaT(F)
    except Unsupported as e:
        rep.inconclusive(rule, "DnaString", "role discovery: %s" % e)
        return
    CONT = "dna_string::DnaString" if cont == "string" else SLICE_T + "<'_>"
    VST = 1         # views start at base 1 of a backing string that extends 2 bases beyond them
    flds = [f["name"] for f in F.adts.get(SLICE_T, {}).get("variants", [{}])[0].get("fields", [])] if hasattr(F, "adts") else []
    order = flds if sorted(flds) == sorted(["dna_string", "start", "length", "is_rc"]) else ["dna_string", "start", "length", "is_rc"]

    def base(i, n):
        """(lo, hi) terms of base i of the iterated sequence of n bases"""
        if cont == "string":
            return var("s", 2 * i), var("s", 2 * i + 1)
        return view_base_bits("s", VST, n, cont == "rc-view", i)

    def subject(n):
        if cont == "string":
            return Ref(Cell(dt.sym("s", n), "seq"))
        vals = {"dna_string": Ref(Cell(dt.sym("s", n + VST + 2), "back")), "start": usize(VST), "length": usize(n), "is_rc": Int(8, False, val=int(cont == "rc-view"), kind="bool")}
        return Ref(Cell(Adt(SLICE_T, 0, [vals[k] for k in order]), "seq"))
    ktys = sorted({k.split("<KmerIter<'_, ")[1].split(", " + CONT)[0] for k in F.insts if k.startswith("<KmerIter<'_, ") and (", " + CONT + "> as ") in k})
    if not ktys:
        rep.inconclusive(rule, "instances", "no monomorphic instance of KmerIter over DnaString was exported")
        return
    for kty in ktys:
        try:
            kt = KType(F, kty)
            kt.K = kmer_k(F, kt)
        except Exception as e:
            rep.inconclusive(rule, kty, "cannot set up %s: %s" % (kty, e))
            continue
        K, W = kt.K, kt.W

        def lanes(first, n):
            spec = [ZERO] * W
            for j in range(K):
                hi, lo = kt.lane_bits(j)
                spec[lo], spec[hi] = base(first + j, n)
            return spec
        for iname, ctor in (("KmerIter", "iter_kmers"), ("KmerExtsIter", "iter_kmer_exts")):
            pre = "<%s<'_, %s, %s> as std::iter::Iterator>::" % (iname, kty, CONT)
            # (closures inside a method are part of that method, not overridden methods of their own)
            meths = sorted(k[len(pre):] for k in F.insts if k.startswith(pre) and "{closure" not in k[len(pre):] and "::" not in k[len(pre):])
            ckey = "<%s as Vmer>::%s::<%s>" % (CONT, ctor, kty)
            ext_vals = (None,) if iname == "KmerIter" else (0x00, 0x21, 0x63, 0xff)
            for n in sorted({max(K - 1, 0), K, K + 1, K + 3}):
                cnt = max(0, n - K + 1)
                for ev in ext_vals:
                    key = "%s/%s/%slen=%d%s" % (kty, ctor, "" if cont == "string" else cont + "/", n, "" if ev is None else "/exts=%02x" % ev)

                    def mk_iter(n=n, ev=ev):
                        args = [subject(n)]
                        if ev is not None:
                            args.append(Adt("Exts", 0, [Int(8, False, val=ev)]))
                        r, _ = run_inst(F, ckey, args, _ExtsHarness())
                        return Cell(r, "iter")

                    def want_exts(i, n=n, ev=ev, cnt=cnt):
                        left = [ONE if (ev >> b) & 1 else ZERO for b in range(4)] if i == 0 else _onehot(base(i - 1, n)[0], base(i - 1, n)[1], 0)[:4]
                        right = [ONE if (ev >> (4 + b)) & 1 else ZERO for b in range(4)] if i == cnt - 1 else _onehot(base(i + K, n)[0], base(i + K, n)[1], 4)[4:]
                        return left + right

                    def check_item(item, i, key):
                        """item i of the iteration: Some(k-mer of bases i..i+K [, its flanking extensions])"""
                        if not (isinstance(item, Adt) and item.variant is not None):
                            rep.inconclusive(rule, key, "next() returned %r" % (item,))
                            return False
                        if i >= cnt:
                            rep.evaluations += 1
                            if item.variant != 0:
                                rep.violated(rule, key, "%s over a sequence of %d bases (K = %d) yields an item at step %d; it holds only %d k-mer(s)" % (ctor, n, K, i, cnt),
                                             witness={"kind": "count", "len": n, "K": K})
                                return False
                            return True
                        if item.variant != 1:
                            rep.evaluations += 1
                            rep.violated(rule, key, "%s over a sequence of %d bases (K = %d) ends after %d item(s); it holds %d k-mers" % (ctor, n, K, i, cnt),
                                         witness={"kind": "count", "len": n, "K": K})
                            return False
                        v = item.fields[0]
                        km = v.fields[0] if ev is not None else v
                        if not expect_bits(rep, rule, key + "/item=%d" % i, kt.storage_of(km), lanes(i, n), "%s: item %d of %d is the k-mer of bases %d..%d" % (ctor, i, cnt, i, i + K)):
                            return False
                        if ev is not None:
                            ex = v.fields[1]
                            return expect_bits(rep, rule, key + "/item=%d/exts" % i, ex.fields[0] if isinstance(ex, Adt) else ex, want_exts(i),
                                               "%s(exts %02x): the extensions of item %d are its flanking bases, the caller's boundary extensions only at the two ends" % (ctor, ev, i))
                        return True

                    def f_next(key=key, mk_iter=mk_iter, check_item=check_item):
                        cell = mk_iter()
                        for i in range(cnt + 2):
                            item, _ = run_inst(F, pre + "next", [Ref(cell)], _ExtsHarness())
                            if not check_item(item, i, key):
                                return
                        rep.holds(rule, key, "%s over %d bases yields exactly %d item(s), then ends and stays ended" % (ctor, n, cnt), nontrivial=False)
                    guarded(rep, rule, key, ctor, f_next)

                    for m in meths:
                        if m == "next":
                            continue
                        if m == "nth":
                            for j in range(0, cnt + 2):
                                def f_nth(j=j, key=key, mk_iter=mk_iter, check_item=check_item):
                                    cell = mk_iter()
                                    item, _ = run_inst(F, pre + "nth", [Ref(cell), usize(j)], _ExtsHarness())
                                    if not check_item(item, j, key + "/nth(%d)" % j):
                                        return
                                    nxt, _ = run_inst(F, pre + "next", [Ref(cell)], _ExtsHarness())
                                    if check_item(nxt, j + 1, key + "/nth(%d)+next" % j):
                                        rep.holds(rule, key + "/nth(%d)" % j, "nth(%d) = item %d (or the end), the iteration continues with item %d" % (j, j, j + 1), nontrivial=False)
                                guarded(rep, rule, key + "/nth(%d)" % j, "nth", f_nth)
                        elif m == "size_hint":
                            def f_sh(key=key, mk_iter=mk_iter):
                                cell = mk_iter()
                                r, _ = run_inst(F, pre + "size_hint", [Ref(cell)], _ExtsHarness())
                                rep.evaluations += 1
                                lo_ = r.fields[0] if isinstance(r, Tup) else None
                                hi_ = r.fields[1] if isinstance(r, Tup) else None
                                ok = isinstance(lo_, Int) and lo_.is_conc() and lo_.val <= cnt and isinstance(hi_, Adt) and hi_.variant is not None and \
                                    (hi_.variant == 0 or (isinstance(hi_.fields[0], Int) and hi_.fields[0].is_conc() and hi_.fields[0].val >= cnt))
                                if ok:
                                    rep.holds(rule, key + "/size_hint", "size_hint brackets the %d remaining items" % cnt, nontrivial=False)
                                else:
                                    rep.violated(rule, key + "/size_hint", "size_hint of a fresh iterator over %d k-mers is %r" % (cnt, r))
                            guarded(rep, rule, key + "/size_hint", "size_hint", f_sh)
                        elif m in ("fold", "for_each", "count", "last"):
                            pass        # decided differentially against next(), from every cursor, by dt_seq.kmer_iter_override_table
                        else:
                            rep.inconclusive(rule, key + "/" + m, "the iterator overrides Iterator::%s; no lemma relates it to next()" % m)



def lmer_eq_table(F, rep, rule="C17.eq", only_if_by_hand=True):
    """`==` / `!=` of fixed-size strings, interpreted on structured operand pairs for every exported capacity: equal strings; the same
    bases with a different length (the shorter one followed by A's — identical words except the length byte); one complemented base at
    the first / a middle / the last position (also in a word other than the first).  Required: equal exactly when length and bases agree,
    and symmetric."""
    from . import structural
    d = structural.derives(F, "vmer::Lmer")
    by_hand = [tr for tr in ("std::cmp::PartialEq",) if tr in d and not d[tr]]
    if only_if_by_hand and not by_hand:
        return
    caps = sorted({k.split(" as ")[0][1:] for k in F.insts if k.startswith("<vmer::Lmer<[u64; ") and k.endswith("std::cmp::PartialEq>::eq")})
    if not caps:
        rep.inconclusive(rule, "vmer::Lmer/eq", "no monomorphic instance of Lmer's PartialEq::eq in the driver's facts")
        return
    for ty in caps:
        lt = LmerT(F, ty)
        lens = sorted({0, 1, 4, 20, 31, 32, 33, min(40, lt.max_len), lt.max_len - 1, lt.max_len} & set(range(lt.max_len + 1)))
        rows = []
        for la in lens:
            rows.append(("same", la, la, None))
            for lb in lens:
                if lb != la:
                    rows.append(("length", la, lb, None))
            for j in sorted({0, la // 2, la - 1} & set(range(la))):
                rows.append(("base", la, la, j))
        for kind, la, lb, j in rows:
            for meth in ("eq", "ne"):
                key = "%s/%s/%s/la=%d/lb=%d%s" % (ty, meth, kind, la, lb, "" if j is None else "/pos=%d" % j)

                def f(kind=kind, la=la, lb=lb, j=j, meth=meth, key=key, lt=lt, ty=ty):
                    wa = lt.words("s", la, la)
                    wb = lt.words("s", lb, min(la, lb))
                    if j is not None:
                        w, hi, lo = lt.pos_bits(j)
                        wb[w][lo] = t_not(wb[w][lo])
                    want_eq = (kind == "same")
                    for (x, y, tag) in ((wa, wb, "a,b"), (wb, wa, "b,a")):
                        r, _ = run_inst(F, "<%s as std::cmp::PartialEq>::%s" % (ty, meth), [Ref(Cell(lt.mk(x), "x")), Ref(Cell(lt.mk(y), "y"))])
                        rep.evaluations += 1
                        if not (isinstance(r, Int) and r.is_conc()):
                            rep.inconclusive(rule, key, "%s(%s) = %r" % (meth, tag, r))
                            return
                        got_eq = bool(r.val) if meth == "eq" else not bool(r.val)
                        if got_eq != want_eq:
                            what = {"same": "two equal strings of %d bases" % la,
                                    "length": "a string of %d bases and the string of %d bases that %s" % (
                                        la, lb, "continues it with A's" if lb > la else "is its prefix"),
                                    "base": "two strings of %d bases that differ at position %d" % (la, j if j is not None else -1)}[kind]
                            rep.violated(rule, key, "%s on %s (operands %s) says %s; strings are equal exactly when their lengths and all their bases agree" % (
                                meth, what, tag, "equal" if got_eq else "different"), witness={"kind": "row", "row": {"la": la, "lb": lb, "pos": j, "order": tag}})
                            return
                    rep.holds(rule, key, "%s agrees with the strings (both operand orders)" % meth, nontrivial=False)
                guarded(rep, rule, key, meth, f)



def container_iter_lemmas(F, rep, rule="L-base-iter", conts=("slice", "string"), quick=True):
    """base iteration `for b in &x` (IntoIterator for &C, and the Iterator impl of whatever iterator type it returns): yields exactly the
    bases 0..len of the string / view in order, then None — exact, on symbolic backing strings, for views at aligned and unaligned offsets,
    across storage words, on both strands, and for empty ones."""
    try:
        dt = DnaT(F)
    except Unsupported as e:
        rep.inconclusive(rule, "DnaString", "role discovery: %s" % e)
        return
    roots = F.d.get("roots", [])
    flds = [f["name"] for f in F.adts.get(SLICE_T, {}).get("variants", [{}])[0].get("fields", [])] if hasattr(F, "adts") else []
    order = flds if sorted(flds) == sorted(["dna_string", "start", "length", "is_rc"]) else ["dna_string", "start", "length", "is_rc"]
    for cname, cty in (("slice", SLICE_T + "<'_>"), ("string", DS)):
        if cname not in conts:
            continue
        into = [r for r in roots if r.get("trait") == "IntoIterator" and r.get("self") == "&" + cty]
        nexts = [r for r in roots if r.get("trait") == "Iterator" and r.get("of") == cty and r.get("method") == "next" and not r.get("via")]
        if not into:
            continue        # the container is not iterable by reference: nothing to decide
        if len(nexts) != 1 or into[0]["key"] not in F.insts or nexts[0]["key"] not in F.insts:
            rep.inconclusive(rule, "%s/into_iter" % cname, "the iterator type returned by <&%s as IntoIterator>::into_iter is not a crate type with its own `next` "
                             "in the driver's facts" % cty)
            continue
        ikey, nkey = into[0]["key"], nexts[0]["key"]
        if cname == "slice":
            nback = 70
            starts = (0, 1, 31, 32, 33) if quick else (0, 1, 2, 31, 32, 33, 63, 64)
            lens = (0, 1, 3, 31, 32, 33) if quick else (0, 1, 2, 3, 31, 32, 33, 34)
            cases = [(nback, st, ln, rc) for st in starts for ln in lens for rc in (False, True) if st + ln <= nback]
            cases += [(64, 32, 32, rc) for rc in (False, True)] + [(64, 0, 64, rc) for rc in (False, True)] + [(0, 0, 0, False), (0, 0, 0, True)]
        else:
            cases = [(n, 0, n, False) for n in (0, 1, 31, 32, 33, 64, 65)]
        for nb, st, ln, rc in cases:
            key = "%s/iter/backing=%d/start=%d/len=%d/rc=%d" % (cname, nb, st, ln, int(rc))

            def f(nb=nb, st=st, ln=ln, rc=rc, key=key, cname=cname, ikey=ikey, nkey=nkey):
                back = Cell(dt.sym("s", nb), "back")
                if cname == "slice":
                    vals = {"dna_string": Ref(back), "start": usize(st), "length": usize(ln), "is_rc": Int(8, False, val=int(rc), kind="bool")}
                    me = Ref(Cell(Adt(SLICE_T, 0, [vals[k] for k in order]), "self"))
                else:
                    me = Ref(back)
                itv, _ = run_inst(F, ikey, [me])
                cell = Cell(itv, "iter")
                for i in range(ln + 2):
                    r, _ = run_inst(F, nkey, [Ref(cell)])
                    rep.evaluations += 1
                    if not (isinstance(r, Adt) and r.variant in (0, 1)):
                        rep.inconclusive(rule, key, "next() number %d returns %r" % (i, r))
                        return
                    if i >= ln:
                        if r.variant != 0:
                            rep.violated(rule, key, "iterating a %s of %d bases (start %d, is_rc %s): next() number %d yields another base instead of ending" % (
                                "view" if cname == "slice" else "string", ln, st, rc, i), witness={"kind": "iter", "step": i})
                            return
                        continue
                    if r.variant != 1:
                        rep.violated(rule, key, "iterating a %s of %d bases (start %d, is_rc %s): the iteration ends after %d bases" % (
                            "view" if cname == "slice" else "string", ln, st, rc, i), witness={"kind": "iter", "step": i})
                        return
                    e = r.fields[0]
                    lo, hi = view_base_bits("s", st, ln, rc, i)
                    if not isinstance(e, Int) or any(b is TOP for b in e.getbits()):
                        rep.inconclusive(rule, key, "item %d is %r" % (i, e))
                        return
                    if list(e.getbits()) != [lo, hi] + [ZERO] * (len(e.getbits()) - 2):
                        rep.violated(rule, key, "iterating a %s of %d bases (start %d, is_rc %s): item %d is %s|%s, specified: base %d of the %s = %s|%s" % (
                            "view" if cname == "slice" else "string", ln, st, rc, i, bv.t_str(e.getbits()[1]), bv.t_str(e.getbits()[0]), i,
                            "view" if cname == "slice" else "string", bv.t_str(hi), bv.t_str(lo)), witness={"kind": "iter", "step": i})
                        return
                rep.holds(rule, key, "`for b in &x` yields the %d bases in order and then ends" % ln, nontrivial=False)
            guarded(rep, rule, key, "iter", f)
        # an iterator that overrides nth / size_hint: scripted interleavings (a steps, one skip of n, two more steps) on long inputs — skips
        # inside a storage word, across one, by a whole word and more, and past the end
        meths = {r["method"]: r["key"] for r in roots if r.get("trait") == "Iterator" and r.get("of") == cty and r["key"] in F.insts and not r.get("via")}
        if "nth" in meths or "size_hint" in meths:
            long_cases = [(70, 0, 70, False)] if cname == "string" else [(70, 1, 66, False), (70, 1, 66, True), (70, 32, 38, False)]
            for nb, st, ln, rc in long_cases:
                key = "%s/iter-skips/backing=%d/start=%d/len=%d/rc=%d" % (cname, nb, st, ln, int(rc))

                def g(nb=nb, st=st, ln=ln, rc=rc, key=key, cname=cname, ikey=ikey, nkey=nkey, meths=meths):
                    def fresh():
                        back = Cell(dt.sym("s", nb), "back")
                        if cname == "slice":
                            vals = {"dna_string": Ref(back), "start": usize(st), "length": usize(ln), "is_rc": Int(8, False, val=int(rc), kind="bool")}
                            me = Ref(Cell(Adt(SLICE_T, 0, [vals[k] for k in order]), "self"))
                        else:
                            me = Ref(back)
                        itv, _ = run_inst(F, ikey, [me])
                        return Cell(itv, "iter")

                    def check(r, i, what):
                        """r must be Some(base i) for i < ln, None otherwise"""
                        if not (isinstance(r, Adt) and r.variant in (0, 1)):
                            rep.inconclusive(rule, key, "%s returns %r" % (what, r))
                            return False
                        if i >= ln:
                            if r.variant != 0:
                                rep.violated(rule, key, "%s yields a base although only %d bases exist" % (what, ln), witness={"kind": "iter"})
                                return False
                            return True
                        if r.variant != 1:
                            rep.violated(rule, key, "%s ends the iteration although base %d of %d exists" % (what, i, ln), witness={"kind": "iter"})
                            return False
                        e = r.fields[0]
                        lo, hi = view_base_bits("s", st, ln, rc, i)
                        if not isinstance(e, Int) or any(b is TOP for b in e.getbits()):
                            rep.inconclusive(rule, key, "%s: item %r" % (what, e))
                            return False
                        if list(e.getbits()) != [lo, hi] + [ZERO] * (len(e.getbits()) - 2):
                            rep.violated(rule, key, "%s yields %s|%s; specified: base %d of the %s = %s|%s" % (
                                what, bv.t_str(e.getbits()[1]), bv.t_str(e.getbits()[0]), i, "view" if cname == "slice" else "string", bv.t_str(hi), bv.t_str(lo)),
                                witness={"kind": "iter", "step": i})
                            return False
                        return True
                    n_scripts = 0
                    if "size_hint" in meths:
                        for a_ in (0, 3):
                            cell = fresh()
                            for _ in range(a_):
                                run_inst(F, nkey, [Ref(cell)])
                            r, _ = run_inst(F, meths["size_hint"], [Ref(cell)])
                            rep.evaluations += 1
                            lo_, hi_ = (r.fields[0], r.fields[1]) if isinstance(r, Tup) and len(r.fields) == 2 else (None, None)
                            okb = isinstance(lo_, Int) and lo_.is_conc() and lo_.val <= ln - a_ and isinstance(hi_, Adt) and \
                                (hi_.variant == 0 or (isinstance(hi_.fields[0], Int) and hi_.fields[0].is_conc() and hi_.fields[0].val >= ln - a_))
                            if not okb:
                                rep.violated(rule, key, "size_hint after %d steps is %r; %d bases remain" % (a_, r, ln - a_), witness={"kind": "iter"})
                                return
                    if "nth" in meths:
                        for a_ in (0, 1, 31, 33):
                            for n_ in (0, 1, 30, 31, 32, 33, ln, (1 << 64) - 1):
                                cell = fresh()
                                n_scripts += 1
                                for _ in range(a_):
                                    run_inst(F, nkey, [Ref(cell)])
                                r, _ = run_inst(F, meths["nth"], [Ref(cell), usize(n_)])
                                rep.evaluations += 1
                                tgt = a_ + n_
                                if not check(r, tgt, "after %d steps, nth(%d)" % (a_, n_)):
                                    return
                                cur = min(tgt + 1, ln) if tgt < ln else ln
                                for j_ in range(2):
                                    r, _ = run_inst(F, nkey, [Ref(cell)])
                                    if not check(r, cur, "after %d steps and nth(%d), next() number %d" % (a_, n_, j_ + 1)):
                                        return
                                    cur = min(cur + 1, ln)
                    rep.holds(rule, key, "overridden nth / size_hint agree with stepping (%d scripted skips)" % n_scripts, nontrivial=False)
                guarded(rep, rule, key, "iter", g)



def kmer_base_iter_lemmas(F, rep, rule="L-kmer-iter"):
    """`Mer::iter()` on every k-mer type (the trait's base iterator): yields bases 0..K in order and then ends; an overridden `nth` /
    `size_hint` agrees with stepping from every cursor"""
    roots = F.d.get("roots", [])
    for ty in [k["ty"] for k in F.kmer_types]:
        ikey = "<%s as Mer>::iter" % ty
        meths = {r["method"]: r["key"] for r in roots if r.get("trait") == "Iterator" and r.get("of") == ty and r.get("via") == "Mer::iter" and r["key"] in F.insts}
        if ikey not in F.insts or "next" not in meths:
            rep.inconclusive(rule, ty + "/iter", "the iterator type returned by <%s as Mer>::iter is not a crate type with its own `next` in the driver's facts" % ty)
            continue
        nkey = meths["next"]

        def f(ty=ty, ikey=ikey, nkey=nkey, meths=meths):
            kt = KType(F, ty)
            kt.K = kmer_k(F, kt)
            K = kt.K
            S = in_bits("s", 2 * K, kt.W)

            def fresh():
                itv, _ = run_inst(F, ikey, [Ref(Cell(kt.sym("s"), "self"))])
                return Cell(itv, "iter")

            def check(r, i, what):
                if not (isinstance(r, Adt) and r.variant in (0, 1)):
                    rep.inconclusive(rule, ty + "/iter", "%s returns %r" % (what, r))
                    return False
                if i >= K:
                    if r.variant != 0:
                        rep.violated(rule, ty + "/iter", "%s yields a base although the k-mer has only %d" % (what, K), witness={"kind": "iter"})
                        return False
                    return True
                if r.variant != 1:
                    rep.violated(rule, ty + "/iter", "%s ends the iteration although base %d of %d exists" % (what, i, K), witness={"kind": "iter"})
                    return False
                e = r.fields[0]
                hi, lo = kt.lane_bits(i)
                if not isinstance(e, Int) or any(b is TOP for b in e.getbits()):
                    rep.inconclusive(rule, ty + "/iter", "%s: item %r" % (what, e))
                    return False
                if list(e.getbits()) != [S[lo], S[hi]] + [ZERO] * (len(e.getbits()) - 2):
                    rep.violated(rule, ty + "/iter", "%s yields %s|%s; specified: base %d of the k-mer = %s|%s" % (
                        what, bv.t_str(e.getbits()[1]), bv.t_str(e.getbits()[0]), i, bv.t_str(S[hi]), bv.t_str(S[lo])), witness={"kind": "iter", "step": i})
                    return False
                return True
            cell = fresh()
            for i in range(K + 2):
                r, _ = run_inst(F, nkey, [Ref(cell)])
                rep.evaluations += 1
                if not check(r, i, "iter(): next() number %d" % i):
                    return
            n_scripts = 0
            if "size_hint" in meths:
                for a_ in sorted({0, 1, K}):
                    cell = fresh()
                    for _ in range(a_):
                        run_inst(F, nkey, [Ref(cell)])
                    r, _ = run_inst(F, meths["size_hint"], [Ref(cell)])
                    rep.evaluations += 1
                    lo_, hi_ = (r.fields[0], r.fields[1]) if isinstance(r, Tup) and len(r.fields) == 2 else (None, None)
                    okb = isinstance(lo_, Int) and lo_.is_conc() and lo_.val <= K - a_ and isinstance(hi_, Adt) and \
                        (hi_.variant == 0 or (isinstance(hi_.fields[0], Int) and hi_.fields[0].is_conc() and hi_.fields[0].val >= K - a_))
                    if not okb:
                        rep.violated(rule, ty + "/iter", "iter(): size_hint after %d steps is %r; %d bases remain" % (a_, r, K - a_), witness={"kind": "iter"})
                        return
            if "nth" in meths:
                for a_ in sorted({0, 1, K // 2, K}):
                    for n_ in sorted({0, 1, K - 1, K, (1 << 64) - 1}):
                        cell = fresh()
                        n_scripts += 1
                        for _ in range(a_):
                            run_inst(F, nkey, [Ref(cell)])
                        r, _ = run_inst(F, meths["nth"], [Ref(cell), usize(n_)])
                        rep.evaluations += 1
                        tgt = a_ + n_
                        if not check(r, tgt, "iter(): after %d steps, nth(%d)" % (a_, n_)):
                            return
                        cur = min(tgt + 1, K) if tgt < K else K
                        for j_ in range(2):
                            r, _ = run_inst(F, nkey, [Ref(cell)])
                            if not check(r, cur, "iter(): after %d steps and nth(%d), next() number %d" % (a_, n_, j_ + 1)):
                                return
                            cur = min(cur + 1, K)
            rep.holds(rule, ty + "/iter", "iter() yields the %d bases in order and then ends%s" % (
                K, " (overridden nth / size_hint agree with stepping: %d scripted skips)" % n_scripts if n_scripts else ""), nontrivial=False)
        guarded(rep, rule, ty + "/iter", "iter", f)


def node_kmer_iter_e2e(F, rep, rule="L-node-iter", quick=True):
    """the k-mer iterator of a graph node, end to end and representation-independent: NodeKmer::into_iter on a node that is a view into a
    symbolic packed store, then scripted interleavings of next() and nth(n) — n below / at / above the short-skip threshold, inside and
    beyond the remaining count, and at the integer-width landmarks (2^8, 2^16, 2^32 (+1), usize::MAX) — each followed by draining with
    next().  Every call must return the k-mer the specification's cursor points at (or None from the moment a step or skip reaches past
    the last k-mer, for ever after); a fresh iterator reports exactly the number of k-mers."""
    try:
        dt = DnaT(F)
    except Unsupported as e:
        rep.inconclusive(rule, "DnaString", "role discovery: %s" % e)
        return
    roots = F.d.get("roots", [])
    flds = [f["name"] for f in F.adts.get(SLICE_T, {}).get("variants", [{}])[0].get("fields", [])]
    order = flds if sorted(flds) == sorted(["dna_string", "start", "length", "is_rc"]) else ["dna_string", "start", "length", "is_rc"]
    nk = F.adts.get("graph::NodeKmer")
    if not nk:
        rep.violated(rule, "NodeKmer", "anchor-missing: graph::NodeKmer", witness={"kind": "anchor-missing"})
        return
    nkf = nk["variants"][0]["fields"]
    handles = [r for r in roots if r.get("trait") == "IntoIterator" and r.get("self", "").startswith("graph::NodeKmer<")]
    if not handles:
        rep.inconclusive(rule, "NodeKmer/into_iter", "no monomorphic instance of NodeKmer's IntoIterator in the driver's facts")
        return
    BIG = [1 << 8, 1 << 16, 1 << 32, (1 << 32) + 1, (1 << 64) - 1]
    for hi_, h in enumerate(handles):
        selfty = h["self"]
        m = re.match(r"^graph::NodeKmer<'_, (.+), \(\)>$", selfty)
        if not m:
            continue
        kty = m.group(1)
        try:
            kt = KType(F, kty)
            kt.K = kmer_k(F, kt)
        except Exception as e:
            rep.inconclusive(rule, "%s/K" % kty, "cannot evaluate K: %s" % e)
            continue
        K = kt.K
        meths = {r["method"]: r["key"] for r in roots if r.get("trait") == "Iterator" and r.get("of") == selfty and not r.get("via")}
        if "next" not in meths or h["key"] not in F.insts or any(k_ not in F.insts for k_ in meths.values()):
            rep.inconclusive(rule, "%s/iterator" % kty, "the iterator returned by NodeKmer::into_iter has no `next` instance in the driver's facts")
            continue
        count = 8
        ln = K + count - 1
        small = [0, 1, 3, 4, 5, 6, 7, 8, 9]
        ops1 = [("next", None)] + [("nth", n) for n in small + BIG]
        first = (kty == sorted(re.match(r"^graph::NodeKmer<'_, (.+), \(\)>$", x["self"]).group(1) for x in handles)[0]) or not quick
        scripts = []
        for a in ops1:
            scripts.append([a])
            if first:
                for b in ops1:
                    scripts.append([a, b])
        if first:
            scripts += [[("nth", 1), ("nth", 5), ("next", None)], [("next", None), ("nth", 5), ("nth", 5)], [("nth", 5), ("nth", 0), ("nth", 5)],
                        [("next", None)] * 3 + [("nth", 5)], [("nth", 6), ("nth", (1 << 64) - 1)], [("next", None), ("nth", (1 << 64) - 1)]]
        starts = (30,) if quick and not first else (0, 30)
        nback = 130
        bad = None
        inc = None
        nrun = 0
        for st in starts:
            if "usize" not in [f["ty"] for f in nkf if f["name"] == "node_id"] or any(
                    f["name"] not in ("node_id", "node_seq_slice") and "PhantomData" not in f["ty"] for f in nkf):
                inc = "role discovery: the fields of NodeKmer are %s" % [f["name"] for f in nkf]
                break

            def fresh(st=st):
                vals = {"dna_string": Ref(Cell(dt.sym("s", nback), "back")), "start": usize(st), "length": usize(ln),
                        "is_rc": Int(8, False, val=0, kind="bool")}
                view = Adt(SLICE_T, 0, [vals[k] for k in order])
                fv = []
                for f in nkf:
                    fv.append(usize(7) if f["name"] == "node_id" else (view if f["name"] == "node_seq_slice" else Adt("std::marker::PhantomData", 0, [])))
                itv, _ = run_inst(F, h["key"], [Adt("graph::NodeKmer", 0, fv)])
                return Cell(itv, "iter")

            def item_ok(r, idx, st=st):
                """r must be Some(k-mer idx) for idx < count, None otherwise; returns None if fine, else a description / ('inc', ..)"""
                if not (isinstance(r, Adt) and r.variant in (0, 1)):
                    return ("inc", "returns %r" % (r,))
                if idx >= count:
                    return None if r.variant == 0 else "yields a k-mer although the cursor is past the last k-mer (%d of %d)" % (idx, count)
                if r.variant != 1:
                    return "returns None although k-mer %d of %d exists" % (idx, count)
                got = kt.storage_of(r.fields[0])
                if not isinstance(got, Int) or any(b is TOP for b in got.getbits()):
                    return ("inc", "item %r" % (r.fields[0],))
                spec = [ZERO] * kt.W
                for j in range(K):
                    hi, lo = kt.lane_bits(j)
                    blo, bhi = view_base_bits("s", st, ln, False, idx + j)
                    spec[hi], spec[lo] = bhi, blo
                gb = list(got.getbits())
                if CaseHarness.subst:
                    # decided under a case split (a comparison of a symbolic word with a constant came out "equal"): both sides under the case
                    gb = [bv.t_subst(x, CaseHarness.subst) for x in gb]
                    spec = [bv.t_subst(x, CaseHarness.subst) for x in spec]
                if gb != spec:
                    return "yields a k-mer that is not k-mer %d of the node (bases %d..%d)%s" % (
                        idx, idx, idx + K, " — in the case where a k-mer the iterator compared with a constant equals it (e.g. an all-A k-mer inside the node)" if CaseHarness.subst else "")
                return None

            try:
                if "size_hint" in meths:
                    r, _ = run_inst(F, meths["size_hint"], [Ref(fresh())])
                    rep.evaluations += 1
                    ok = isinstance(r, Tup) and isinstance(r.fields[0], Int) and r.fields[0].is_conc() and r.fields[0].val == count and \
                        isinstance(r.fields[1], Adt) and r.fields[1].variant == 1 and isinstance(r.fields[1].fields[0], Int) and \
                        r.fields[1].fields[0].is_conc() and r.fields[1].fields[0].val == count
                    if not ok:
                        bad = bad or "size_hint of a fresh iterator over a node of %d k-mers is %r" % (count, r)
                # every script is run for every outcome of the comparisons (symbolic word == constant) the iterator makes on the way
                # (none on the pinned tree): a sentinel value that collides with a real k-mer shows in the "equal" case
                jobs = [(sc, []) for sc in scripts]
                ncases = 0
                while jobs:
                    sc, case_script = jobs.pop(0)
                    if bad or inc:
                        break
                    CaseHarness.begin(case_script)
                    cell = fresh()
                    idx = 0
                    trace = []
                    for (op, n) in list(sc) + [("next", None)] * (count + 2):
                        nrun += 1
                        rep.evaluations += 1
                        trace.append("next()" if op == "next" else "nth(%d)" % n)
                        if op == "next":
                            r, _ = run_inst(F, meths["next"], [Ref(cell)])
                            want = idx
                            idx = min(idx + 1, count) if idx < count else idx
                        else:
                            if "nth" in meths:
                                r, _ = run_inst(F, meths["nth"], [Ref(cell), usize(n)])
                            else:
                                r = None
                                for _i in range(min(n, count + 1) + 1):
                                    r, _ = run_inst(F, meths["next"], [Ref(cell)])
                                    if isinstance(r, Adt) and r.variant == 0:
                                        break
                            want = idx + n
                            idx = min(idx + n + 1, count) if idx + n < count else count
                            if want >= count:
                                want = count
                        pr = item_ok(r, want)
                        if pr is not None:
                            shown = trace if len(trace) <= 6 else trace[:len(sc) + 1] + ["…"] + trace[-1:]
                            if isinstance(pr, tuple):
                                inc = "after %s: %s" % (", ".join(shown), pr[1])
                            else:
                                bad = "a node of %d k-mers (view at %d of the packed store): after %s the call %s" % (count, st, ", ".join(shown), pr)
                            break
                    ch = list(CaseHarness._choices)
                    if ncases < 40:
                        for i_ in range(len(case_script), len(ch)):
                            if not ch[i_]:
                                jobs.append((sc, ch[:i_] + [True]))
                                ncases += 1
                CaseHarness.begin([])
            except Diverge as e:
                bad = bad or "a node of %d k-mers: %s diverges (panics): %s" % (count, ", ".join(trace[-4:]) if 'trace' in dir() else "into_iter", e)
            except (Undecided, Unsupported) as e:
                inc = inc or str(e)
        key = "%s/sequences" % kty
        if bad:
            rep.violated(rule, key, "NodeKmerIter<%s>: %s" % (kty, bad), witness={"kind": "iter-script"})
        elif inc:
            rep.inconclusive(rule, key, "NodeKmerIter<%s>: %s" % (kty, inc))
        else:
            rep.holds(rule, key, "NodeKmerIter<%s>: %d scripted interleavings of next()/nth(n) (%d calls) return exactly the node's k-mers in order and "
                      "None from the first step or skip past the end on; a fresh iterator reports %d" % (kty, len(scripts) * len(starts), nrun, count))


# ----------------------------------------------------------------------------------------------------------------------
# generic helpers over `K: Kmer` (free functions of the crate): which trait operation do they implement?  Decided per k-mer type by
# comparing, bit for bit, the helper's result with the result of the trait operation on the same symbolic inputs.  A helper must be the
# SAME abstract operation for every k-mer type: one that is `extend_right` for nineteen types and something else for the twentieth is a
# contradiction (whatever its author meant), and the tables that meet a call to it use the operation it was identified with.

def kmer_helper_lemmas(F, rep, rule="L-helper", only=None):
    """`only`: report only on these helper paths (the identification itself is always stored in F.helper_summary)"""
    roots = [r for r in F.d.get("roots", []) if r.get("free")]
    by_fn = {}
    for r in roots:
        by_fn.setdefault(r["free"], []).append(r)
    summary = {}
    for path, rs in sorted(by_fn.items()):
        labels = {}
        detail = {}
        shape = None
        for r in rs:
            kty, key = r["k"], r["key"]
            body = F.insts.get(key)
            if body is None:
                continue
            try:
                kt = KType(F, kty)
                kt.K = kmer_k(F, kt)
            except Exception:
                continue
            lt = [str(x) for x in body["locals"][:body["argc"] + 1]]
            with_dir = body["argc"] == 3 and lt[3].split("::")[-1] == "Dir"
            if not (body["argc"] in (2, 3) and lt[0] == kty and lt[1] in (kty, "&" + kty) and lt[2] == "u8" and (body["argc"] == 2 or with_dir)):
                shape = "other"
                break
            shape = "(K, u8, Dir) -> K" if with_dir else "(K, u8) -> K"

            def mk_args(dirv=None, lt=lt, kt=kt):
                k = kt.sym("s")
                return [Ref(Cell(k, "k")) if lt[1].startswith("&") else k, base_arg()] + ([dir_val(dirv)] if dirv else [])

            def bits_of(key_, args_):
                r_, _ = run_inst(F, key_, args_)
                b_ = list(kt.storage_of(r_).getbits())
                if any(x is TOP for x in b_):
                    raise Undecided("unknown result bits")
                return b_
            lab = None
            try:
                if with_dir:
                    ok = True
                    for dv, meth in (("Left", "extend_left"), ("Right", "extend_right")):
                        gb = bits_of(key, mk_args(dv))
                        rb = bits_of(kt.key("Kmer", meth), [Ref(Cell(kt.sym("s"), "self")), base_arg()])
                        rep.evaluations += 1
                        if gb != rb:
                            ok = False
                            bad = next((i for i, (x, y) in enumerate(zip(gb, rb)) if x != y), None)
                            detail[kty] = "with dir = %s, bit %s of the result is %s, Kmer::%s gives %s" % (dv, bad, bv.t_str(gb[bad]), meth, bv.t_str(rb[bad]))
                            break
                    lab = "extend" if ok else None
                else:
                    gb = bits_of(key, mk_args())
                    for meth in ("extend_right", "extend_left"):
                        rb = bits_of(kt.key("Kmer", meth), [Ref(Cell(kt.sym("s"), "self")), base_arg()])
                        rep.evaluations += 1
                        if gb == rb:
                            lab = meth
                            break
                        if meth == "extend_right":
                            bad = next((i for i, (x, y) in enumerate(zip(gb, rb)) if x != y), None)
                            detail[kty] = "bit %s of the result is %s, Kmer::extend_right gives %s" % (bad, bv.t_str(gb[bad]), bv.t_str(rb[bad]))
            except (Undecided, Unsupported, Diverge, KeyError, AttributeError) as e:
                detail[kty] = "could not be evaluated: %s" % e
            labels[kty] = lab
        if shape not in ("(K, u8) -> K", "(K, u8, Dir) -> K") or not labels:
            continue
        fname = path.split("::")[-1]
        quiet = only is not None and path not in only
        counts = {}
        for kty, lab in labels.items():
            counts[lab] = counts.get(lab, 0) + 1
        named = {k: v for k, v in counts.items() if k}
        if len(named) == 1 and None not in counts:
            op = next(iter(named))
            summary[path] = op
            if not quiet:
                rep.holds(rule, fname, "%s::<K> is Kmer::%s for all %d k-mer types (bit for bit on symbolic inputs)" % (path, op, len(labels)))
        elif named and not quiet:
            op = max(named, key=named.get)
            odd = sorted(k for k, l in labels.items() if l != op)
            rep.violated(rule, fname, "%s::<K> is Kmer::%s for %d k-mer type(s) but not for %s: %s — a generic helper must be the same operation on "
                         "the K-letter string for every k-mer type; the code that calls it gets a wrong k-mer for that type" % (
                             path, op, named[op], ", ".join(odd[:3]), detail.get(odd[0], "")), witness={"kind": "helper", "types": odd})
        # (a helper that matches no known operation stays unknown: tables that meet it are INCONCLUSIVE)
    F.helper_summary = summary
    return summary


def kmer_hash_lemmas(F, rep, rule="L-hash"):
    """Hash of every k-mer type, whether derived or written by hand: what is fed to the hasher must determine the k-mer (and be determined by
    its used lanes only).  `hash` is interpreted on a symbolic k-mer with a recording hasher; the recorded bits, as XORs of the k-mer's
    bits, must have full rank over GF(2) — otherwise two different k-mers feed every hasher, under every seed, the same data (a perfect
    hash can never separate them); a witness pair is computed from the kernel."""
    from . import gf2
    from .absint import tags_of
    roots = [r for r in F.d.get("roots", []) if r.get("trait") == "Hash" and r.get("self") in [k["ty"] for k in F.kmer_types]]
    if not roots:
        rep.inconclusive(rule, "Hash", "no monomorphic instance of Hash::hash for the k-mer types in the driver's facts")
        return

    class H(Harness):
        def __init__(self):
            self.fed = []
            self.bad = []

        def on_call(self, it, fn, args, dest_ty, term, caller):
            path = fn.get("path", "")
            name = path.split("::")[-1]
            tr = fn.get("trait", "") or ""
            if tr.endswith("hash::Hash") and name == "hash" and len(args) == 2 and it.find_body(fn) is None:
                # the library's Hash of a primitive / PhantomData / tuple / array: feeds the value itself
                v = args[0]
                while isinstance(v, Ref):
                    v = it.read(v.cell, v.path)

                def feed(x):
                    if isinstance(x, Int):
                        self.fed.append(list(x.getbits()))
                    elif isinstance(x, (Tup, Arr, VecV)):
                        for e in (x.fields if isinstance(x, Tup) else x.elems):
                            feed(e)
                    elif isinstance(x, Adt) and x.name.endswith("PhantomData"):
                        pass
                    else:
                        self.bad.append("library Hash of %r" % (x,))
                feed(v)
                return Tup([])
            if tr.endswith("hash::Hasher") and name.startswith("write") and len(args) == 2:
                v = args[1]
                if isinstance(v, Int):
                    self.fed.append(list(v.getbits()))
                    return Tup([])
                if isinstance(v, Ref):
                    from .models import seq_of
                    sq = seq_of(it, v)
                    if sq is not None:
                        for e in sq[0].elems[sq[1]:sq[1] + sq[2]]:
                            self.fed.append(list(e.getbits()) if isinstance(e, Int) else [TOP])
                        return Tup([])
                self.bad.append("hasher fed with %r" % (v,))
                return Tup([])
            return NotImplemented
    for r in roots:
        kty, key = r["self"], r["key"]
        if key not in F.insts:
            continue
        try:
            kt = KType(F, kty)
            kt.K = kmer_k(F, kt)
        except Exception:
            continue
        K = kt.K
        okey = "%s/Hash" % kty

        def f(kt=kt, K=K, key=key, okey=okey, kty=kty):
            h = H()
            run_inst(F, key, [Ref(Cell(kt.sym("s"), "self")), Ref(Cell(Opaque("std::hash::DefaultHasher", {"hasher"}), "state"))], h)
            rep.evaluations += 1
            bits = [b for word in h.fed for b in word]
            if h.bad or not bits or any(b is TOP for b in bits):
                rep.inconclusive(rule, okey, "Hash::hash: %s" % (h.bad[0] if h.bad else "the data fed to the hasher could not be read"))
                return
            used = set()
            S_ = in_bits("s", 2 * K, kt.W)
            for j in range(K):
                hi, lo = kt.lane_bits(j)
                for t in (S_[hi], S_[lo]):
                    used |= set(next(iter(t))) if t not in (ZERO, ONE) else set()
            sys_ = gf2.System()
            for b in bits:
                e = gf2.term_eq(b)
                if e is None:
                    rep.inconclusive(rule, okey, "Hash::hash feeds a non-linear function of the k-mer's bits to the hasher; injectivity not decided")
                    return
                if e[0] - used:
                    rep.violated(rule, okey, "Hash::hash of %s feeds the hasher a bit that depends on storage outside the %d used lanes" % (kty, K))
                    return
                if e[0]:
                    sys_.add((e[0], 0))
            rank = len(sys_.rows)
            if rank == len(used):
                rep.holds(rule, okey, "the %d bits fed to the hasher determine all %d used bits of the k-mer (rank %d over GF(2)): equal hash input ⇔ same string" % (
                    len(bits), len(used), rank))
                return
            # a non-zero kernel vector: a difference d such that k and k^d feed the same data
            free = sorted(used - set(sys_.rows))
            d = sys_.solution({free[0]: 1})
            d[free[0]] = 1

            def letters(sol):
                out_ = ""
                for j in range(K):
                    hi, lo = kt.lane_bits(j)
                    g = lambda t: sol.get(next(iter(next(iter(t)))), 0) if t not in (ZERO, ONE) else 0
                    out_ += "ACGT"[g(S_[lo]) | (g(S_[hi]) << 1)]
                return out_
            rep.violated(rule, okey, "Hash::hash of %s feeds the hasher %d bits of rank %d for %d bits of k-mer: different k-mers give every hasher the same "
                         "input whatever the seed — e.g. %s and %s — so hash-equal no longer means same string and a perfect hash over such k-mers cannot be built" % (
                             kty, len(bits), rank, len(used), "A" * K, letters(d)), witness={"kind": "hash-kernel", "a": "A" * K, "b": letters(d)})
        guarded(rep, rule, okey, "hash", f)
