"""Models of library primitives for the abstract interpreter (by resolved callee path)."""
from . import bv
from .bv import Int, mkbool
from .absint import (Adt, Arr, Cell, Closure, Diverge, FnItem, Opaque, Ref, Tup, Undecided,
                     Unsupported, VecV, UNINIT, tags_of, with_tags)

OPTION = "std::option::Option"


def some(v):
    return Adt(OPTION, 1, [v])


def none():
    return Adt(OPTION, 0, [])


def _strip(path):
    # "std::" and "core::" / "alloc::" name the same items
    for a, b in (("std::", "core::"), ("alloc::", "core::")):
        if path.startswith(a):
            return b + path[len(a):]
    return path


def size_of(it, tystr):
    t = it.tinfo(tystr)
    k = t.get("k")
    if k in ("uint", "int", "float"):
        return t["w"] // 8
    if k == "bool":
        return 1
    if k == "char":
        return 4
    if k in ("ref", "ptr", "fnptr"):
        return 8
    if k == "tuple":
        return None if t["ts"] else 0
    if k == "array" and t.get("len") is not None:
        s = size_of(it, t["t"])
        return None if s is None else s * t["len"]
    return None


def deref_val(it, r):
    if isinstance(r, Ref):
        return it.read(r.cell, r.path)
    return r


def seq_of(it, r):
    """(container value, off, len) behind a slice/vec reference"""
    if not isinstance(r, Ref):
        return None
    v = it.read(r.cell, r.path)
    if isinstance(v, (Arr, VecV)):
        n = (len(v.elems) - r.off) if r.len is None else r.len
        return v, r.off, n
    return None


def apply(it, fn, args, dest_ty, term, caller, depth):
    path = _strip(fn.get("path", ""))
    rpath = _strip(fn.get("rpath") or fn.get("path", ""))
    targs = fn.get("targs") or []
    name = path.split("::")[-1]

    # ---- AVX2 intrinsics (E4)
    if "arch::x86" in path or "core_arch::x86" in path:
        from . import avx
        r = avx.apply(it, fn, args)
        if r is not NotImplemented:
            return r
    # ---- sizes
    if path in ("core::mem::size_of", "core::intrinsics::size_of"):
        s = size_of(it, targs[0]) if targs else None
        if s is None:
            if it.h is not None:
                r = it.h.size_of(it, targs[0] if targs else None)
                if r is not None:
                    return Int(64, False, val=r)
            if it.mono and it.find_body(fn) is not None:
                return NotImplemented        # the monomorphic instance carries the compiler's own layout constant
            return it.abstract_of("usize", {"size_of"})
        return Int(64, False, val=s)

    # ---- num_traits on primitive ints
    if fn.get("trait", "").startswith("num_traits::") or path.startswith("num_traits::"):
        tr = fn.get("trait", "")
        self_ty = targs[0] if targs else None
        iti = it.int_of_ty(self_ty) if self_ty else None
        if iti is not None:
            w, signed, _ = iti
            if name == "zero":
                return Int(w, signed, val=0)
            if name == "one":
                return Int(w, signed, val=1)
            if name == "count_ones":
                return popcount(it, args[0])
            if name in ("max_value",):
                return Int(w, signed, val=(1 << w) - 1)
            if name in ("min_value",):
                return Int(w, signed, val=0)
            if name.startswith("from_") and tr.endswith("FromPrimitive"):
                return checked_conv(it, args[0], w, signed)
            if name == "from" and tr.endswith("NumCast") and len(args) == 1 and isinstance(args[0], Int):
                return checked_conv(it, args[0], w, signed)
            if name.startswith("to_") and tr.endswith("ToPrimitive"):
                tgt = {"to_u8": 8, "to_u16": 16, "to_u32": 32, "to_u64": 64, "to_u128": 128, "to_usize": 64}.get(name)
                if tgt:
                    return checked_conv(it, deref_val(it, args[0]), tgt, False)
            if name in ("leading_zeros", "trailing_zeros") and isinstance(args[0], Int) and args[0].is_conc():
                v = args[0].val
                if name == "leading_zeros":
                    return Int(32, False, val=w - v.bit_length())
                return Int(32, False, val=(v & -v).bit_length() - 1 if v else w)
    # ---- intrinsics / inherent int methods
    if path.startswith("core::num::<impl ") and name == "pow" and len(args) == 2 and all(isinstance(a, Int) and a.is_conc() for a in args):
        return args[0].like(val=pow(args[0].val, args[1].val))
    if (path in ("core::intrinsics::rotate_left", "core::intrinsics::rotate_right") or (path.startswith("core::num::<impl ") and name in ("rotate_left", "rotate_right"))) \
            and len(args) == 2 and isinstance(args[0], Int) and isinstance(args[1], Int) and args[1].is_conc():
        a = args[0]
        n = args[1].val % a.w
        bits = list(a.getbits())
        if name == "rotate_right":
            n = (a.w - n) % a.w
        rot = bits[a.w - n:] + bits[:a.w - n] if n else bits
        return Int(a.w, a.signed, bits=rot, kind=a.kind)
    if (path in ("core::intrinsics::bswap",) or (path.startswith("core::num::<impl ") and name == "swap_bytes")) and len(args) == 1 and isinstance(args[0], Int):
        a = args[0]
        bits = list(a.getbits())
        nb = a.w // 8
        out = []
        for k in range(nb):
            out.extend(bits[8 * (nb - 1 - k): 8 * (nb - 1 - k) + 8])
        return Int(a.w, a.signed, bits=out, kind=a.kind)
    if (path in ("core::intrinsics::bitreverse",) or (path.startswith("core::num::<impl ") and name == "reverse_bits")) and len(args) == 1 and isinstance(args[0], Int):
        a = args[0]
        return Int(a.w, a.signed, bits=list(reversed(a.getbits())), kind=a.kind)
    if path.startswith("core::num::<impl ") and name == "count_ones" and len(args) == 1:
        return popcount(it, args[0])
    if path.startswith("core::num::<impl ") and name in ("checked_sub", "checked_add") and len(args) == 2 and isinstance(args[0], Int) and isinstance(args[1], Int) and it.find_body(fn) is None:
        a, b = args
        if name == "checked_sub":
            lt = it.binop("Lt", a, b, "bool")
            if not (isinstance(lt, Int) and lt.is_conc()):
                raise Undecided("checked_sub(%r, %r)" % (a, b))
            return none() if lt.val else some(bv.binop("Sub", a, b))
        r = bv.binop("Add", a, b)
        if a.is_conc() and b.is_conc():
            return none() if a.val + b.val >= (1 << a.w) else some(r)
        return some(r)
    # ---- RangeInclusive<int>: (start, end, exhausted)
    if path.startswith("core::ops::RangeInclusive") or path.startswith("std::ops::RangeInclusive") or path.startswith("core::ops::range::RangeInclusive"):
        RI = "std::ops::RangeInclusive"
        if name == "new" and len(args) == 2:
            return Adt(RI, 0, [args[0], args[1], mkbool(False)])
        if name in ("start", "end") and len(args) == 1 and isinstance(args[0], Ref):
            return Ref(args[0].cell, tuple(args[0].path) + (("f", 0 if name == "start" else 1),))
        if name == "into_inner" and len(args) == 1 and isinstance(args[0], Adt):
            return Tup([args[0].fields[0], args[0].fields[1]])
    if name in ("contains", "is_empty", "into_iter") and args and isinstance(deref_val(it, args[0]), Adt) and deref_val(it, args[0]).name.endswith("ops::RangeInclusive"):
        rg = deref_val(it, args[0])
        s_, e_ = rg.fields[0], rg.fields[1]
        if name == "contains" and len(args) == 2:
            x = deref_val(it, args[1])
            lo = it.binop("Ge", x, s_, "bool")
            if isinstance(lo, Int) and lo.is_conc() and not lo.val:
                return mkbool(False)
            hi = it.binop("Le", x, e_, "bool")
            if isinstance(lo, Int) and lo.is_conc() and isinstance(hi, Int) and hi.is_conc():
                return mkbool(bool(lo.val and hi.val))
            raise Undecided("RangeInclusive::contains(%r)" % (x,))
        if name == "is_empty":
            gt = it.binop("Gt", s_, e_, "bool")
            if isinstance(gt, Int) and gt.is_conc():
                return gt
            raise Undecided("RangeInclusive::is_empty")
        if name == "into_iter" and isinstance(e_, Int):
            if e_.is_conc() and e_.val == (1 << e_.w) - 1:
                raise Unsupported("iteration of a RangeInclusive ending at the maximum value")
            return Adt("std::ops::Range", 0, [s_, bv.binop("Add", e_, e_.like(val=1))])
    if name == "contains" and len(args) == 2 and isinstance(deref_val(it, args[0]), Adt) and deref_val(it, args[0]).name.endswith("ops::Range"):
        rg = deref_val(it, args[0])
        x = deref_val(it, args[1])
        lo = it.binop("Ge", x, rg.fields[0], "bool")
        if isinstance(lo, Int) and lo.is_conc() and not lo.val:
            return mkbool(False)
        hi = it.binop("Lt", x, rg.fields[1], "bool")
        if isinstance(lo, Int) and lo.is_conc() and isinstance(hi, Int) and hi.is_conc():
            return mkbool(bool(lo.val and hi.val))
        raise Undecided("Range::contains(%r)" % (x,))
    if path in ("core::intrinsics::ctpop",):
        return popcount(it, args[0])
    if path == "core::intrinsics::saturating_sub" or rpath.endswith("::saturating_sub") and isinstance(args[0], Int):
        a, b = args
        if a.is_conc() and b.is_conc():
            return a.like(val=max(0, a.val - b.val)) if not a.signed else Unsupported
        lt = bv.compare("Lt", a, b)
        if lt is None and it.h is not None:
            lt = it.h.unknown_compare(it, "Lt", a, b)
        if lt is True:
            return a.like(val=0)
        if lt is False:
            return bv.binop("Sub", a, b)
        return bv.top_int(a.w, a.signed)
    if path == "core::intrinsics::saturating_add" or (rpath.endswith("::saturating_add") and isinstance(args[0], Int)):
        a, b = args
        if a.is_conc() and b.is_conc():
            return a.like(val=min((1 << a.w) - 1, a.val + b.val))
        return bv.top_int(a.w, a.signed)
    if path in ("core::hint::must_use", "core::hint::black_box", "core::convert::identity") and len(args) == 1:
        return args[0]
    if path in ("core::intrinsics::cold_path", "core::intrinsics::assume", "core::hint::assert_unchecked",
                "core::intrinsics::assert_inhabited", "core::intrinsics::ub_checks"):
        return Tup([]) if path != "core::intrinsics::ub_checks" else mkbool(False)
    if path == "core::intrinsics::unlikely" or path == "core::intrinsics::likely":
        return args[0]
    if path in ("core::intrinsics::wrapping_add", "core::intrinsics::unchecked_add"):
        return bv.binop("Add", args[0], args[1])
    if path in ("core::intrinsics::wrapping_sub", "core::intrinsics::unchecked_sub"):
        return bv.binop("Sub", args[0], args[1])
    if path == "core::intrinsics::three_way_compare":
        return it.binop("Cmp", args[0], args[1], dest_ty)

    # ---- comparisons of field-less enum values, Ord on integers (generic mode has no core bodies)
    if name in ("eq", "ne") and fn.get("trait", "").endswith("PartialEq") and len(args) == 2:
        a, b = deref_val(it, args[0]), deref_val(it, args[1])
        for _lvl in range(3):           # `&&u64 == &&u64`: references compare by value
            if isinstance(a, Ref) and isinstance(b, Ref) and a.len is None and b.len is None and \
                    not isinstance(it.read(a.cell, a.path), (Arr, VecV)) and not isinstance(it.read(b.cell, b.path), (Arr, VecV)):
                a, b = it.read(a.cell, a.path), it.read(b.cell, b.path)
        if isinstance(a, Adt) and isinstance(b, Adt) and not a.fields and not b.fields and a.variant is not None and b.variant is not None and a.name == b.name:
            return mkbool((a.variant == b.variant) == (name == "eq"))
        if isinstance(a, Int) and isinstance(b, Int):
            return it.binop("Eq" if name == "eq" else "Ne", a, b, dest_ty)
    if name == "ne" and fn.get("trait", "").endswith("PartialEq") and len(args) == 2 and it.find_body(fn) is None:
        a, b = deref_val(it, args[0]), deref_val(it, args[1])
        if isinstance(a, Adt) and isinstance(b, Adt) and a.name == b.name:
            ub = None
            for bdy in (it.facts.insts.values() if it.mono else it.facts.fns.values()):
                if bdy["path"].endswith("::eq") and (bdy.get("impl_trait", "") or bdy["path"]).find("PartialEq") >= 0 and bdy.get("impl_self", "").split("<")[0] == a.name:
                    ub = bdy
                    break
            if ub is not None:
                r = it.call_body(ub, [Ref(Cell(a, "a")), Ref(Cell(b, "b"))], depth + 1)
                if isinstance(r, Int):
                    return mkbool(not r.val) if r.is_conc() else Int(r.w, r.signed, bits=[bv.t_not(r.getbits()[0])] + list(r.getbits()[1:]), kind=r.kind)
    if name in ("cmp", "partial_cmp", "lt", "le", "gt", "ge") and fn.get("trait", "").split("::")[-1] in ("Ord", "PartialOrd") and len(args) == 2 \
            and it.find_body(fn) is None:
        a, b = deref_val(it, args[0]), deref_val(it, args[1])
        if isinstance(a, Int) and isinstance(b, Int):
            if name == "cmp":
                return it.binop("Cmp", a, b, dest_ty)
            if name == "partial_cmp":
                return some(it.binop("Cmp", a, b, dest_ty))
            return it.binop({"lt": "Lt", "le": "Le", "gt": "Gt", "ge": "Ge"}[name], a, b, dest_ty)
    if name in ("lt", "le", "gt", "ge") and fn.get("trait", "").endswith("PartialOrd") and len(args) == 2 and it.find_body(fn) is None:
        a, b = deref_val(it, args[0]), deref_val(it, args[1])
        if isinstance(a, Adt) and isinstance(b, Adt):
            # trait default on a user type: derived from its own partial_cmp
            st = a.name
            ub = None
            for bdy in it.facts.fns.values():
                if bdy["path"].endswith("::partial_cmp") and bdy.get("impl_trait", "").endswith("PartialOrd") and bdy.get("impl_self", "").split("<")[0] == st:
                    ub = bdy
            if ub is not None:
                o = it.call_body(ub, [Ref(Cell(a, "a")), Ref(Cell(b, "b"))], depth + 1)
                if isinstance(o, Adt) and o.name.endswith("Option") and o.variant == 1 and isinstance(o.fields[0], Adt) and o.fields[0].variant is not None:
                    v = o.fields[0].variant
                    return mkbool({"lt": v == 0, "le": v in (0, 1), "gt": v == 2, "ge": v in (1, 2)}[name])
                if isinstance(o, Adt) and o.name.endswith("Option") and o.variant == 0:
                    return mkbool(False)
    if path in ("core::cmp::min", "core::cmp::max", "core::cmp::Ord::min", "core::cmp::Ord::max") and len(args) == 2:
        a, b = args
        if isinstance(a, Int) and isinstance(b, Int):
            o = it.binop("Cmp", a, b, dest_ty)
            gt = o.variant == 2
        else:
            # user type: use its own Ord::cmp
            ub = None
            st = (fn.get("targs") or [""])[0].split("<")[0]
            for bdy in it.facts.fns.values():
                if bdy["path"].endswith("::cmp") and bdy.get("impl_trait", "").endswith("cmp::Ord") and bdy.get("impl_self", "").split("<")[0] == st:
                    ub = bdy
            if ub is None:
                return NotImplemented
            o = it.call_body(ub, [Ref(Cell(a, "a")), Ref(Cell(b, "b"))], depth + 1)
            if not (isinstance(o, Adt) and o.variant is not None):
                raise Undecided("ordering %r" % (o,))
            gt = o.variant == 2
        if name == "min":
            return b if gt else a
        return a if gt else b
    # ---- clone / borrow / identity conversions
    if name == "clone" and (fn.get("trait", "").endswith("clone::Clone")):
        v = deref_val(it, args[0])
        if isinstance(v, (Int, Adt, Tup, Opaque, Arr, VecV, Closure, FnItem)):
            # only take the shortcut for values without a user Clone impl in this crate
            if not (fn.get("rpath", "").startswith(("dna_string", "graph", "compression", "kmer", "vmer", "filter", "msp"))
                    and fn.get("rkind") == "item" and it.find_body(fn) is not None and not _is_derived(it, fn)):
                return v
    if name in ("borrow", "as_ref", "deref", "borrow_mut", "deref_mut", "as_mut") and len(args) == 1 and \
            fn.get("trait", "").split("::")[-1] in ("Borrow", "AsRef", "Deref", "BorrowMut", "DerefMut", "AsMut"):
        a = args[0]
        if isinstance(a, Ref):
            v = it.read(a.cell, a.path)
            if isinstance(v, Ref):
                return v   # &&T -> &T
            return a       # &Vec<T> -> &[T] (same backing), &T -> &T
        return a
    if name in ("into", "from") and len(args) == 1 and fn.get("trait", "").split("::")[-1] in ("Into", "From"):
        a = args[0]
        it_d = it.int_of_ty(dest_ty)
        if isinstance(a, Int) and it_d:
            return bv.cast(a, it_d[0], it_d[1], it_d[2])
        if len(targs) >= 2 and targs[0] == targs[1]:
            return a
        if len(targs) == 1:
            return a
    if name == "into_iter" and fn.get("trait", "").endswith("IntoIterator") and len(args) == 1:
        a = args[0]
        if isinstance(a, Adt) and a.name in ("core::ops::Range", "core::ops::range::Range", "std::ops::Range", "std::ops::RangeFrom", "core::ops::RangeFrom"):
            return a
        if isinstance(a, Ref) and isinstance(it.read(a.cell, a.path), IterV):
            return a        # IntoIterator for &mut I where I: Iterator — the same iterator, advanced in place
        if isinstance(a, Opaque) and it.h is not None:
            r = it.h.into_iter(it, a, dest_ty)
            if r is not None:
                return r

    # ---- Option / Result combinators (generic bodies of core are not exported in DT mode)
    if path.startswith("core::option::Option") and args:
        r = option_model(it, name, fn, args, dest_ty, term, caller, depth)
        if r is not NotImplemented:
            return r

    if path.startswith("core::result::Result") and args:
        o = args[0]
        ov = it.read(o.cell, o.path) if isinstance(o, Ref) else o
        if isinstance(ov, Adt) and ov.name.endswith("result::Result") and ov.variant is not None:
            ok = ov.variant == 0
            if name == "is_ok":
                return mkbool(ok)
            if name == "is_err":
                return mkbool(not ok)
            if name in ("unwrap", "expect"):
                if ok:
                    return ov.fields[0]
                raise Diverge("%s on Err" % name)
            if name == "ok":
                return some(ov.fields[0]) if ok else none()
    # ---- SmallVec (modelled like Vec)
    if path.startswith("smallvec::SmallVec"):
        r = vec_model(it, name, fn, args, dest_ty)
        if r is not NotImplemented:
            return r
        if name in ("deref", "deref_mut", "as_slice", "borrow") and args and isinstance(args[0], Ref):
            return args[0]

    # ---- abstract iterators / VecDeque
    if "VecDeque" in path or "vec_deque" in path:
        r = deque_model(it, name, fn, args, dest_ty)
        if r is not NotImplemented:
            return r
    r = iter_model(it, fn, name, args, dest_ty, term, caller, depth)
    if r is not NotImplemented:
        return r

    # ---- Range<int> iteration
    if name == "next" and len(args) == 1 and isinstance(args[0], Ref):
        v = it.read(args[0].cell, args[0].path)
        if isinstance(v, Adt) and v.name.endswith("ops::RangeFrom") and isinstance(v.fields[0], Int):
            s0 = v.fields[0]
            it.write(args[0].cell, args[0].path, Adt(v.name, 0, [bv.binop("Add", s0, s0.like(val=1))]))
            return some(s0)
        if isinstance(v, Adt) and v.name.endswith("ops::Range") or (isinstance(v, Adt) and v.name.endswith("range::Range")):
            s, e = v.fields
            if isinstance(s, Int) and isinstance(e, Int):
                lt = bv.compare("Lt", s, e)
                if lt is None and it.h is not None:
                    lt = it.h.unknown_compare(it, "Lt", s, e)
                if lt is None:
                    raise Undecided("range bound %r < %r" % (s, e))
                if lt:
                    one = s.like(val=1)
                    it.write(args[0].cell, args[0].path, Adt(v.name, 0, [bv.binop("Add", s, one), e]))
                    return some(s)
                return none()

    # ---- Vec / slices
    if (path.startswith("core::vec::Vec::<") or path.startswith("core::vec::Vec<") or rpath.startswith("core::vec::Vec")) and \
            name in ("dedup_by", "dedup_by_key", "retain", "retain_mut") and len(args) == 2 and isinstance(args[0], Ref):
        v = it.read(args[0].cell, args[0].path)
        if isinstance(v, VecV):
            def truth(x, what):
                if isinstance(x, Int) and x.is_conc():
                    return bool(x.val)
                raise Undecided("%s predicate of Vec::%s yields %r" % (what, name, x))
            out = []
            for e in v.elems:
                if name in ("retain", "retain_mut"):
                    if truth(call_callable(it, args[1], [Ref(Cell(e, "retain-item"))], term, caller, depth), "retain"):
                        out.append(e)
                    continue
                if not out:
                    out.append(e)
                    continue
                if name == "dedup_by":
                    same = truth(call_callable(it, args[1], [Ref(Cell(e, "dedup-next")), Ref(Cell(out[-1], "dedup-prev"))], term, caller, depth), "same-bucket")
                else:
                    ka = call_callable(it, args[1], [Ref(Cell(e, "dedup-next"))], term, caller, depth)
                    kb = call_callable(it, args[1], [Ref(Cell(out[-1], "dedup-prev"))], term, caller, depth)
                    same = truth(it.binop("Eq", ka, kb, "bool"), "key equality")
                if not same:
                    out.append(e)
            it.write(args[0].cell, args[0].path, VecV(out))
            return Tup([])
    if path.startswith("core::vec::Vec::<") or path.startswith("core::vec::Vec<") or rpath.startswith("core::vec::Vec"):
        r = vec_model(it, name, fn, args, dest_ty)
        if r is not NotImplemented:
            return r
    if name == "extend" and fn.get("trait", "").endswith("Extend") and len(args) == 2 and isinstance(args[0], Ref):
        tgt = it.read(args[0].cell, args[0].path)
        r = deque_model(it, name, fn, args, dest_ty) if isinstance(tgt, DequeV) else vec_model(it, name, fn, args, dest_ty)
        if r is not NotImplemented:
            return r
    if name == "default" and fn.get("trait", "").endswith("Default") and not args:
        if dest_ty.startswith("std::vec::Vec<") or dest_ty.startswith("std::string::String"):
            return VecV([])
        if dest_ty.startswith("std::collections::VecDeque<"):
            return DequeV([])
    if path == "core::vec::from_elem":
        n = args[1]
        if isinstance(n, Int) and n.is_conc():
            if n.val > 4096:
                raise Unsupported("from_elem too long")
            return VecV([args[0]] * n.val)
        raise Undecided("vec![x; n] with symbolic n %r" % (n,))
    if name in ("index", "index_mut") and len(args) == 2:
        r = index_model(it, args[0], args[1])
        if r is not NotImplemented:
            return r
    if path.startswith("core::slice::<impl [") or path.startswith("core::slice::"):
        if name in ("last", "first") and len(args) == 1:
            sq = seq_of(it, args[0])
            if sq is not None:
                v, off, n = sq
                if n == 0:
                    return none()
                idx = off + (n - 1 if name == "last" else 0)
                return some(Ref(args[0].cell, args[0].path + (("e", idx),)))
        if name in ("split_at", "split_at_mut") and len(args) == 2 and isinstance(args[1], Int) and args[1].is_conc():
            sq = seq_of(it, args[0])
            if sq is not None:
                v, off, n = sq
                mid = args[1].val
                if mid > n:
                    raise Diverge("split_at(%d) of a slice of length %d" % (mid, n))
                r0 = args[0]
                return Tup([Ref(r0.cell, r0.path, off, mid), Ref(r0.cell, r0.path, off + mid, n - mid)])
        if name in ("sort", "sort_unstable") and len(args) == 1:
            sq = seq_of(it, args[0])
            if sq is not None:
                v, off, n = sq
                el = list(v.elems[off:off + n])
                if all(isinstance(e, Int) and e.is_conc() for e in el):
                    el.sort(key=lambda e: e.sval() if e.signed else e.val)
                    it.write(args[0].cell, args[0].path, type(v)(list(v.elems[:off]) + el + list(v.elems[off + n:])))
                    return Tup([])
        if name == "contains" and len(args) == 2:
            sq = seq_of(it, args[0])
            x = deref_val(it, args[1])
            if sq is not None and isinstance(x, Int) and x.is_conc():
                v, off, n = sq
                el = v.elems[off:off + n]
                if all(isinstance(e, Int) and e.is_conc() for e in el):
                    return mkbool(any(e.val == x.val for e in el))
        if name == "len":
            return it.slice_len(args[0])
        if name == "is_empty":
            n = it.slice_len(args[0])
            if n.is_conc():
                return mkbool(n.val == 0)
        if name in ("as_ptr", "as_mut_ptr"):
            return args[0]
    if path in ("std::ptr::eq", "core::ptr::eq") and len(args) == 2 and isinstance(args[0], Ref) and isinstance(args[1], Ref):
        a, b = args
        return mkbool(a.cell is b.cell and tuple(a.path) == tuple(b.path) and (a.off or 0) == (b.off or 0))
    if (name == "to_vec" and "slice::<impl [" in path and len(args) == 1) or \
            (name == "to_owned" and fn.get("trait", "").endswith("ToOwned") and len(args) == 1 and (fn.get("targs") or [""])[0].startswith("[")):
        sq = seq_of(it, args[0])
        if sq is not None:
            v, off, n = sq
            return VecV(list(v.elems[off:off + n]))
    if path == "core::array::<impl [T; N]>::as_slice" or name in ("as_slice", "as_mut_slice") and isinstance(args[0], Ref):
        b = it.find_body(fn)
        if b is None:
            return args[0]

    # ---- String as a vector of chars
    if path.startswith("core::string::String"):
        if name in ("new", "with_capacity", "default"):
            return VecV([])
        r = vec_model(it, name, fn, args, dest_ty)
        if r is not NotImplemented:
            return r
    # ---- `?` on Result / Option
    if name == "branch" and fn.get("trait", "").endswith("Try") and len(args) == 1 and isinstance(args[0], Adt):
        a = args[0]
        CF = "std::ops::ControlFlow"
        if a.name.endswith("result::Result"):
            if a.variant == 0:
                return Adt(CF, 0, [a.fields[0]])
            return Adt(CF, 1, [Adt(a.name, 1, list(a.fields))])
        if a.name.endswith("option::Option"):
            if a.variant == 1:
                return Adt(CF, 0, [a.fields[0]])
            return Adt(CF, 1, [Adt(a.name, 0, [])])
    if name == "from_residual" and len(args) == 1 and isinstance(args[0], Adt):
        return args[0]
    # ---- ExactSizeIterator::len on a user iterator: its own size_hint
    if name == "len" and fn.get("trait", "").endswith("ExactSizeIterator") and len(args) == 1:
        targs = fn.get("targs") or []
        st = targs[0] if targs else ""
        while st.startswith("&"):
            st = st[1:].lstrip()
            if st.startswith("mut "):
                st = st[4:]
        a0 = args[0]
        while isinstance(a0, Ref) and isinstance(it.read(a0.cell, a0.path), Ref):
            a0 = it.read(a0.cell, a0.path)
        for b in it.facts.fns.values():
            if b["path"].endswith("::size_hint") and st and b.get("impl_self", "").split("<")[0] == st.split("<")[0]:
                r = it.call_body(b, [a0], depth + 1)
                if isinstance(r, Tup):
                    return r.fields[0]
    # ---- formatter sinks succeed
    if path.startswith("core::fmt::Formatter") and name in ("write_fmt", "write_str", "write_char", "pad"):
        if it.h is not None:
            it.h.note_opaque_call(it, fn, args, term, caller)
        return Adt("std::result::Result", 0, [Tup([])])
    # ---- formatting / printing: results are irrelevant to the analysed behaviour
    if path.startswith("core::fmt::") or path.startswith("core::io::_print") or path.startswith("std::io::_print") \
            or path.startswith("core::io::stdio::_print") or path.startswith("log::"):
        if getattr(it.h, "interpret_fmt", False) and name == "fmt" and (fn.get("trait") or "").split("::")[-1] in ("Display", "Debug", "LowerHex", "UpperHex", "Binary") \
                and it.find_body(fn) is not None:
            # one of the crate's own formatting impls called directly (Debug delegating to Display …) while a harness is watching what
            # gets written: interpret it
            return NotImplemented
        return Opaque(dest_ty, {"fmt"})

    # ---- second batch (idioms not used by the pinned tree)
    from . import models2
    import sys
    return models2.apply(it, fn, args, dest_ty, term, caller, depth, sys.modules[__name__])


def _is_derived(it, fn):
    b = it.find_body(fn)
    return bool(b and b.get("derived"))


def popcount(it, a):
    if isinstance(a, Int):
        if a.is_conc():
            return Int(32, False, val=bin(a.val).count("1"))
        return Opaque("u32", a.tags | {"popcount"}, {"pop": bv.popcount_terms(a), "w": a.w})
    return Opaque("u32", tags_of(a) | {"popcount"})


def checked_conv(it, a, w, signed):
    """Some(a as target) when a fits, None when it definitely does not"""
    if not isinstance(a, Int):
        return Opaque("core::option::Option<?>", tags_of(a) | {"conv"})
    if a.is_conc():
        v = a.sval() if a.signed else a.val
        lo, hi = (-(1 << (w - 1)), (1 << (w - 1)) - 1) if signed else (0, (1 << w) - 1)
        if lo <= v <= hi:
            return some(Int(w, signed, val=v))
        return none()
    bits = a.getbits()
    if a.signed:
        raise Unsupported("checked conversion of symbolic signed value")
    high = bits[w - (1 if signed else 0):]
    if all(bv.t_is_const(b) == 0 for b in high):
        r = bv.cast(a, w, signed)
        return some(with_tags(r, a.tags))
    if any(bv.t_is_const(b) == 1 for b in high):
        return none()
    # "does it fit?" is the comparison (high bits == 0): harnesses that decide such comparisons by a case split (the equal case fixes the
    # variables, the other carries no knowledge) decide it here too
    uc = getattr(it.h, "unknown_compare", None)
    if uc is not None and not signed and all(b is not bv.TOP for b in high):
        r = uc(it, "Eq", Int(len(high), False, bits=list(high)), Int(len(high), False, val=0))
        if r is True:
            return some(with_tags(bv.cast(a, w, signed), a.tags))
        if r is False:
            return none()
    raise Undecided("checked integer conversion of %r to %d bits may or may not fit" % (a, w))


def vec_model(it, name, fn, args, dest_ty):
    if name in ("new", "with_capacity", "default"):
        return VecV([])
    if not args or not isinstance(args[0], Ref):
        return NotImplemented
    r = args[0]
    v = it.read(r.cell, r.path)
    if isinstance(v, Opaque):
        if it.h is not None:
            res = it.h.opaque_vec_op(it, name, v, args, dest_ty)
            if res is not None:
                return res
        return NotImplemented
    if not isinstance(v, VecV):
        return NotImplemented
    if name == "push":
        it.write(r.cell, r.path, VecV(v.elems + (args[1],)))
        return Tup([])
    if name == "extend" and len(args) == 2:
        items = drain_iter(it, args[1])
        if items is not None:
            it.write(r.cell, r.path, VecV(v.elems + tuple(items)))
            return Tup([])
    if name == "len":
        return Int(64, False, val=len(v.elems))
    if name == "is_empty":
        return mkbool(len(v.elems) == 0)
    if name == "clear":
        it.write(r.cell, r.path, VecV([]))
        return Tup([])
    if name == "pop":
        if not v.elems:
            return none()
        it.write(r.cell, r.path, VecV(v.elems[:-1]))
        return some(v.elems[-1])
    if name == "last":
        if not v.elems:
            return none()
        return some(Ref(r.cell, r.path + (("e", len(v.elems) - 1),)))
    if name in ("as_slice", "as_mut_slice", "deref", "deref_mut"):
        return r
    conc = all(isinstance(e, Int) and e.is_conc() for e in v.elems)
    if name in ("sort", "sort_unstable") and len(args) == 1 and conc:
        it.write(r.cell, r.path, VecV(sorted(v.elems, key=lambda e: e.sval() if e.signed else e.val)))
        return Tup([])
    if name == "dedup" and len(args) == 1 and conc:
        out = []
        for e in v.elems:
            if not out or out[-1].val != e.val:
                out.append(e)
        it.write(r.cell, r.path, VecV(out))
        return Tup([])
    if name == "contains" and len(args) == 2 and conc:
        x = deref_val(it, args[1])
        if isinstance(x, Int) and x.is_conc():
            return mkbool(any(e.val == x.val for e in v.elems))
    return NotImplemented


def index_model(it, base, idx):
    """Index::index(&container, idx) for Vec / slice / array with usize or Range index"""
    if not isinstance(base, Ref):
        return NotImplemented
    v = it.read(base.cell, base.path)
    if isinstance(v, Ref):  # &&[T]
        base = v
        v = it.read(base.cell, base.path)
    if isinstance(v, Opaque) and it.h is not None:
        r = it.h.opaque_index(it, v, idx, base)
        if r is not None:
            return r
    if not isinstance(v, (Arr, VecV)):
        return NotImplemented
    n = (len(v.elems) - base.off) if base.len is None else base.len
    if isinstance(idx, Int):
        if not idx.is_conc():
            lk = it.table_lookup(v, idx, base.off) if base.len is None else None
            if lk is not None:
                return Ref(Cell(lk, "table-lookup (read-only)"))
            raise Undecided("symbolic index %r" % (idx,))
        if idx.val >= n:
            raise Diverge("index %d out of range %d" % (idx.val, n))
        return Ref(base.cell, base.path + (("e", base.off + idx.val),))
    if isinstance(idx, Adt) and idx.name.split("::")[-1] in ("Range", "RangeFrom", "RangeTo", "RangeFull", "RangeInclusive"):
        nm = idx.name.split("::")[-1]
        if nm == "Range":
            s, e = idx.fields
        elif nm == "RangeFrom":
            s, e = idx.fields[0], Int(64, False, val=n)
        elif nm == "RangeTo":
            s, e = Int(64, False, val=0), idx.fields[0]
        elif nm == "RangeFull":
            s, e = Int(64, False, val=0), Int(64, False, val=n)
        elif nm == "RangeInclusive" and len(idx.fields) == 3 and isinstance(idx.fields[1], Int) and idx.fields[1].is_conc():
            s, e = idx.fields[0], Int(64, False, val=idx.fields[1].val + 1)
        else:
            return NotImplemented
        if not (s.is_conc() and e.is_conc()):
            raise Undecided("symbolic slice range")
        if s.val > e.val or e.val > n:
            raise Diverge("slice range %d..%d out of range %d" % (s.val, e.val, n))
        return Ref(base.cell, base.path, base.off + s.val, e.val - s.val)
    return NotImplemented


def option_model(it, name, fn, args, dest_ty, term, caller, depth):
    o = args[0]
    byref = False
    if isinstance(o, Ref):
        byref = True
        ov = it.read(o.cell, o.path)
    else:
        ov = o
    if not (isinstance(ov, Adt) and ov.name.endswith("option::Option")):
        return NotImplemented
    is_some = ov.variant == 1
    if name in ("expect", "unwrap", "unwrap_unchecked"):
        if is_some:
            return ov.fields[0]
        raise Diverge("%s on None at %s" % (name, it.facts.site(caller, term.get("ln"))))
    if name == "is_some":
        return mkbool(is_some)
    if name == "is_none":
        return mkbool(not is_some)
    if name == "unwrap_or":
        return ov.fields[0] if is_some else args[1]
    if name in ("as_ref", "as_mut") and byref:
        if is_some:
            return some(Ref(o.cell, o.path + (("f", 0),)))
        return none()
    if name in ("cloned", "copied"):
        if is_some:
            return some(deref_val(it, ov.fields[0]))
        return none()
    if name == "map":
        if not is_some:
            return none()
        r = call_callable(it, args[1], [ov.fields[0]], term, caller, depth)
        return some(r)
    if name in ("unwrap_or_else",):
        if is_some:
            return ov.fields[0]
        return call_callable(it, args[1], [], term, caller, depth)
    if name == "map_or":
        if is_some:
            return call_callable(it, args[2], [ov.fields[0]], term, caller, depth)
        return args[1]
    if name == "map_or_else":
        if is_some:
            return call_callable(it, args[2], [ov.fields[0]], term, caller, depth)
        return call_callable(it, args[1], [], term, caller, depth)
    if name == "and_then":
        if is_some:
            return call_callable(it, args[1], [ov.fields[0]], term, caller, depth)
        return none()
    if name == "filter":
        if not is_some:
            return none()
        r = call_callable(it, args[1], [Ref(Cell(ov.fields[0], "opt-inner"))], term, caller, depth)
        if isinstance(r, Int) and r.is_conc():
            return ov if r.val else none()
        raise Undecided("Option::filter predicate %r" % (r,))
    if name in ("is_some_and", "is_none_or"):
        if not is_some:
            return mkbool(name == "is_none_or")
        return call_callable(it, args[1], [ov.fields[0]], term, caller, depth)
    if name in ("or", "or_else"):
        if is_some:
            return ov
        return args[1] if name == "or" else call_callable(it, args[1], [], term, caller, depth)
    if name in ("ok_or", "ok_or_else"):
        if is_some:
            return Adt("std::result::Result", 0, [ov.fields[0]])
        return Adt("std::result::Result", 1, [args[1] if name == "ok_or" else call_callable(it, args[1], [], term, caller, depth)])
    if name == "take" and byref:
        it.write(o.cell, o.path, none())
        return ov
    return NotImplemented


def call_callable(it, f, argvals, term, caller, depth):
    """call a closure / fn item value with the given argument values"""
    fv = deref_val(it, f)
    if isinstance(fv, Closure):
        body = it.facts.fns.get(fv.path) if not it.mono else None
        if body is None and fv.ckey:
            body = it.facts.insts.get(fv.ckey)
        if body is None and it.mono:
            cands = [b for b in it.facts.insts.values() if b["path"] == fv.path]
            if len(cands) == 1:
                body = cands[0]
            elif cands:
                raise Unsupported("closure %s has several monomorphic instances and the value does not say which" % fv.path)
            else:
                raise Unsupported("no monomorphic body for closure %s" % fv.path)
        if body is None:
            raise Unsupported("closure body %s not found" % fv.path)
        env = f if isinstance(f, Ref) else Ref(Cell(fv, "closure-env"))
        a1 = it.tinfo(body["locals"][1]).get("k") if body["argc"] >= 1 else None
        recv = env if a1 == "ref" else fv
        return it.call_body(body, [recv] + list(argvals), depth + 1)
    if isinstance(fv, FnItem):
        return it.do_call(fv, list(argvals), "?", term, caller, depth)
    if it.h is not None:
        r = it.h.indirect_call(it, fv, argvals, "?", term, caller)
        if r is not None:
            return r
    return Opaque("?", tags_of(fv) | {"indirect-call"})


# --------------------------------------------------------------------------- abstract iterators

class IterV:
    """abstract iterator value (immutable; `next` writes the advanced iterator back through the &mut reference)"""
    __slots__ = ("kind", "a", "tags")

    def __init__(self, kind, a, tags=frozenset()):
        self.kind = kind
        self.a = a          # kind-specific tuple
        self.tags = tags

    def __repr__(self):
        return "iter<%s %r>" % (self.kind, self.a if self.kind != "slice" else self.a[1:])


ITER_ADAPTERS = ("map", "enumerate", "take", "skip", "rev", "cloned", "copied", "peekable", "step_by", "zip", "chain", "filter_map", "filter", "flat_map", "flatten")


def seq_len(it, ref):
    s = seq_of(it, ref)
    if s is None:
        return None
    return s[2]


def iter_model(it, fn, name, args, dest_ty, term, caller, depth):
    """creation of iterators and Iterator::next on them.  returns NotImplemented when not an abstract iterator"""
    path = _strip(fn.get("path", ""))
    tr = fn.get("trait", "")
    # ---- creation from slices / vecs / deques
    if name in ("iter", "iter_mut") and len(args) == 1 and isinstance(args[0], Ref):
        s = seq_of(it, args[0])
        if s is not None:
            v, off, n = s
            return IterV("slice", (args[0], 0, n))
        dq = it.read(args[0].cell, args[0].path)
        if isinstance(dq, DequeV):
            return IterV("deque", (args[0], 0, len(dq.elems)))
    if name == "chars" and len(args) == 1 and isinstance(args[0], Ref) and path.startswith("core::str"):
        s_ = seq_of(it, args[0])
        if s_ is not None:
            return IterV("chars", (args[0], 0, s_[2]))
    if name == "chunks" and len(args) == 2 and isinstance(args[0], Ref) and isinstance(args[1], Int) and args[1].is_conc():
        s = seq_of(it, args[0])
        if s is not None:
            return IterV("chunks", (args[0], 0, s[2], args[1].val))
    if name == "into_iter" and len(args) == 1:
        a = args[0]
        if isinstance(a, IterV):
            return a
        if isinstance(a, Adt) and a.name.endswith("option::Option") and a.variant is not None:
            items = list(a.fields) if a.variant == 1 else []
            return IterV("owned", (Ref(Cell(VecV(items), "opt-iter")), 0, len(items)))
        if "IntoIterator for I" in (fn.get("rpath") or "") or "IntoIterator for I" in (fn.get("rkey") or ""):
            return a   # the blanket impl for iterators is the identity
        if isinstance(a, Adt) and not a.name.endswith("ops::Range") and user_next_body(it, fn) is not None:
            return a   # a user-defined iterator struct: IntoIterator is the blanket identity impl
        if isinstance(a, Ref):
            v = it.read(a.cell, a.path)
            if isinstance(v, (Arr, VecV)):
                n = (len(v.elems) - a.off) if a.len is None else a.len
                return IterV("slice", (a, 0, n))
            if isinstance(v, DequeV):
                return IterV("deque", (a, 0, len(v.elems)))
        if isinstance(a, (VecV, Arr)):
            cell = Cell(a, "into_iter-owned")
            return IterV("owned", (Ref(cell), 0, len(a.elems)))
    # ---- `by_ref()` / adapters applied to `&mut UserIterator`: the iterator behind the reference, advanced in place
    if (tr.endswith("iter::Iterator") or tr.endswith("iterator::Iterator")) and args and isinstance(args[0], Ref) and name != "next":
        tgt = it.read(args[0].cell, args[0].path)
        if isinstance(tgt, Adt) and not tgt.name.endswith("ops::Range") and not tgt.name.endswith("ops::RangeFrom"):
            nb = user_next_body(it, fn)
            tg = (fn.get("targs") or [""])[0]
            if nb is None and tg.startswith("&mut "):
                fn2 = dict(fn)
                fn2["targs"] = [tg[5:]] + list((fn.get("targs") or [])[1:])
                nb = user_next_body(it, fn2)
            if nb is not None and not args[0].path:
                if name == "by_ref":
                    return args[0]
                if name in ITER_ADAPTERS + ("collect", "count", "for_each", "fold", "last", "sum"):
                    args = [IterV("user", (args[0].cell, nb))] + list(args[1:])
    # ---- user-defined iterator structs: wrap them so that adapters / collect drive their own `next`
    if (tr.endswith("iter::Iterator") or tr.endswith("iterator::Iterator")) and args and isinstance(args[0], Adt) \
            and not args[0].name.endswith("ops::Range") and name in ITER_ADAPTERS + ("collect", "count") and name != "next":
        nb = user_next_body(it, fn)
        if nb is not None:
            args = [IterV("user", (Cell(args[0], "user-iter"), nb))] + list(args[1:])
    # ---- adapters
    if tr.endswith("iter::Iterator") or tr.endswith("iterator::Iterator") or tr.endswith("DoubleEndedIterator"):
        if name in ITER_ADAPTERS and args and isinstance(args[0], (IterV, Adt)):
            inner = args[0]
            if isinstance(inner, Adt) and not inner.name.endswith(("ops::Range", "ops::RangeInclusive", "ops::RangeFrom")):
                return NotImplemented
            if name == "map":
                return IterV("map", (inner, args[1]))
            if name == "enumerate":
                return IterV("enumerate", (inner, 0))
            if name in ("take", "skip", "step_by"):
                n = args[1]
                if not (isinstance(n, Int) and n.is_conc()):
                    raise Undecided("%s with symbolic count %r" % (name, n))
                return IterV(name, (inner, n.val) if name != "step_by" else (inner, n.val, True))
            if name == "rev":
                return IterV("rev", (inner,))
            if name in ("cloned", "copied"):
                return IterV("cloned", (inner,))
            if name == "peekable":
                return IterV("peekable", (inner, None))
            if name == "flatten":
                return IterV("flat_map", (inner, None, None))
            if name in ("filter", "filter_map", "flat_map"):
                return IterV(name, (inner, args[1]) if name != "flat_map" else (inner, args[1], None))
            if name == "zip":
                other = args[1]
                if isinstance(other, Ref):
                    sq = seq_of(it, other)
                    if sq is None:
                        return NotImplemented
                    other = IterV("slice", (other, 0, sq[2]))
                elif isinstance(other, (VecV, Arr)):
                    other = IterV("owned", (Ref(Cell(other, "zip-owned")), 0, len(other.elems)))
                if isinstance(other, Adt) and not other.name.endswith(("ops::Range", "ops::RangeInclusive", "ops::RangeFrom")):
                    # a user-defined iterator struct as the second stream: it is driven by its own `next`
                    nb2 = None
                    for b_ in it.facts.fns.values():
                        if b_["path"].endswith("::next") and b_.get("impl_trait", "").endswith("Iterator") and b_.get("impl_self", "").split("<")[0] == other.name:
                            nb2 = b_
                            break
                    if it.mono:
                        nb2 = None
                        for tg_ in reversed(fn.get("targs") or []):
                            for tr_ in ("std::iter::Iterator", "core::iter::Iterator"):
                                nb2 = nb2 or it.facts.insts.get("<%s as %s>::next" % (tg_, tr_))
                    if nb2 is None:
                        return NotImplemented
                    other = IterV("user", (Cell(other, "user-iter"), nb2))
                if not isinstance(other, (IterV, Adt)):
                    return NotImplemented
                return IterV("zip", (inner, other))
            if name == "chain":
                other = args[1]
                if not isinstance(other, (IterV, Adt)):
                    return NotImplemented
                return IterV("chain", (inner, other))
            return NotImplemented
        if name in ("next", "next_back") and len(args) == 1 and isinstance(args[0], Ref):
            cur = it.read(args[0].cell, args[0].path)
            if isinstance(cur, Ref) and isinstance(it.read(cur.cell, cur.path), IterV):
                args = [cur]
                cur = it.read(cur.cell, cur.path)
            if isinstance(cur, IterV):
                new, item = iter_next(it, cur, term, caller, depth, back=(name == "next_back"))
                it.write(args[0].cell, args[0].path, new)
                return item
        if name == "collect" and args and (isinstance(args[0], IterV) or (isinstance(args[0], Adt) and args[0].name.endswith("ops::Range"))):
            dty = dest_ty or ""
            is_deque = dty.startswith("std::collections::VecDeque<")
            is_vec = dty.startswith("std::vec::Vec<") or dty.startswith("std::string::String") or dty.startswith("std::boxed::Box<[") or dty.startswith("smallvec::SmallVec<")
            is_set = dty.startswith("std::collections::HashSet<") or dty.startswith("std::collections::BTreeSet<")
            if not (is_deque or is_vec or is_set):
                # other targets (maps, Option<…>, Result<…>, tuples) are not sequences: leave them to a harness / report unsupported
                return NotImplemented
            cur = args[0]
            out = []
            for _ in range(100000):
                cur, item = iter_next(it, cur, term, caller, depth)
                if item.variant == 0:
                    break
                out.append(item.fields[0])
            by_val = not (dty.startswith("std::vec::Vec<&") or dty.startswith("std::collections::VecDeque<&"))
            if by_val:
                out = [deref_val(it, x) if isinstance(x, Ref) and False else x for x in out]
            if is_set:
                # an opaque set that remembers what went in (harnesses answer membership; concrete integer sets are answered by models2)
                return Opaque(dty, {"collected-set"}, {"items": out})
            return DequeV(out) if is_deque else VecV(out)
        if name in ("fold",) and len(args) == 3 and (isinstance(args[0], IterV) or (isinstance(args[0], Adt) and args[0].name.endswith("ops::Range"))):
            cur = args[0]
            acc = args[1]
            for _ in range(100000):
                cur, item = iter_next(it, cur, term, caller, depth)
                if item.variant == 0:
                    break
                acc = call_callable(it, args[2], [acc, item.fields[0]], term, caller, depth)
            return acc
        if name in ("for_each",) and len(args) == 2 and (isinstance(args[0], IterV) or (isinstance(args[0], Adt) and args[0].name.endswith("ops::Range"))):
            cur = args[0]
            for _ in range(100000):
                cur, item = iter_next(it, cur, term, caller, depth)
                if item.variant == 0:
                    break
                call_callable(it, args[1], [item.fields[0]], term, caller, depth)
            return Tup([])
        if name in ("find", "position") and len(args) == 2 and isinstance(args[0], Ref) and isinstance(it.read(args[0].cell, args[0].path), (IterV, Adt)):
            cur = it.read(args[0].cell, args[0].path)
            res = none()
            i = 0
            for _ in range(100000):
                cur, item = iter_next(it, cur, term, caller, depth)
                if item.variant == 0:
                    break
                probe = Ref(Cell(item.fields[0], "find-item")) if name == "find" else item.fields[0]
                r = call_callable(it, args[1], [probe], term, caller, depth)
                if not (isinstance(r, Int) and r.is_conc()):
                    raise Undecided("%s() predicate returned %r" % (name, r))
                if r.val:
                    res = some(item.fields[0]) if name == "find" else some(Int(64, False, val=i))
                    break
                i += 1
            it.write(args[0].cell, args[0].path, cur)
            return res
        if name == "last" and len(args) == 1 and isinstance(args[0], (IterV,)):
            cur = args[0]
            res = none()
            for _ in range(100000):
                cur, item = iter_next(it, cur, term, caller, depth)
                if item.variant == 0:
                    break
                res = item
            return res
        if name in ("all", "any") and len(args) == 2 and isinstance(args[0], Ref) and isinstance(it.read(args[0].cell, args[0].path), (IterV, Adt)) \
                and (isinstance(it.read(args[0].cell, args[0].path), IterV) or it.read(args[0].cell, args[0].path).name.endswith("ops::Range")):
            cur = it.read(args[0].cell, args[0].path)
            res = (name == "all")
            for _ in range(100000):
                cur, item = iter_next(it, cur, term, caller, depth)
                if item.variant == 0:
                    break
                r = call_callable(it, args[1], [item.fields[0]], term, caller, depth)
                if not (isinstance(r, Int) and r.is_conc()):
                    raise Undecided("%s() predicate returned %r" % (name, r))
                if name == "all" and not r.val:
                    res = False
                    break
                if name == "any" and r.val:
                    res = True
                    break
            it.write(args[0].cell, args[0].path, cur)
            return mkbool(res)
        if name == "sum" and args and isinstance(args[0], IterV):
            cur = args[0]
            acc = None
            for _ in range(100000):
                cur, item = iter_next(it, cur, term, caller, depth)
                if item.variant == 0:
                    break
                v = deref_val(it, item.fields[0])
                acc = v if acc is None else (bv.binop("Add", acc, v) if isinstance(acc, Int) and isinstance(v, Int) else it.binop("Add", acc, v, dest_ty))
            if acc is None:
                iti = it.int_of_ty(dest_ty) or (64, False, "int")
                return Int(iti[0], iti[1], val=0)
            return acc
        if name == "count" and args and isinstance(args[0], IterV):
            cur = args[0]
            n = 0
            for _ in range(100000):
                cur, item = iter_next(it, cur, term, caller, depth)
                if item.variant == 0:
                    break
                n += 1
            return Int(64, False, val=n)
    if name == "peek" and len(args) == 1 and isinstance(args[0], Ref):
        cur = it.read(args[0].cell, args[0].path)
        if isinstance(cur, IterV) and cur.kind == "peekable":
            inner, peeked = cur.a
            if peeked is None:
                inner, item = iter_next(it, inner, term, caller, depth)
                peeked = item
                it.write(args[0].cell, args[0].path, IterV("peekable", (inner, peeked)))
            if peeked.variant == 0:
                return none()
            # reference to the peeked item
            return some(Ref(Cell(peeked.fields[0], "peeked")))
    if name == "size_hint" and len(args) == 1 and isinstance(args[0], Ref):
        cur = it.read(args[0].cell, args[0].path)
        if isinstance(cur, IterV) and cur.kind in ("slice", "owned", "deque"):
            n = cur.a[2] - cur.a[1]
            if "loose-hint" in cur.tags:
                # a scripted iterator whose hint is legal but not exact (as a `filter` over a longer source answers): (0, Some(n + 5))
                return Tup([Int(64, False, val=0), some(Int(64, False, val=n + 5))])
            return Tup([Int(64, False, val=n), some(Int(64, False, val=n))])
    return NotImplemented


def iter_next(it, cur, term, caller, depth, back=False):
    """returns (advanced iterator, Option item)"""
    k = cur.kind if isinstance(cur, IterV) else None
    if isinstance(cur, Adt) and cur.name.endswith("ops::RangeFrom"):
        s0 = cur.fields[0]
        if back:
            raise Unsupported("next_back on RangeFrom")
        return Adt(cur.name, 0, [bv.binop("Add", s0, s0.like(val=1))]), some(s0)
    if isinstance(cur, Adt) and cur.name.endswith("RangeInclusive") and len(cur.fields) == 3:
        # (start, end, exhausted)
        s, e, ex = cur.fields
        if not (isinstance(ex, Int) and ex.is_conc()):
            raise Undecided("RangeInclusive with undetermined exhaustion flag")
        if ex.val:
            return cur, none()
        le = bv.compare("Le", s, e)
        eq = bv.compare("Eq", s, e)
        if (le is None or eq is None) and it.h is not None:
            le = it.h.unknown_compare(it, "Le", s, e) if le is None else le
            eq = it.h.unknown_compare(it, "Eq", s, e) if eq is None else eq
        if le is None or eq is None:
            raise Undecided("inclusive range bound %r <= %r" % (s, e))
        if not le:
            return cur, none()
        one = s.like(val=1)
        if back:
            if eq:
                return Adt(cur.name, 0, [s, e, mkbool(True)]), some(e)
            return Adt(cur.name, 0, [s, bv.binop("Sub", e, one), ex]), some(e)
        if eq:
            return Adt(cur.name, 0, [s, e, mkbool(True)]), some(s)
        return Adt(cur.name, 0, [bv.binop("Add", s, one), e, ex]), some(s)
    if isinstance(cur, Adt):  # Range<int>
        if len(cur.fields) != 2:
            raise Unsupported("iteration over %s" % cur.name)
        s, e = cur.fields
        lt = bv.compare("Lt", s, e)
        if lt is None and it.h is not None:
            lt = it.h.unknown_compare(it, "Lt", s, e)
        if lt is None:
            raise Undecided("range bound %r < %r" % (s, e))
        if not lt:
            return cur, none()
        one = s.like(val=1)
        if back:
            e2 = bv.binop("Sub", e, one)
            return Adt(cur.name, 0, [s, e2]), some(e2)
        return Adt(cur.name, 0, [bv.binop("Add", s, one), e]), some(s)
    if k in ("slice", "owned", "deque"):
        ref, pos, end = cur.a
        if pos >= end:
            return cur, none()
        if back:
            idx = end - 1
            nxt = IterV(k, (ref, pos, end - 1))
        else:
            idx = pos
            nxt = IterV(k, (ref, pos + 1, end))
        eref = Ref(ref.cell, ref.path + (("e", ref.off + idx),))
        if k == "owned":
            return nxt, some(it.read(eref.cell, eref.path))
        return nxt, some(eref)
    if k == "chunks_exact":
        inner, item = iter_next(it, cur.a[0], term, caller, depth, back)
        return IterV("chunks_exact", (inner, cur.a[1])), item
    if k == "chars":
        ref, pos, end = cur.a
        if pos >= end:
            return cur, none()
        b = it.read(ref.cell, ref.path + (("e", ref.off + pos),))
        if not isinstance(b, Int):
            raise Unsupported("chars over %r" % (b,))
        hi = bv.t_is_const(b.getbits()[7])
        if hi != 0:
            raise Undecided("chars(): only ASCII text is modelled")
        c = bv.cast(b, 32, False, "char")
        c.tags = b.tags
        return IterV(k, (ref, pos + 1, end)), some(c)
    if k == "chunks":
        ref, pos, n, size = cur.a
        if pos >= n:
            return cur, none()
        ln = min(size, n - pos)
        return IterV(k, (ref, pos + ln, n, size)), some(Ref(ref.cell, ref.path, ref.off + pos, ln))
    if k == "from_fn":
        item = call_callable(it, cur.a[0], [], term, caller, depth)
        if not (isinstance(item, Adt) and item.variant is not None):
            raise Undecided("iter::from_fn closure returned %r" % (item,))
        return cur, item
    if k == "user":
        cell, nb = cur.a
        if back:
            # reverse iteration of a user-defined iterator: its own DoubleEndedIterator::next_back
            ist = nb.get("impl_self", "")
            nbb = None
            if it.mono:
                for tr_ in ("std::iter::DoubleEndedIterator", "core::iter::DoubleEndedIterator"):
                    nbb = nbb or it.facts.insts.get("<%s as %s>::next_back" % (ist, tr_))
            if nbb is None:
                for b_ in it.facts.fns.values():
                    if b_["path"].endswith("::next_back") and b_.get("impl_trait", "").endswith("DoubleEndedIterator") and \
                            (b_.get("impl_self", "") == ist or b_.get("impl_self", "").split("<")[0] == ist.split("<")[0]):
                        nbb = b_
                        break
            if nbb is None:
                raise Unsupported("next_back of the user-defined iterator %s" % ist)
            nb = nbb
        item = it.call_body(nb, [Ref(cell)], depth + 1)
        if not (isinstance(item, Adt) and item.variant is not None):
            raise Undecided("user iterator returned %r" % (item,))
        return cur, item
    if k == "map":
        inner, f = cur.a
        inner, item = iter_next(it, inner, term, caller, depth, back)
        if item.variant == 0:
            return IterV(k, (inner, f)), none()
        r = call_callable(it, f, [item.fields[0]], term, caller, depth)
        return IterV(k, (inner, f)), some(r)
    if k in ("filter", "filter_map"):
        inner, f = cur.a
        for _ in range(100000):
            inner, item = iter_next(it, inner, term, caller, depth, back)
            if item.variant == 0:
                return IterV(k, (inner, f)), none()
            if k == "filter":
                r = call_callable(it, f, [Ref(Cell(item.fields[0], "filter-item"))], term, caller, depth)
                if not (isinstance(r, Int) and r.is_conc()):
                    raise Undecided("filter predicate returned %r" % (r,))
                if r.val:
                    return IterV(k, (inner, f)), item
            else:
                r = call_callable(it, f, [item.fields[0]], term, caller, depth)
                if not (isinstance(r, Adt) and r.variant is not None):
                    raise Undecided("filter_map closure returned %r" % (r,))
                if r.variant == 1:
                    return IterV(k, (inner, f)), r
        raise Unsupported("filter loop bound")
    if k == "flat_map":
        inner, f, curi = cur.a
        for _ in range(100000):
            if curi is not None:
                curi, item = iter_next(it, curi, term, caller, depth)
                if item.variant == 1:
                    return IterV(k, (inner, f, curi)), item
                curi = None
            inner, item = iter_next(it, inner, term, caller, depth)
            if item.variant == 0:
                return IterV(k, (inner, f, None)), none()
            r = call_callable(it, f, [item.fields[0]], term, caller, depth) if f is not None else item.fields[0]
            if isinstance(r, (VecV, Arr)):
                r = IterV("owned", (Ref(Cell(r, "flat")), 0, len(r.elems)))
            elif isinstance(r, Adt) and r.name.endswith("option::Option"):
                r = IterV("owned", (Ref(Cell(VecV(list(r.fields) if r.variant == 1 else []), "flat")), 0, 1 if r.variant == 1 else 0))
            if not isinstance(r, (IterV, Adt)):
                raise Unsupported("flat_map over %r" % (r,))
            curi = r
        raise Unsupported("flat_map loop bound")
    if k == "zip":
        a, b = cur.a
        a, ia = iter_next(it, a, term, caller, depth)
        if ia.variant == 0:
            return IterV(k, (a, b)), none()
        b, ib = iter_next(it, b, term, caller, depth)
        if ib.variant == 0:
            return IterV(k, (a, b)), none()
        return IterV(k, (a, b)), some(Tup([ia.fields[0], ib.fields[0]]))
    if k == "chain":
        a, b = cur.a
        if a is not None:
            a, ia = iter_next(it, a, term, caller, depth)
            if ia.variant == 1:
                return IterV(k, (a, b)), ia
        b, ib = iter_next(it, b, term, caller, depth)
        return IterV(k, (None, b)), ib
    if k == "enumerate":
        inner, n = cur.a
        inner, item = iter_next(it, inner, term, caller, depth)
        if item.variant == 0:
            return IterV(k, (inner, n)), none()
        return IterV(k, (inner, n + 1)), some(Tup([Int(64, False, val=n), item.fields[0]]))
    if k == "take":
        inner, n = cur.a
        if n == 0:
            return cur, none()
        inner, item = iter_next(it, inner, term, caller, depth)
        if item.variant == 0:
            return IterV(k, (inner, 0)), none()
        return IterV(k, (inner, n - 1)), item
    if k == "skip":
        inner, n = cur.a
        while n > 0:
            inner, item = iter_next(it, inner, term, caller, depth)
            n -= 1
            if item.variant == 0:
                return IterV(k, (inner, 0)), none()
        inner, item = iter_next(it, inner, term, caller, depth)
        return IterV(k, (inner, 0)), item
    if k == "step_by":
        inner, step, first = cur.a
        if step == 0:
            raise Diverge("step_by(0)")
        if not first:
            for _ in range(step - 1):
                inner, item = iter_next(it, inner, term, caller, depth)
                if item.variant == 0:
                    return IterV(k, (inner, step, False)), none()
        inner, item = iter_next(it, inner, term, caller, depth)
        return IterV(k, (inner, step, False)), item
    if k == "rev":
        inner, item = iter_next(it, cur.a[0], term, caller, depth, back=not back)
        return IterV(k, (inner,)), item
    if k == "cloned":
        inner, item = iter_next(it, cur.a[0], term, caller, depth, back)
        if item.variant == 0:
            return IterV(k, (inner,)), none()
        return IterV(k, (inner,)), some(deref_val(it, item.fields[0]))
    if k == "peekable":
        inner, peeked = cur.a
        if peeked is not None:
            return IterV(k, (inner, None)), peeked
        inner, item = iter_next(it, inner, term, caller, depth)
        return IterV(k, (inner, None)), item
    raise Unsupported("iterator kind %s" % k)


class DequeV:
    """model of VecDeque<T>"""
    __slots__ = ("elems",)

    def __init__(self, elems=()):
        self.elems = tuple(elems)

    def __repr__(self):
        return "deque[%s]" % ", ".join(map(repr, self.elems))


def deque_model(it, name, fn, args, dest_ty):
    if name in ("new", "with_capacity", "default"):
        return DequeV([])
    if name in ("reserve", "reserve_exact", "shrink_to_fit", "shrink_to"):
        return Tup([])
    if not args or not isinstance(args[0], Ref):
        return NotImplemented
    r = args[0]
    v = it.read(r.cell, r.path)
    if not isinstance(v, DequeV):
        return NotImplemented
    if name == "push_back":
        it.write(r.cell, r.path, DequeV(v.elems + (args[1],)))
        return Tup([])
    if name == "push_front":
        it.write(r.cell, r.path, DequeV((args[1],) + v.elems))
        return Tup([])
    if name == "clear":
        it.write(r.cell, r.path, DequeV([]))
        return Tup([])
    if name == "len":
        return Int(64, False, val=len(v.elems))
    if name == "is_empty":
        return mkbool(len(v.elems) == 0)
    if name == "extend" and len(args) == 2:
        items = drain_iter(it, args[1])
        if items is not None:
            it.write(r.cell, r.path, DequeV(v.elems + tuple(items)))
            return Tup([])
    if name in ("back", "front", "back_mut", "front_mut"):
        if not v.elems:
            return none()
        return some(Ref(r.cell, r.path + (("e", len(v.elems) - 1 if name.startswith("back") else 0),)))
    if name in ("pop_front", "pop_back"):
        if not v.elems:
            return none()
        if name == "pop_front":
            it.write(r.cell, r.path, DequeV(v.elems[1:]))
            return some(v.elems[0])
        it.write(r.cell, r.path, DequeV(v.elems[:-1]))
        return some(v.elems[-1])
    if name in ("get", "get_mut") and len(args) == 2 and isinstance(args[1], Int) and args[1].is_conc():
        i = args[1].val
        return some(Ref(r.cell, r.path + (("e", i),))) if i < len(v.elems) else none()
    if name == "truncate" and len(args) == 2 and isinstance(args[1], Int) and args[1].is_conc():
        it.write(r.cell, r.path, DequeV(v.elems[:args[1].val]))
        return Tup([])
    if name == "contains" and len(args) == 2:
        x = deref_val(it, args[1])
        if isinstance(x, Int) and x.is_conc() and all(isinstance(e, Int) and e.is_conc() for e in v.elems):
            return mkbool(any(e.val == x.val for e in v.elems))
    return NotImplemented


def drain_iter(it, src, term=None, caller=None, depth=0):
    """all items of an abstract iterator / collection value, or None"""
    if isinstance(src, (VecV, Arr, DequeV)):
        return list(src.elems)
    if isinstance(src, Adt) and src.name.endswith("option::Option") and src.variant is not None:
        return list(src.fields) if src.variant == 1 else []
    if isinstance(src, IterV) or (isinstance(src, Adt) and src.name.endswith("ops::Range")):
        out = []
        cur = src
        for _ in range(100000):
            cur, item = iter_next(it, cur, term or {}, caller or {"path": "?", "file": "?"}, depth)
            if item.variant == 0:
                return out
            out.append(item.fields[0])
    return None


def user_next_body(it, fn):
    """the `next` body of the iterator type a trait-default method (collect, map, …) is called on"""
    targs = fn.get("targs") or []
    if not targs:
        return None
    self_ty = targs[0]
    if it.mono:
        for tr in ("std::iter::Iterator", "core::iter::Iterator"):
            b = it.facts.insts.get("<%s as %s>::next" % (self_ty, tr))
            if b is not None:
                return b
    for b in it.facts.fns.values():
        if b["path"].endswith("::next") and b.get("impl_trait", "").endswith("Iterator"):
            ist = b.get("impl_self", "")
            if ist == self_ty or ist.split("<")[0] == self_ty.split("<")[0]:
                return b
    return None
