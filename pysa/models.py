"""Models of library primitives for the abstract interpreter (by resolved callee path)."""
from . import bv
from .bv import Int, mkbool
from .absint import (Adt, Arr, Cell, Closure, Diverge, FnItem, Opaque, Ref, Tup, Undecided,
                     Unsupported, VecV, UNINIT, tags_of, with_tags)

OPTION = "std::option::Option"


def some(v):
    return Adt(OPTION, 1, [v])


def none():
    return Adt(OPTION, 0, [])


def _strip(path):
    # "std::" and "core::" / "alloc::" name the same items
    for a, b in (("std::", "core::"), ("alloc::", "core::")):
        if path.startswith(a):
            return b + path[len(a):]
    return path


def size_of(it, tystr):
    t = it.tinfo(tystr)
    k = t.get("k")
    if k in ("uint", "int", "float"):
        return t["w"] // 8
    if k == "bool":
        return 1
    if k == "char":
        return 4
    if k in ("ref", "ptr", "fnptr"):
        return 8
    if k == "tuple":
        return None if t["ts"] else 0
    if k == "array" and t.get("len") is not None:
        s = size_of(it, t["t"])
        return None if s is None else s * t["len"]
    return None


def deref_val(it, r):
    if isinstance(r, Ref):
        return it.read(r.cell, r.path)
    return r


def seq_of(it, r):
    """(container value, off, len) behind a slice/vec reference"""
    if not isinstance(r, Ref):
        return None
    v = it.read(r.cell, r.path)
    if isinstance(v, (Arr, VecV)):
        n = (len(v.elems) - r.off) if r.len is None else r.len
        return v, r.off, n
    return None


def apply(it, fn, args, dest_ty, term, caller, depth):
    path = _strip(fn.get("path", ""))
    rpath = _strip(fn.get("rpath") or fn.get("path", ""))
    targs = fn.get("targs") or []
    name = path.split("::")[-1]

    # ---- sizes
    if path in ("core::mem::size_of", "core::intrinsics::size_of"):
        s = size_of(it, targs[0]) if targs else None
        if s is None:
            if it.h is not None:
                r = it.h.size_of(it, targs[0] if targs else None)
                if r is not None:
                    return Int(64, False, val=r)
            return it.abstract_of("usize", {"size_of"})
        return Int(64, False, val=s)

    # ---- num_traits on primitive ints
    if fn.get("trait", "").startswith("num_traits::") or path.startswith("num_traits::"):
        tr = fn.get("trait", "")
        self_ty = targs[0] if targs else None
        iti = it.int_of_ty(self_ty) if self_ty else None
        if iti is not None:
            w, signed, _ = iti
            if name == "zero":
                return Int(w, signed, val=0)
            if name == "one":
                return Int(w, signed, val=1)
            if name == "count_ones":
                return popcount(it, args[0])
            if name in ("max_value",):
                return Int(w, signed, val=(1 << w) - 1)
            if name in ("min_value",):
                return Int(w, signed, val=0)
            if name.startswith("from_") and tr.endswith("FromPrimitive"):
                return checked_conv(it, args[0], w, signed)
            if name.startswith("to_") and tr.endswith("ToPrimitive"):
                tgt = {"to_u8": 8, "to_u16": 16, "to_u32": 32, "to_u64": 64, "to_u128": 128, "to_usize": 64}.get(name)
                if tgt:
                    return checked_conv(it, deref_val(it, args[0]), tgt, False)
            if name in ("leading_zeros", "trailing_zeros") and isinstance(args[0], Int) and args[0].is_conc():
                v = args[0].val
                if name == "leading_zeros":
                    return Int(32, False, val=w - v.bit_length())
                return Int(32, False, val=(v & -v).bit_length() - 1 if v else w)
    # ---- intrinsics / inherent int methods
    if path in ("core::intrinsics::ctpop",):
        return popcount(it, args[0])
    if path == "core::intrinsics::saturating_sub" or rpath.endswith("::saturating_sub") and isinstance(args[0], Int):
        a, b = args
        if a.is_conc() and b.is_conc():
            return a.like(val=max(0, a.val - b.val)) if not a.signed else Unsupported
        lt = bv.compare("Lt", a, b)
        if lt is True:
            return a.like(val=0)
        if lt is False:
            return bv.binop("Sub", a, b)
        return bv.top_int(a.w, a.signed)
    if path == "core::intrinsics::saturating_add" or (rpath.endswith("::saturating_add") and isinstance(args[0], Int)):
        a, b = args
        if a.is_conc() and b.is_conc():
            return a.like(val=min((1 << a.w) - 1, a.val + b.val))
        return bv.top_int(a.w, a.signed)
    if path in ("core::intrinsics::cold_path", "core::intrinsics::assume", "core::hint::assert_unchecked",
                "core::intrinsics::assert_inhabited", "core::intrinsics::ub_checks"):
        return Tup([]) if path != "core::intrinsics::ub_checks" else mkbool(False)
    if path == "core::intrinsics::unlikely" or path == "core::intrinsics::likely":
        return args[0]
    if path in ("core::intrinsics::wrapping_add", "core::intrinsics::unchecked_add"):
        return bv.binop("Add", args[0], args[1])
    if path in ("core::intrinsics::wrapping_sub", "core::intrinsics::unchecked_sub"):
        return bv.binop("Sub", args[0], args[1])
    if path == "core::intrinsics::three_way_compare":
        return it.binop("Cmp", args[0], args[1], dest_ty)

    # ---- clone / borrow / identity conversions
    if name == "clone" and (fn.get("trait", "").endswith("clone::Clone")):
        v = deref_val(it, args[0])
        if isinstance(v, (Int, Adt, Tup, Opaque, Arr, VecV, Closure, FnItem)):
            # only take the shortcut for values without a user Clone impl in this crate
            if not (fn.get("rpath", "").startswith(("dna_string", "graph", "compression", "kmer", "vmer", "filter", "msp"))
                    and fn.get("rkind") == "item" and it.find_body(fn) is not None and not _is_derived(it, fn)):
                return v
    if name in ("borrow", "as_ref", "deref", "borrow_mut", "deref_mut", "as_mut") and len(args) == 1 and \
            fn.get("trait", "").split("::")[-1] in ("Borrow", "AsRef", "Deref", "BorrowMut", "DerefMut", "AsMut"):
        a = args[0]
        if isinstance(a, Ref):
            v = it.read(a.cell, a.path)
            if isinstance(v, Ref):
                return v   # &&T -> &T
            return a       # &Vec<T> -> &[T] (same backing), &T -> &T
        return a
    if name in ("into", "from") and len(args) == 1 and fn.get("trait", "").split("::")[-1] in ("Into", "From"):
        a = args[0]
        it_d = it.int_of_ty(dest_ty)
        if isinstance(a, Int) and it_d:
            return bv.cast(a, it_d[0], it_d[1], it_d[2])
        if len(targs) >= 2 and targs[0] == targs[1]:
            return a
        if len(targs) == 1:
            return a
    if name == "into_iter" and fn.get("trait", "").endswith("IntoIterator") and len(args) == 1:
        a = args[0]
        if isinstance(a, Adt) and a.name in ("core::ops::Range", "core::ops::range::Range", "std::ops::Range"):
            return a
        if isinstance(a, Opaque) and it.h is not None:
            r = it.h.into_iter(it, a, dest_ty)
            if r is not None:
                return r

    # ---- Range<int> iteration
    if name == "next" and len(args) == 1 and isinstance(args[0], Ref):
        v = it.read(args[0].cell, args[0].path)
        if isinstance(v, Adt) and v.name.endswith("ops::Range") or (isinstance(v, Adt) and v.name.endswith("range::Range")):
            s, e = v.fields
            if isinstance(s, Int) and isinstance(e, Int):
                lt = bv.compare("Lt", s, e)
                if lt is None and it.h is not None:
                    lt = it.h.unknown_compare(it, "Lt", s, e)
                if lt is None:
                    raise Undecided("range bound %r < %r" % (s, e))
                if lt:
                    one = s.like(val=1)
                    it.write(args[0].cell, args[0].path, Adt(v.name, 0, [bv.binop("Add", s, one), e]))
                    return some(s)
                return none()

    # ---- Vec / slices
    if path.startswith("core::vec::Vec::<") or path.startswith("core::vec::Vec<") or rpath.startswith("core::vec::Vec"):
        r = vec_model(it, name, fn, args, dest_ty)
        if r is not NotImplemented:
            return r
    if path == "core::vec::from_elem":
        n = args[1]
        if isinstance(n, Int) and n.is_conc():
            if n.val > 4096:
                raise Unsupported("from_elem too long")
            return VecV([args[0]] * n.val)
        raise Undecided("vec![x; n] with symbolic n %r" % (n,))
    if name in ("index", "index_mut") and len(args) == 2:
        r = index_model(it, args[0], args[1])
        if r is not NotImplemented:
            return r
    if path.startswith("core::slice::<impl [") or path.startswith("core::slice::"):
        if name == "len":
            return it.slice_len(args[0])
        if name == "is_empty":
            n = it.slice_len(args[0])
            if n.is_conc():
                return mkbool(n.val == 0)
        if name in ("as_ptr", "as_mut_ptr"):
            return args[0]
    if path == "core::array::<impl [T; N]>::as_slice" or name in ("as_slice", "as_mut_slice") and isinstance(args[0], Ref):
        b = it.find_body(fn)
        if b is None:
            return args[0]

    # ---- formatting / printing: results are irrelevant to the analysed behaviour
    if path.startswith("core::fmt::") or path.startswith("core::io::_print") or path.startswith("std::io::_print") \
            or path.startswith("core::io::stdio::_print") or path.startswith("log::"):
        return Opaque(dest_ty, {"fmt"})

    return NotImplemented


def _is_derived(it, fn):
    b = it.find_body(fn)
    return bool(b and b.get("derived"))


def popcount(it, a):
    if isinstance(a, Int):
        if a.is_conc():
            return Int(32, False, val=bin(a.val).count("1"))
        return Opaque("u32", a.tags | {"popcount"}, {"pop": bv.popcount_terms(a), "w": a.w})
    return Opaque("u32", tags_of(a) | {"popcount"})


def checked_conv(it, a, w, signed):
    """Some(a as target) when a fits, None when it definitely does not"""
    if not isinstance(a, Int):
        return Opaque("core::option::Option<?>", tags_of(a) | {"conv"})
    if a.is_conc():
        v = a.sval() if a.signed else a.val
        lo, hi = (-(1 << (w - 1)), (1 << (w - 1)) - 1) if signed else (0, (1 << w) - 1)
        if lo <= v <= hi:
            return some(Int(w, signed, val=v))
        return none()
    bits = a.getbits()
    if a.signed:
        raise Unsupported("checked conversion of symbolic signed value")
    high = bits[w - (1 if signed else 0):]
    if all(bv.t_is_const(b) == 0 for b in high):
        r = bv.cast(a, w, signed)
        return some(with_tags(r, a.tags))
    if any(bv.t_is_const(b) == 1 for b in high):
        return none()
    raise Undecided("checked integer conversion of %r to %d bits may or may not fit" % (a, w))


def vec_model(it, name, fn, args, dest_ty):
    if name in ("new", "with_capacity", "default"):
        return VecV([])
    if not args or not isinstance(args[0], Ref):
        return NotImplemented
    r = args[0]
    v = it.read(r.cell, r.path)
    if isinstance(v, Opaque):
        if it.h is not None:
            res = it.h.opaque_vec_op(it, name, v, args, dest_ty)
            if res is not None:
                return res
        return NotImplemented
    if not isinstance(v, VecV):
        return NotImplemented
    if name == "push":
        it.write(r.cell, r.path, VecV(v.elems + (args[1],)))
        return Tup([])
    if name == "len":
        return Int(64, False, val=len(v.elems))
    if name == "is_empty":
        return mkbool(len(v.elems) == 0)
    if name == "clear":
        it.write(r.cell, r.path, VecV([]))
        return Tup([])
    if name == "pop":
        if not v.elems:
            return none()
        it.write(r.cell, r.path, VecV(v.elems[:-1]))
        return some(v.elems[-1])
    if name == "last":
        if not v.elems:
            return none()
        return some(Ref(r.cell, r.path + (("e", len(v.elems) - 1),)))
    if name in ("as_slice", "as_mut_slice", "deref", "deref_mut"):
        return r
    return NotImplemented


def index_model(it, base, idx):
    """Index::index(&container, idx) for Vec / slice / array with usize or Range index"""
    if not isinstance(base, Ref):
        return NotImplemented
    v = it.read(base.cell, base.path)
    if isinstance(v, Ref):  # &&[T]
        base = v
        v = it.read(base.cell, base.path)
    if not isinstance(v, (Arr, VecV)):
        return NotImplemented
    n = (len(v.elems) - base.off) if base.len is None else base.len
    if isinstance(idx, Int):
        if not idx.is_conc():
            raise Undecided("symbolic index %r" % (idx,))
        if idx.val >= n:
            raise Diverge("index %d out of range %d" % (idx.val, n))
        return Ref(base.cell, base.path + (("e", base.off + idx.val),))
    if isinstance(idx, Adt) and idx.name.split("::")[-1] in ("Range", "RangeFrom", "RangeTo", "RangeFull", "RangeInclusive"):
        nm = idx.name.split("::")[-1]
        if nm == "Range":
            s, e = idx.fields
        elif nm == "RangeFrom":
            s, e = idx.fields[0], Int(64, False, val=n)
        elif nm == "RangeTo":
            s, e = Int(64, False, val=0), idx.fields[0]
        elif nm == "RangeFull":
            s, e = Int(64, False, val=0), Int(64, False, val=n)
        else:
            return NotImplemented
        if not (s.is_conc() and e.is_conc()):
            raise Undecided("symbolic slice range")
        if s.val > e.val or e.val > n:
            raise Diverge("slice range %d..%d out of range %d" % (s.val, e.val, n))
        return Ref(base.cell, base.path, base.off + s.val, e.val - s.val)
    return NotImplemented
