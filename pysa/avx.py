"""E4 — models of the AVX2 intrinsics used by bitops_avx2.rs, on 256-bit vectors of per-bit provenance terms.
Written from Intel's pseudo-code; they are part of the trusted base of C16.2."""
from . import bv
from .bv import Int, ZERO, ONE, TOP, t_and, t_or, t_xor, t_not
from .absint import Arr, Cell, Opaque, Ref, Undecided, Unsupported


class M256:
    """32 bytes, each a tuple of 8 bit terms (LSB first); byte 0 is the lowest"""
    __slots__ = ("b",)

    def __init__(self, b):
        assert len(b) == 32
        self.b = [tuple(x) for x in b]

    def __repr__(self):
        return "m256[%s]" % ",".join(repr(Int(8, False, bits=list(x))) for x in self.b)


def byte_bits(v):
    if isinstance(v, Int):
        bits = list(v.getbits())[:8]
        while len(bits) < 8:
            bits.append(ZERO)
        return tuple(bits)
    raise Unsupported("simd lane from %r" % (v,))


def const_byte(n):
    return tuple(ONE if (n >> i) & 1 else ZERO for i in range(8))


def imm_of(fn):
    k = fn.get("key", "")
    if "::<" in k:
        try:
            return int(k.rsplit("::<", 1)[1].rstrip(">").strip())
        except ValueError:
            return None
    return None


def mobius(tt, nvars):
    """truth table (list of 0/1 of length 2^nvars) -> ANF coefficient list"""
    a = list(tt)
    for i in range(nvars):
        step = 1 << i
        for j in range(len(a)):
            if j & step:
                a[j] ^= a[j ^ step]
    return a


def lookup16(table_bytes, idx_bits, kill_bit):
    """pshufb of one byte: table of 16 concrete byte values, 4 symbolic index bits, symbolic kill bit (bit 7)"""
    out = []
    for bit in range(8):
        tt = []
        for m in range(32):
            idx = m & 15
            kill = (m >> 4) & 1
            tt.append(0 if kill else (table_bytes[idx] >> bit) & 1)
        coef = mobius(tt, 5)
        vars_ = list(idx_bits) + [kill_bit]
        acc = ZERO
        for m in range(32):
            if coef[m]:
                term = ONE
                for k in range(5):
                    if (m >> k) & 1:
                        term = t_and(term, vars_[k])
                acc = t_xor(acc, term)
        out.append(acc)
    return tuple(out)


def apply(it, fn, args):
    p = fn.get("path", "")
    name = p.split("::")[-1]
    if not name.startswith("_mm256_") and not name.startswith("_mm_"):
        return NotImplemented
    if name == "_mm256_setzero_si256":
        return M256([const_byte(0)] * 32)
    if name == "_mm256_set1_epi8":
        return M256([byte_bits(args[0])] * 32)
    if name == "_mm256_set_epi8":
        return M256([byte_bits(args[31 - i]) for i in range(32)])
    if name == "_mm256_set_epi64x":
        bs = []
        for q in range(4):
            v = args[3 - q]
            bits = list(v.getbits())
            for k in range(8):
                bs.append(tuple(bits[8 * k: 8 * k + 8]))
        return M256(bs)
    if name in ("_mm256_set1_epi64x", "_mm256_set1_epi32", "_mm256_set1_epi16"):
        nb = {"_mm256_set1_epi64x": 8, "_mm256_set1_epi32": 4, "_mm256_set1_epi16": 2}[name]
        bits = list(args[0].getbits())
        one = [tuple(bits[8 * k: 8 * k + 8]) for k in range(nb)]
        return M256(one * (32 // nb))
    if name in ("_mm256_setr_epi64x", "_mm256_setr_epi8"):
        nb = 8 if name.endswith("64x") else 1
        bs = []
        for v in args:
            bits = list(v.getbits())
            for k in range(nb):
                bs.append(tuple(bits[8 * k: 8 * k + 8]))
        return M256(bs)
    if name == "_mm256_loadu_si256":
        r = args[0]
        if not isinstance(r, Ref):
            raise Unsupported("loadu from %r" % (r,))
        v = it.read(r.cell, r.path)
        if not isinstance(v, Arr):
            raise Unsupported("loadu from %r" % (v,))
        n = (len(v.elems) - r.off) if r.len is None else r.len
        if n < 32:
            raise Unsupported("loadu reads 32 bytes from a %d-byte slice" % n)
        return M256([byte_bits(v.elems[r.off + i]) for i in range(32)])
    a = args[0] if args else None
    if name in ("_mm256_and_si256", "_mm256_or_si256", "_mm256_xor_si256", "_mm256_andnot_si256"):
        b = args[1]
        f = {"_mm256_and_si256": t_and, "_mm256_or_si256": t_or, "_mm256_xor_si256": t_xor,
             "_mm256_andnot_si256": lambda x, y: t_and(t_not(x), y)}[name]
        return M256([tuple(f(x, y) for x, y in zip(ab, bb)) for ab, bb in zip(a.b, b.b)])
    if name in ("_mm256_slli_epi16", "_mm256_srli_epi16"):
        n = imm_of(fn)
        if n is None:
            raise Unsupported("shift without immediate")
        out = []
        for lane in range(16):
            bits = list(a.b[2 * lane]) + list(a.b[2 * lane + 1])
            if n >= 16:
                sh = [ZERO] * 16
            elif name == "_mm256_slli_epi16":
                sh = [ZERO] * n + bits[:16 - n]
            else:
                sh = bits[n:] + [ZERO] * n
            out.append(tuple(sh[:8]))
            out.append(tuple(sh[8:]))
        return M256(out)
    if name == "_mm256_permute4x64_epi64":
        imm = imm_of(fn)
        out = []
        for q in range(4):
            src = (imm >> (2 * q)) & 3
            out.extend(a.b[8 * src: 8 * src + 8])
        return M256(out)
    if name in ("_mm256_unpacklo_epi8", "_mm256_unpackhi_epi8"):
        b = args[1]
        out = []
        for lane in range(2):
            base = 16 * lane + (0 if name.endswith("lo_epi8") else 8)
            for k in range(8):
                out.append(a.b[base + k])
                out.append(b.b[base + k])
        return M256(out)
    if name == "_mm256_movemask_epi8":
        return Int(32, True, bits=[a.b[i][7] for i in range(32)])
    if name == "_mm256_cmpeq_epi8":
        b = args[1]
        out = []
        for x, y in zip(a.b, b.b):
            eq = ONE
            for k in range(8):
                eq = t_and(eq, t_not(t_xor(x[k], y[k])))
            out.append(tuple([eq] * 8))
        return M256(out)
    if name == "_mm256_shuffle_epi8":
        b = args[1]
        out = []
        for i in range(32):
            lane = 16 * (i // 16)
            idx = b.b[i]
            cidx = [bv.t_is_const(idx[k]) for k in (0, 1, 2, 3, 7)]
            if all(c is not None for c in cidx):
                if cidx[4]:
                    out.append(const_byte(0))
                else:
                    j = cidx[0] | (cidx[1] << 1) | (cidx[2] << 2) | (cidx[3] << 3)
                    out.append(a.b[lane + j])
                continue
            tab = []
            conc = True
            for j in range(16):
                v = 0
                for k in range(8):
                    c = bv.t_is_const(a.b[lane + j][k])
                    if c is None:
                        conc = False
                        break
                    v |= c << k
                if not conc:
                    break
                tab.append(v)
            if conc and all(idx[k] is not TOP for k in (0, 1, 2, 3, 7)):
                out.append(lookup16(tab, [idx[0], idx[1], idx[2], idx[3]], idx[7]))
            else:
                out.append(tuple([TOP] * 8))
        return M256(out)
    if name == "_mm256_testc_si256":
        return Int(32, True, bits=[TOP] * 32)
    raise Unsupported("AVX2 intrinsic %s is not modelled" % name)
