"""pretty-printer for exported MIR bodies (debugging aid and for violation reports)"""


def place(p):
    s = "_%d" % p["l"]
    for pe in p["p"]:
        if pe == "deref":
            s = "(*%s)" % s
        elif isinstance(pe, dict) and "f" in pe:
            s += ".%d" % pe["f"]
        elif isinstance(pe, dict) and "idx" in pe:
            s += "[_%d]" % pe["idx"]
        elif isinstance(pe, dict) and "cidx" in pe:
            s += "[%d]" % pe["cidx"]
        elif isinstance(pe, dict) and "downcast" in pe:
            s += " as %s" % pe.get("name")
        else:
            s += ".?%r" % (pe,)
    return s


def operand(o):
    if "copy" in o:
        return place(o["copy"])
    if "move" in o:
        return "move " + place(o["move"])
    if "const" in o:
        c = o["const"]
        if "fn" in c:
            f = c["fn"]
            return "fn %s%s" % (f["key"], (" => " + f["rkey"]) if f.get("rkey") and f["rkey"] != f["key"] else "")
        if "int" in c:
            return "%s_%s" % (c["int"], c["ty"])
        if "bytes" in c:
            return "bytes(%d)" % len(c["bytes"])
        return "const<%s>" % c["ty"]
    return repr(o)


def rvalue(rv):
    k = rv["k"]
    if k == "use":
        return operand(rv["o"])
    if k == "ref":
        return "&%s%s" % ("mut " if rv["mut"] else "", place(rv["p"]))
    if k == "rawptr":
        return "&raw %s" % place(rv["p"])
    if k == "bin":
        return "%s(%s, %s)" % (rv["op"], operand(rv["a"]), operand(rv["b"]))
    if k == "un":
        return "%s(%s)" % (rv["op"], operand(rv["o"]))
    if k == "cast":
        return "%s as %s (%s)" % (operand(rv["o"]), rv["ty"], rv["ck"])
    if k == "discr":
        return "discr(%s)" % place(rv["p"])
    if k == "agg":
        nm = rv.get("adt") or rv.get("closure") or rv["ak"]
        if rv["ak"] == "adt":
            nm += "::" + rv["vname"]
        return "%s{%s}" % (nm, ", ".join(operand(o) for o in rv["ops"]))
    if k == "repeat":
        return "[%s; %s]" % (operand(rv["o"]), rv["n"])
    return repr(rv)


def body(b):
    out = ["fn %s  (%s:%s) argc=%d" % (b.get("key") or b["path"], b["file"], b["line"], b["argc"])]
    for i, t in enumerate(b["locals"]):
        out.append("  let _%d: %s" % (i, t))
    for d in b["debug"]:
        out.append("  debug %s => %s" % (d["name"], place(d["p"])))
    for bi, bb in enumerate(b["blocks"]):
        out.append("  bb%d%s:" % (bi, " (cleanup)" if bb["cleanup"] else ""))
        for s in bb["s"]:
            if s["k"] == "assign":
                out.append("    %s = %s   // ln %s" % (place(s["p"]), rvalue(s["rv"]), s.get("ln")))
            else:
                out.append("    %r" % s)
        t = bb["t"]
        k = t["k"]
        if k == "call":
            out.append("    %s = call %s(%s) -> bb%s   // ln %s" % (
                place(t["dest"]), operand(t["f"]), ", ".join(operand(a) for a in t["args"]), t["t"], t.get("ln")))
        elif k == "switch":
            out.append("    switch %s %s else bb%s" % (operand(t["o"]), ["%s->bb%s" % (v, x) for v, x in t["targets"]], t["otherwise"]))
        elif k == "goto":
            out.append("    goto bb%s" % t["t"])
        elif k == "assert":
            out.append("    assert(%s == %s, %s) -> bb%s" % (operand(t["o"]), t["expected"], t["msg"], t["t"]))
        elif k == "drop":
            out.append("    drop(%s) -> bb%s" % (place(t["p"]), t["t"]))
        else:
            out.append("    %s" % k)
    return "\n".join(out)
