"""Decision tables / abstract walks for the compression loops: extenders, node builders, drivers
(C01.1–C01.5, C02.3, C09.1, C09.3–C09.5).  The step function is scripted (its own table is C02.1 / C09.2)."""
from . import bv, cfg as C
from .bv import Int, mkbool, ZERO, ONE, TOP, var
from .absint import (Adt, Arr, Cell, Closure, Diverge, FnItem, Harness, Interp, Opaque, Ref, Tup, Undecided,
                     Unsupported, VecV, UNINIT, tags_of, with_tags)
from .dt import (BOTTOM, DIR, LEFT, RIGHT, Oracles, check_table, dir_name, dir_of, dir_v, explore, flip, is_print_call,
                 xor_dir)
from .dt_tables import EXTS, find_step, recv, struct_of
from .models import DequeV, IterV, some, none, deref_val
from .report import HOLDS, VIOLATED, INCONCLUSIVE


def kmer_v(name, rc=False):
    return Opaque("K", {"kmer"}, {"k": name, "rc": rc})


def kid(v):
    if isinstance(v, Opaque) and "k" in v.info:
        return (v.info["k"], v.info.get("rc", False))
    return None


def exts_sym(src):
    """a single-direction extension set: low nibble symbolic, high nibble zero"""
    return Adt(EXTS, 0, [Int(8, False, bits=[var(src, i) for i in range(4)] + [ZERO] * 4)])


def nibble_bits(src, complemented):
    b = [var(src, i) for i in range(4)]
    return [b[3 - i] for i in range(4)] if complemented else b


class WalkOracles(Oracles):
    """oracles shared by the extender / builder / driver harnesses"""

    def __init__(self, script, K=3):
        Oracles.__init__(self, script)
        self.K = K
        self.removed = []
        self.log = []
        self.data_cells = {}
        self.exts_cells = {}
        self.step_fn = None
        self.step_calls = []

    # identity-carrying abstract values
    def data_ref(self, name):
        if name not in self.data_cells:
            self.data_cells[name] = Cell(Opaque("D", {"data"}, {"fold": (name,)}), "data[%s]" % name)
        return Ref(self.data_cells[name])

    def exts_ref(self, name):
        if name not in self.exts_cells:
            self.exts_cells[name] = Cell(Opaque(EXTS, {"exts"}, {"exts_of": name}), "exts[%s]" % name)
        return Ref(self.exts_cells[name])

    def id_of(self, v):
        for t in tags_of(v):
            if t.startswith("id:"):
                return t[3:]
        return None

    def common(self, it, fn, args, dest_ty, term, caller):
        p = fn.get("path", "")
        name = p.split("::")[-1]
        tr = fn.get("trait", "")
        if is_print_call(fn):
            return Opaque(dest_ty, {"fmt"})
        if name == "k" and tr == "Kmer":
            return Int(64, False, val=self.K)
        if tr == "Mer" and name == "get":
            k = recv(it, args[0])
            i = args[1]
            idx = i.val if isinstance(i, Int) and i.is_conc() else None
            if kid(k) and idx is not None and 0 <= idx < self.K:
                return Int(8, False, bits=[TOP] * 8, tags=frozenset({"base", norm_base(kid(k)[0], bool(kid(k)[1]), idx, self.K)}))
            return Int(8, False, bits=[TOP] * 8, tags=frozenset({"base"}))
        if p == "complement" and len(args) == 1 and isinstance(args[0], Int) and base_tag(args[0]):
            nd, fp, c = base_tag(args[0])[2:].rsplit(":", 2)
            return Int(8, False, bits=[TOP] * 8, tags=frozenset({"base", "b:%s:%s:%d" % (nd, fp, 1 - int(c))}))
        if tr == "Mer" and name == "rc":
            k = recv(it, args[0])
            if kid(k):
                return kmer_v(kid(k)[0], not kid(k)[1])
        if name == "clone" and tr.endswith("Clone"):
            return recv(it, args[0])
        if tr == "Kmer" and name == "is_palindrome" and args and kid(recv(it, args[0])):
            # a fact about the data: both answers are explored (the reverse complement of a palindrome is the same k-mer)
            return mkbool(self.choose("pal:%s" % kid(recv(it, args[0]))[0], (False, True)))
        if name == "get_kmer_data":
            k = recv(it, args[1])
            if kid(k) is None:
                raise Undecided("data look-up of unknown k-mer %r" % (k,))
            if kid(k)[1]:
                self.log.append(("lookup-of-rc", kid(k)))
            return Tup([self.exts_ref(kid(k)[0]), self.data_ref(kid(k)[0])])
        if name == "get_kmer_id":
            k = recv(it, args[1])
            if kid(k) is None:
                raise Undecided("id look-up of unknown k-mer %r" % (k,))
            return some(Int(64, False, bits=[TOP] * 64, tags=frozenset({"id:" + kid(k)[0]})))
        if name == "reduce" and "CompressionSpec" in tr:
            acc = recv(it, args[1])
            d = recv(it, args[2])
            fa = acc.info.get("fold") if isinstance(acc, Opaque) else None
            fd = d.info.get("fold") if isinstance(d, Opaque) else None
            if fa is None or fd is None:
                raise Undecided("reduce on unknown payloads %r %r" % (acc, d))
            return Opaque("D", {"data"}, {"fold": tuple(fa) + tuple(fd)})
        if name in ("eq", "ne") and tr.endswith("PartialEq") and len(args) == 2:
            # is a table entry's extension set empty?  a fact about the data: both answers are explored
            a, b = recv(it, args[0]), recv(it, args[1])
            if isinstance(a, Opaque) and isinstance(b, Opaque) and "fold" in a.info and "fold" in b.info:
                # equality of two payloads (the caller's type): a fact about the data — the same value is equal to itself, any two
                # different (partial) folds may or may not be equal
                if tuple(a.info["fold"]) == tuple(b.info["fold"]):
                    same = True
                else:
                    nm_ = "payload(%s)==payload(%s)" % tuple(sorted(["+".join(map(str, a.info["fold"])), "+".join(map(str, b.info["fold"]))]))
                    same = self.choose(nm_, (False, True))
                return mkbool(same if name == "eq" else not same)
            for x, y in ((a, b), (b, a)):
                if isinstance(x, Opaque) and "exts_of" in x.info and isinstance(y, Adt) and y.name == EXTS and isinstance(y.fields[0], Int) and y.fields[0].is_conc() \
                        and y.fields[0].val == 0:
                    empty = self.choose("exts-of-%s-empty" % x.info["exts_of"], (False, True))
                    return mkbool(empty if name == "eq" else not empty)
        if (p.startswith("Exts::") and name in ("is_empty",)) and args and isinstance(recv(it, args[0]), Opaque) and "exts_of" in recv(it, args[0]).info:
            return mkbool(self.choose("exts-of-%s-empty" % recv(it, args[0]).info["exts_of"], (False, True)))
        if p.endswith("BitSet::remove") or (name == "remove" and "bit_set" in p):
            i = self.id_of(args[1])
            if i is None and isinstance(args[1], Int) and args[1].is_conc():
                i = "#%d" % args[1].val
            self.removed.append(i)
            self.log.append(("remove", i))
            return mkbool(True)
        return NotImplemented


# =========================================================================== extenders

class ExtenderOracles(WalkOracles):
    def __init__(self, script, step_path, graph_route):
        WalkOracles.__init__(self, script)
        self.step_path = step_path
        self.graph_route = graph_route
        self.n_unique = 0

    def on_call(self, it, fn, args, dest_ty, term, caller):
        p = fn.get("rpath") or fn.get("path", "")
        if p == self.step_path or fn.get("path") == self.step_path:
            cur = recv(it, args[1])
            d = dir_of(args[2])
            ident = (self.id_of(cur) if self.graph_route else (kid(cur)[0] if kid(cur) else None))
            self.step_calls.append((ident, d, tuple(self.removed)))
            more = self.n_unique < 2 and self.choose("step%d" % self.n_unique, ("terminal", "unique"))
            if more == "unique":
                i = self.n_unique
                self.n_unique += 1
                nd = self.choose("dir%d" % i, (LEFT, RIGHT))
                if self.graph_route:
                    nxt = Int(64, False, bits=[TOP] * 64, tags=frozenset({"id:p%d" % i}))
                    return Adt("compression::ExtModeNode", 0, [nxt, dir_v(nd), exts_sym("u%d" % i)])
                return Adt("compression::ExtMode", 0, [kmer_v("p%d" % i), dir_v(nd), exts_sym("u%d" % i)])
            adt = "compression::ExtModeNode" if self.graph_route else "compression::ExtMode"
            return Adt(adt, 1, [exts_sym("final")])
        if self.len_offset and fn.get("path", "").split("::")[-1] == "len" and fn.get("path", "").startswith("std::vec::Vec") and len(args) == 1 \
                and isinstance(recv(it, args[0]), VecV):
            # a long walk, told from its end: the path already holds `len_offset` earlier elements (elided), then the scripted steps
            return Int(64, False, val=len(recv(it, args[0]).elems) + self.len_offset)
        r = self.common(it, fn, args, dest_ty, term, caller)
        return r

    len_offset = 0


class _Probe:
    """a throw-away report: what would the table say?"""
    tier = "quick"

    def __init__(self):
        self.evaluations = 0
        self.res = []

    def holds(self, *a, **k):
        self.res.append("holds")

    def violated(self, *a, **k):
        self.res.append("violated")

    def inconclusive(self, *a, **k):
        self.res.append("inconclusive")

    def floor(self, *a, **k):
        pass


def driver_preclaims(F, graph_route):
    """does the DRIVER of the route take the seed out of the availability set itself, right before it has the node built?  (On the pinned
    tree the growth function does that; the chain tables then start with the seed already claimed.)"""
    cache = getattr(F, "_driver_preclaims", None)
    if cache is None:
        cache = F._driver_preclaims = {}
    if graph_route in cache:
        return cache[graph_route]
    res = False
    try:
        step, ext, builder, body = find_builder(F, graph_route)
        h = DriverOracles((), builder["path"], graph_route, step["path"])
        it = Interp(F, False, h)
        if graph_route:
            it.call_body(body, [mkbool(False), Ref(Cell(Opaque("S", {"spec"}))), Opaque("DebruijnGraph", {"old-graph"}), Adt("std::option::Option", 0, [])])
        else:
            it.call_body(body, [mkbool(False), Ref(Cell(Opaque("S", {"spec"}))), Ref(Cell(Opaque("index", {"index"})))])
        builds = [e for e in h.events if e[0] == "build"]
        res = bool(builds) and getattr(h, "preclaims", 0) == len(builds)
    except Exception:
        res = False
    cache[graph_route] = res
    return res


def chain_status(F, graph_route):
    cache = getattr(F, "_chain_status", None)
    if cache is None:
        cache = F._chain_status = {}
    if graph_route not in cache:
        pr = _Probe()
        try:
            (graph_chain_table if graph_route else kmer_chain_table)(F, pr, "probe")
        except Exception:
            pr.res.append("inconclusive")
        cache[graph_route] = "violated" if "violated" in pr.res else ("inconclusive" if ("inconclusive" in pr.res or not pr.res) else "holds")
    return cache[graph_route]


def extender_table(F, rep, rule, graph_route):
    """the growth loop: typestate of the availability set, advance of (current, dir), path contents, exit only on Terminal"""
    suffix = "compression::ExtModeNode" if graph_route else "compression::ExtMode"
    label = "graph route" if graph_route else "k-mer route"
    try:
        step = find_step(F, suffix)
    except Unsupported as e:
        rep.inconclusive(rule, "extender", str(e))
        return
    # extender = the named function that calls the step function (directly, in a loop, or from a closure it hands to an iterator)
    cands = pick_extender(F, attributed_callers(F, step["path"]))
    if len(cands) != 1:
        rep.inconclusive(rule, "extender", "role discovery: expected one function calling the %s step function, found %d" % (label, len(cands)))
        return
    body = cands[0]
    adt_path = C.adt_name(F, body["locals"][1])
    key0 = "%s-extender(%s)" % ("graph" if graph_route else "kmer", body["path"].split("::")[-1])
    problems = []
    avail_problems = []
    n_rows = 0
    for start in (LEFT, RIGHT):
        def mk(script):
            return ExtenderOracles(script, step["path"], graph_route)

        def run(h, start=start):
            it = Interp(F, False, h)
            fields = {"stranded": mkbool(False), "spec": Ref(Cell(Opaque("S", {"spec"}))),
                      "available_kmers": Opaque("bit_set::BitSet", {"available"}),
                      "available_nodes": Opaque("bit_set::BitSet", {"available"}),
                      "index": Ref(Cell(Opaque("index", {"index"}))), "graph": Ref(Cell(Opaque("graph", {"graph"})))}
            a = F.adts[adt_path]["variants"][0]["fields"]
            me = struct_of(F, adt_path, {f["name"]: fields[f["name"]] for f in a if f["name"] in fields})
            if graph_route:
                args = [Ref(Cell(me, "self")), Int(64, False, bits=[TOP] * 64, tags=frozenset({"id:seed"})), dir_v(start)]
                r = it.call_body(body, args)
                if not isinstance(r, Tup) or len(r.fields) != 2:
                    raise Unsupported("extender result shape %r" % (r,))
                pv, ex = r.fields
            else:
                junk = Tup([kmer_v("junk"), dir_v(LEFT)])
                pcell = Cell(VecV([junk]), "path")
                args = [Ref(Cell(me, "self")), kmer_v("seed"), dir_v(start), Ref(pcell)]
                ex = it.call_body(body, args)
                pv = pcell.v
            return (pv, ex)
        leaves = explore(mk, run)
        for a, out, h in leaves:
            n_rows += 1
            rep.evaluations += 1
            row = {k: v for k, v in a.items()}
            if isinstance(out, tuple) and out and out[0] == "inconclusive":
                rep.inconclusive(rule, key0 + "/row%d" % n_rows, "%s growth loop: %s (row %s)" % (label, out[1], row))
                continue
            if isinstance(out, tuple) and out and out[0] == "diverge":
                problems.append(("the loop diverges: %s" % out[1], row))
                continue
            pv, ex = out
            nu = h.n_unique
            # expected sequence of step calls
            want_calls = [("seed", start)]
            for i in range(nu):
                d_i = a["dir%d" % i]
                want_calls.append(("p%d" % i, d_i))
            got_calls = [(c[0], c[1]) for c in h.step_calls]
            if not got_calls and a.get("exts-of-seed-empty") and not graph_route:
                # a seed without any extension: the step function would report Terminal(no extensions) — not asking it is equivalent, provided
                # the seed is still claimed, the path comes back empty and no extensions are reported
                elems = list(pv.elems) if isinstance(pv, VecV) else None
                ev = ex.fields[0] if isinstance(ex, Adt) and ex.name == EXTS else None
                if "seed" not in h.removed:
                    avail_problems.append(("a seed without extensions is returned without being removed from the availability set", row))
                if elems is None or len(elems) != 0:
                    problems.append(("for a seed without extensions the walk returns early and leaves %s stale entr%s of the previous walk in the shared path "
                                     "buffer: the node builder appends them to this node" % (len(elems) if elems is not None else "?", "y" if elems and len(elems) == 1 else "ies"), row))
                elif not (isinstance(ev, Int) and ev.is_conc() and ev.val == 0):
                    problems.append(("for a seed without extensions the walk reports terminal extensions %r" % (ev,), row))
                continue
            if got_calls != want_calls:
                problems.append(("the step function is consulted for %s, the walk requires %s (current element and direction must advance to the "
                                 "step's result)" % (got_calls, want_calls), row))
                continue
            for i, c in enumerate(h.step_calls):
                need = ["seed"] + ["p%d" % j for j in range(i)]
                missing = [x for x in need if x not in c[2]]
                if missing:
                    avail_problems.append(("when the step function is consulted for the %s element, %s %s already placed but still marked available "
                                           "(a placed element that stays available can be entered again)" % (
                                               ["first", "second", "third"][i], missing, "is" if len(missing) == 1 else "are"), row))
                    break
            if True:
                # after the loop everything placed is removed
                need = ["seed"] + ["p%d" % j for j in range(nu)]
                missing = [x for x in need if x not in h.removed]
                if missing:
                    avail_problems.append(("%s placed but never removed from the availability set" % missing, row))
                # path contents
                elems = list(pv.elems) if isinstance(pv, VecV) else None
                if elems is None or len(elems) != nu:
                    problems.append(("the returned path has %s entries after %d accepted steps" % (len(elems) if elems is not None else "?", nu), row))
                else:
                    for i, e in enumerate(elems):
                        kk, dd = e.fields
                        ident = h.id_of(kk) if graph_route else (kid(kk)[0] if kid(kk) else None)
                        # (which direction an entry records, and in which orientation the terminal extensions are handed back, is private
                        # to the growth function and the node builder: the builder tables decide both on the composed pair)
                        if ident != "p%d" % i:
                            problems.append(("path entry %d is %s; the walk accepted %s there" % (i, ident, "p%d" % i), row))
                            break
                # terminal extensions: those of the terminating step, as reported or with the two strands swapped (complemented)
                ev = ex.fields[0] if isinstance(ex, Adt) and ex.name == EXTS else None
                fb = [var("final", i) for i in range(4)]
                ok_bits = ([fb + [ZERO] * 4, [ZERO] * 4 + fb, fb[::-1] + [ZERO] * 4, [ZERO] * 4 + fb[::-1]])
                got_bits = list(ev.getbits()) if isinstance(ev, Int) else None
                if got_bits is not None and all(b is not TOP for b in got_bits) and got_bits not in ok_bits:
                    problems.append(("the returned terminal extensions are not those reported by the terminating step", row))
    # ---- long walks: one short of / at every size constant the growth function mentions, the path is taken to hold that many earlier
    # elements already (their identities do not matter to the loop); whatever the function does at such a size — cut the line, hand the rest to
    # a later seed — an element taken out of the availability set must be in the path, and the other way round
    from .dt_graph import size_thresholds
    for c in size_thresholds(F, body, lo=15)[-2:]:
        for off in (c - 1, c):
            def mk2(script, off=off):
                h = ExtenderOracles(script, step["path"], graph_route)
                h.len_offset = off
                return h
            for a, out, h in explore(mk2, lambda h: run(h, LEFT)):
                n_rows += 1
                rep.evaluations += 1
                row = dict(a, earlier_elements=off)
                if isinstance(out, tuple) and out and out[0] in ("inconclusive", "diverge"):
                    continue
                pv, ex = out
                elems = list(pv.elems) if isinstance(pv, VecV) else None
                if elems is None:
                    continue
                placed = [(h.id_of(e.fields[0]) if graph_route else (kid(e.fields[0])[0] if kid(e.fields[0]) else None)) for e in elems if isinstance(e, Tup)]
                lost = [x for x in h.removed if x != "seed" and x not in placed]
                kept = [x for x in placed if x not in h.removed]
                if lost:
                    problems.append(("on a walk that already holds %d elements, %s %s taken out of the availability set but not placed in the path: "
                                     "no node will ever contain %s" % (off, lost, "is" if len(lost) == 1 else "are", "it" if len(lost) == 1 else "them"), row))
                elif kept:
                    avail_problems.append(("on a walk that already holds %d elements, %s placed in the path but left available (a second node can take it again)" % (off, kept), row))
    # WHO takes a placed element out of the availability set, and when, is private to the three functions of the route (the growth function
    # here; the step function or the node builder after a refactoring): this table only sees the growth function's share.  What must hold —
    # no walk ever enters an element that is already placed — is decided end to end by the chain table of the route (rings and hairpins are
    # where it matters).  The observations made here count only if that table does not hold.
    if avail_problems and not problems:
        st = chain_status(F, graph_route)
        msg, row = avail_problems[0]
        if st == "violated":
            problems.append((msg, row))
        elif st != "holds":
            rep.inconclusive(rule, key0 + "/availability", "%s growth loop (%s): %s — and the end-to-end table of the route is not conclusive  [scripted steps %s]" % (
                label, body["path"].split("::")[-1], msg, row))
            return body
    if problems:
        msg, row = problems[0]
        rep.violated(rule, key0, "%s growth loop (%s): %s  [scripted steps %s]" % (label, body["path"].split("::")[-1], msg, row),
                     witness={"kind": "row", "row": {k: str(v) for k, v in row.items()}, "problem": msg, "count": len(problems)},
                     site=F.site(body, body["line"]))
    else:
        rep.holds(rule, key0, "%s growth loop: on all %d scripted walks (0–2 accepted steps, both directions) every placed element is removed "
                  "from the availability set before the next step is consulted, (current, dir) advance to the step's result, the path "
                  "lists the accepted elements in order, the loop ends only on Terminal and returns its extensions" % (label, n_rows),
                  sample={"walks": n_rows})
    return body


# =========================================================================== node builders

def outer_fn(F, body):
    """the named function a (possibly nested) closure body belongs to"""
    p_ = body["path"]
    while "::{closure" in p_:
        p_ = p_[:p_.rindex("::{closure")]
    return F.fns.get(p_, body)


def attributed_callers(F, callee_path, exclude=()):
    """named functions that call `callee_path` themselves or from one of their closures (however the call is wrapped: loop, iterator
    adapter, iter::from_fn, helper closure)"""
    out = {}
    for b in F.fns.values():
        if b.get("derived"):
            continue
        for bb in b["blocks"]:
            t = bb["t"]
            if t.get("k") == "call":
                fr = t["f"].get("const", {}).get("fn") if "const" in t["f"] else None
                if fr and (fr.get("rpath") == callee_path or fr.get("path") == callee_path):
                    o = outer_fn(F, b)
                    if o["path"] not in exclude and o["path"] != callee_path:
                        out[o["path"]] = o
                    break
    return list(out.values())


def pick_extender(F, cands):
    """several named functions call the step function: the growth function is the one that returns the extensions at the end of the
    line it has built (an `Exts`); helpers that merely ask the step function a question (bool / enum results) are not it"""
    if len(cands) <= 1:
        return cands
    ex = [c for c in cands if c.get("locals") and str(c["locals"][0].get("ty", "") if isinstance(c["locals"][0], dict) else c["locals"][0]).split("::")[-1] == "Exts"]
    return ex if len(ex) == 1 else cands


def find_extender(F, graph_route):
    """the growth function: the one named function that calls the step function (role discovery; an undetermined role is reported as
    INCONCLUSIVE by the callers, never as a violation)"""
    suffix = "compression::ExtModeNode" if graph_route else "compression::ExtMode"
    step = find_step(F, suffix)
    cands = pick_extender(F, attributed_callers(F, step["path"]))
    if len(cands) != 1:
        raise Unsupported("role discovery: expected one function calling the %s step function, found %d" % ("graph route" if graph_route else "k-mer route", len(cands)))
    return step, cands[0]


def reaches_fn(F, body, target, _seen=None):
    seen = _seen if _seen is not None else set()
    st = [body["path"]]
    while st:
        p = st.pop()
        if p in seen:
            continue
        seen.add(p)
        b = F.fns.get(p)
        if not b:
            continue
        for bb in b["blocks"]:
            t = bb["t"]
            if t.get("k") == "call" and "const" in t["f"] and "fn" in t["f"]["const"]:
                fr = t["f"]["const"]["fn"]
                for q in (fr.get("rpath"), fr.get("path")):
                    if q == target:
                        return True
                    if q and q in F.fns and q not in seen:
                        st.append(q)
    return False


def find_callers(F, callee_path, exclude=()):
    return attributed_callers(F, callee_path, exclude)


class ScriptedWalks:
    """The builder tables run the node builder TOGETHER WITH the growth function it calls (how the two talk to each other — what a path
    entry's direction means, who complements the terminal extensions — is private to them); only the step function is scripted.  A walk
    starts when the step function is asked about the seed; walk `l` / `r` (by the direction asked) accepts n_l / n_r further elements
    `l0, l1` / `r0, r1`, each with a scripted orientation, and then ends with the terminal extensions `lext` / `rext`."""

    def walk_step(self, ident, d):
        """-> ('unique', i, walk) / ('terminal', walk)"""
        if ident == "seed":
            self.walk = "l" if d == LEFT else "r"
            self.walk_i = 0
            self.ext_calls.append(((("seed", False) if not self.graph_route else "seed"), d))
        w = getattr(self, "walk", None)
        if w is None:
            raise Undecided("the step function is consulted for %r before any walk started from the seed" % (ident,))
        n = self.choose("n_" + w, (0, 1, 2))
        if self.walk_i < n:
            i = self.walk_i
            self.walk_i += 1
            return ("unique", i, w)
        return ("terminal", w)


class HashBuilderOracles(WalkOracles, ScriptedWalks):
    graph_route = False

    def __init__(self, script, K, step_path):
        WalkOracles.__init__(self, script, K)
        self.step_path = step_path
        self.ext_calls = []

    def on_call(self, it, fn, args, dest_ty, term, caller):
        p = fn.get("rpath") or fn.get("path", "")
        name = fn.get("path", "").split("::")[-1]
        if (p == self.step_path or fn.get("path") == self.step_path) and len(args) == 3:
            k = recv(it, args[1])
            d = dir_of(args[2])
            if d is None or kid(k) is None:
                raise Undecided("step function consulted with an undetermined k-mer / direction")
            r = self.walk_step(kid(k)[0], d)
            if r[0] == "unique":
                _, i, w = r
                ed = self.choose("d_%s%d" % (w, i), (LEFT, RIGHT))
                return Adt("compression::ExtMode", 0, [kmer_v("%s%d" % (w, i)), dir_v(ed), exts_sym("u%s%d" % (w, i))])
            return Adt("compression::ExtMode", 1, [exts_sym(r[1] + "ext")])
        if name == "get_key" and "BoomHashMap" in fn.get("path", ""):
            return some(Ref(Cell(kmer_v("seed"), "seed")))
        return self.common(it, fn, args, dest_ty, term, caller)


def base_tag(v):
    for t in tags_of(v):
        if t.startswith("b:"):
            return t
    return None


def norm_base(kmer, rc, idx, K):
    """a base of a k-mer in normal form (k-mer, position in the stored k-mer, complemented?): position i of the reverse complement is the
    complement of stored position K-1-i — whether the code reads it from rc() or computes it by hand"""
    return "b:%s:%d:%d" % (kmer, (K - 1 - idx) if rc else idx, 1 if rc else 0)


def hash_builder_table(F, rep, rule):
    """B.5 (k-mer route): one base and one payload fold per placed k-mer, orientation, deque end, terminal complement"""
    try:
        step, ext = find_extender(F, False)
        builders = find_callers(F, ext["path"], exclude=(ext["path"],))
    except Unsupported as e:
        rep.inconclusive(rule, "kmer-builder", str(e))
        return
    if len(builders) != 1:
        rep.inconclusive(rule, "kmer-builder", "role discovery: expected one caller of the growth function, found %d" % len(builders))
        return
    body = builders[0]
    adt_path = C.adt_name(F, body["locals"][1])
    key0 = "kmer-builder(%s)" % body["path"].split("::")[-1]
    problems = []
    rows = 0
    for K, stranded in ((3, False), (5, False), (3, True)):
        def mk(script, K=K):
            return HashBuilderOracles(script, K, step["path"])

        def run(h, stranded=stranded):
            it = Interp(F, False, h)
            me = struct_of(F, adt_path, {"stranded": mkbool(stranded), "spec": Ref(Cell(Opaque("S", {"spec"}))),
                                         "available_kmers": Opaque("bit_set::BitSet", {"available"}),
                                         "index": Ref(Cell(Opaque("index", {"index"})))})
            pcell = Cell(VecV([]), "path")
            ecell = Cell(DequeV([Int(8, False, val=9)]), "edge_seq")
            r = it.call_body(body, [Ref(Cell(me, "self")), Int(64, False, bits=[TOP] * 64, tags=frozenset({"id:seed"})),
                                    Ref(pcell), Ref(ecell)])
            return (r, ecell.v)
        for a, out, h in explore(mk, run):
            rows += 1
            rep.evaluations += 1
            row = dict(a, stranded=stranded)
            if isinstance(out, tuple) and out and out[0] == "inconclusive":
                rep.inconclusive(rule, key0 + "/row%d" % rows, "node builder: %s (row %s)" % (out[1], row))
                continue
            if not stranded and any(k_.startswith("pal:") and v_ for k_, v_ in a.items()):
                # unstranded, and the builder itself asked whether a k-mer is a palindrome and was told yes: what it may then skip (a palindrome
                # ends the line on both sides) is the step rule's business; the stranded rows — where palindromes mean nothing — judge it
                continue
            if isinstance(out, tuple) and out and out[0] == "diverge":
                problems.append(("the builder diverges: %s" % out[1], row))
                continue
            r, dq = out
            calls = sorted(h.ext_calls, key=lambda c: (c[1] is None, c[1]))
            if calls != [(("seed", False), LEFT), (("seed", False), RIGHT)]:
                problems.append(("the growth loop must be run exactly once to the Left and once to the Right from the seed; calls were %s" % (h.ext_calls,), row))
                continue
            nl, nr = a.get("n_l", 0), a.get("n_r", 0)
            if any(("d_l%d" % i) not in a for i in range(nl)) or any(("d_r%d" % i) not in a for i in range(nr)):
                rep.inconclusive(rule, key0 + "/row%d" % rows, "node builder: the step function was not consulted in the order the scripted walks assume (row %s)" % (row,))
                continue
            want_seq = []
            for i in reversed(range(nl)):
                d = a["d_l%d" % i]
                want_seq.append(norm_base("l%d" % i, d != LEFT, 0, K))
            for i in range(K):
                want_seq.append(norm_base("seed", False, i, K))
            for i in range(nr):
                d = a["d_r%d" % i]
                want_seq.append(norm_base("r%d" % i, d != RIGHT, K - 1, K))
            got_seq = [base_tag(e) for e in dq.elems] if isinstance(dq, DequeV) else None
            if got_seq is None or any(x is None for x in got_seq):
                rep.inconclusive(rule, key0 + "/row%d" % rows, "node builder: a base of the assembled sequence could not be traced to a k-mer position (%s) (row %s)" % (got_seq, row))
                continue
            if got_seq != want_seq:
                problems.append(("the assembled node sequence is %s; one base per placed k-mer in walk order requires %s "
                                 "(b:<k-mer>:<stored position>:<complemented>)" % (got_seq, want_seq), row))
                continue
            if not (isinstance(r, Tup) and len(r.fields) == 2):
                # the builder's result type is private to the route: another shape is not a wrong value
                rep.inconclusive(rule, key0 + "/row%d" % rows, "node builder: result shape %r — not the (extensions, payload) pair this table reads" % (r,))
                return
            ex, data = r.fields
            fold = data.info.get("fold") if isinstance(data, Opaque) else None
            want_fold = ["seed"] + ["l%d" % i for i in range(nl)] + ["r%d" % i for i in range(nr)]
            if fold is None or fold[0] != "seed" or sorted(fold) != sorted(want_fold):
                problems.append(("the payload is folded over %s; the node contains exactly %s" % (fold, want_fold), row))
                continue
            lcomp = nl > 0 and a["d_l%d" % (nl - 1)] != LEFT
            rcomp = nr > 0 and a["d_r%d" % (nr - 1)] != RIGHT
            want_bits = nibble_bits("lext", lcomp) + nibble_bits("rext", rcomp)
            ev = ex.fields[0] if isinstance(ex, Adt) and ex.name == EXTS else None
            if not (isinstance(ev, Int) and list(ev.getbits()) == want_bits):
                problems.append(("the node's extensions are %r; required: left nibble = left walk's terminal extensions%s, right nibble = right walk's%s" % (
                    ev, " complemented" if lcomp else "", " complemented" if rcomp else ""), row))
                continue
            if h.log and any(e[0] == "lookup-of-rc" for e in h.log):
                problems.append(("a payload is looked up by the reverse complement of a path k-mer (not a key of the index)", row))
    if problems:
        msg, row = problems[0]
        rep.violated(rule, key0, "k-mer route node builder (%s): %s  [walks %s]" % (body["path"].split("::")[-1], msg, row),
                     witness={"kind": "row", "row": {k: str(v) for k, v in row.items()}, "problem": msg, "count": len(problems)},
                     site=F.site(body, body["line"]))
    else:
        rep.holds(rule, key0, "k-mer route node builder: on all %d scripted walk pairs (0–2 entries each side, every orientation, K=3 and 5) the sequence "
                  "gets exactly one correctly oriented base per placed k-mer at the correct end, the payload is folded once per k-mer, and the "
                  "terminal extensions are complemented exactly when the last entry is reversed" % rows, sample={"walk_pairs": rows})


class GraphBuilderOracles(WalkOracles, ScriptedWalks):
    graph_route = True

    def __init__(self, script, step_path):
        WalkOracles.__init__(self, script)
        self.step_path = step_path
        self.ext_calls = []
        self.seq_path = None

    def on_call(self, it, fn, args, dest_ty, term, caller):
        p = fn.get("rpath") or fn.get("path", "")
        path = fn.get("path", "")
        name = path.split("::")[-1]
        if (p == self.step_path or path == self.step_path) and len(args) == 3:
            d = dir_of(args[2])
            ident = self.id_of(args[1])
            if d is None or ident is None:
                raise Undecided("step function consulted with an undetermined node / direction")
            r = self.walk_step(ident, d)
            if r[0] == "unique":
                _, i, w = r
                # a_<w><i>: the side through which the accepted node is ENTERED; the step function reports the side the walk goes on from
                ea = self.choose("a_%s%d" % (w, i), (LEFT, RIGHT))
                return Adt("compression::ExtModeNode", 0, [Int(64, False, bits=[TOP] * 64, tags=frozenset({"id:%s%d" % (w, i)})), dir_v(flip(ea)),
                                                          exts_sym("u%s%d" % (w, i))])
            return Adt("compression::ExtModeNode", 1, [exts_sym(r[1] + "ext")])
        if path.startswith("graph::Node::<") and name == "data":
            n = recv(it, args[0])
            nid = self.id_of(n.fields[0]) if isinstance(n, Adt) else None
            if nid is None:
                raise Undecided("payload of an unknown node")
            return self.data_ref(nid)
        if name == "sequence_of_path":
            itv = args[1]
            if isinstance(itv, IterV) and itv.kind == "deque":
                dq = it.read(itv.a[0].cell, itv.a[0].path)
                self.seq_path = [(self.id_of(e.fields[0]), dir_of(e.fields[1])) for e in dq.elems]
            elif isinstance(itv, IterV):
                from .models import drain_iter
                items = drain_iter(it, itv, term, caller)
                if items is not None:
                    vals = [deref_val(it, e) for e in items]
                    if all(isinstance(e, Tup) and len(e.fields) == 2 for e in vals):
                        self.seq_path = [(self.id_of(e.fields[0]), dir_of(e.fields[1])) for e in vals]
            return Opaque("DnaString", {"path-seq"})
        return self.common(it, fn, args, dest_ty, term, caller)


def graph_builder_table(F, rep, rule):
    try:
        step, ext = find_extender(F, True)
        builders = find_callers(F, ext["path"], exclude=(ext["path"],))
    except Unsupported as e:
        rep.inconclusive(rule, "graph-builder", str(e))
        return
    if len(builders) != 1:
        rep.inconclusive(rule, "graph-builder", "role discovery: expected one caller of the graph growth function, found %d" % len(builders))
        return
    body = builders[0]
    adt_path = C.adt_name(F, body["locals"][1])
    key0 = "graph-builder(%s)" % body["path"].split("::")[-1]
    problems = []
    rows = 0

    def mk(script):
        return GraphBuilderOracles(script, step["path"])

    def run(h):
        it = Interp(F, False, h)
        me = struct_of(F, adt_path, {"stranded": mkbool(False), "spec": Ref(Cell(Opaque("S", {"spec"}))),
                                     "available_nodes": Opaque("bit_set::BitSet", {"available"}),
                                     "graph": Ref(Cell(Opaque("graph", {"graph"})))})
        return it.call_body(body, [Ref(Cell(me, "self")), Int(64, False, bits=[TOP] * 64, tags=frozenset({"id:seed"}))])
    for a, out, h in explore(mk, run):
        rows += 1
        rep.evaluations += 1
        row = dict(a)
        if isinstance(out, tuple) and out and out[0] == "inconclusive":
            rep.inconclusive(rule, key0 + "/row%d" % rows, "graph node builder: %s (row %s)" % (out[1], row))
            continue
        if isinstance(out, tuple) and out and out[0] == "diverge":
            problems.append(("the builder diverges: %s" % out[1], row))
            continue
        calls = sorted(h.ext_calls, key=lambda c: (c[1] is None, c[1]))
        if calls != [("seed", LEFT), ("seed", RIGHT)]:
            problems.append(("the growth loop must be run once to the Left and once to the Right from the seed node; calls were %s" % (h.ext_calls,), row))
            continue
        nl, nr = a.get("n_l", 0), a.get("n_r", 0)
        want_path = [("l%d" % i, flip(a["a_l%d" % i])) for i in reversed(range(nl))] + [("seed", LEFT)] +                     [("r%d" % i, a["a_r%d" % i]) for i in range(nr)]
        if h.seq_path != want_path:
            problems.append(("the node path handed to sequence_of_path is %s; the walks require %s (entries reached through their Left side on the "
                             "left walk are flipped; (node, orientation) with Left = as stored)" % (h.seq_path, want_path), row))
            continue
        if not (isinstance(out, Tup) and len(out.fields) == 4):
            # the builder's result type is private to the route: another shape is not a wrong value
            rep.inconclusive(rule, key0 + "/row%d" % rows, "graph node builder: result shape %r — not the (sequence, extensions, path, payload) tuple this table reads" % (out,))
            return
        seq, ex, npath, data = out.fields
        if "path-seq" not in tags_of(seq):
            problems.append(("the returned sequence is not the one spelled by sequence_of_path over the assembled node path", row))
            continue
        fold = data.info.get("fold") if isinstance(data, Opaque) else None
        want_fold = ["seed"] + ["l%d" % i for i in range(nl)] + ["r%d" % i for i in range(nr)]
        if fold is None or fold[0] != "seed" or sorted(fold) != sorted(want_fold):
            problems.append(("the payload is folded over %s; the merged node contains exactly %s" % (fold, want_fold), row))
            continue
        lcomp = nl > 0 and a["a_l%d" % (nl - 1)] == LEFT
        rcomp = nr > 0 and a["a_r%d" % (nr - 1)] == RIGHT
        want_bits = nibble_bits("lext", lcomp) + nibble_bits("rext", rcomp)
        ev = ex.fields[0] if isinstance(ex, Adt) and ex.name == EXTS else None
        if not (isinstance(ev, Int) and list(ev.getbits()) == want_bits):
            problems.append(("the merged node's extensions are %r; required: left nibble = left walk's terminal extensions%s, right nibble = right "
                             "walk's%s (complemented exactly when the last node was entered through the side being walked towards)" % (
                                 ev, " complemented" if lcomp else "", " complemented" if rcomp else ""), row))
    if problems:
        msg, row = problems[0]
        rep.violated(rule, key0, "graph route node builder (%s): %s  [walks %s]" % (body["path"].split("::")[-1], msg, row),
                     witness={"kind": "row", "row": {k: str(v) for k, v in row.items()}, "problem": msg, "count": len(problems)},
                     site=F.site(body, body["line"]))
    else:
        rep.holds(rule, key0, "graph route node builder: on all %d scripted walk pairs the node path, payload fold and terminal-extension "
                  "complements are the specified ones" % rows, sample={"walk_pairs": rows})



# =========================================================================== the graph route end to end on scripted chains

class ChainOracles(WalkOracles):
    """A small finished graph, scripted: nodes in a line  l1 - l0 - seed - r0 - r1  (n_l, n_r in 0..2 are oracles), every node stored either
    in line orientation or reverse-complemented (oracle per node), 0 or 2 extensions leaving each end of the line (oracle), no palindromes,
    every join accepted.  NOTHING of the graph route is scripted: the node builder, the growth function and the step function are all
    interpreted, and only their questions to the graph / the availability set / the caller's spec are answered from the model — so whatever
    the three private functions pass to each other, the result is judged against the line."""

    def __init__(self, script, stranded, preclaimed=False):
        WalkOracles.__init__(self, script)
        self.stranded = stranded
        self.joins = []
        self.seq_path = None
        self.line = None
        if preclaimed:
            self.removed.append("seed")       # the driver has claimed the seed before it calls the builder

    def setup(self):
        if self.line is None:
            nl = self.choose("n_l", (0, 1, 2))
            nr = self.choose("n_r", (0, 1, 2))
            self.line = ["l%d" % i for i in reversed(range(nl))] + ["seed"] + ["r%d" % i for i in range(nr)]
            self.fwd = {"seed": True}
            for x in self.line:
                if x != "seed":
                    self.fwd[x] = True if self.stranded else self.choose("fwd_" + x, (True, False))
            # the line may be closed into a ring (an isolated cycle: it is cut at the seed); otherwise each end is open (no extension leaves
            # it), branching (two leave it) or — unstranded only — a hairpin: its one extension leads back into the same element through the
            # same side (the element's reverse complement follows it).  Rings and hairpins are where a walk meets an element it has already
            # placed: whoever is responsible for taking placed elements out of the availability set must have done so by then.
            self.ring = len(self.line) >= 2 and self.choose("ring", (False, True))
            # ... or — unstranded only — the end's one extension leads to a node that is a single palindromic k-mer ("pal"): every walk must stop in
            # front of it and report the extension towards it
            # ... or ("refused") to an ordinary available neighbour that the caller's join predicate refuses: the walk stops in front of it, reports
            # the extension towards it — and must leave it available (it will seed a node of its own)
            kinds = (0, 2, "refused") if self.stranded else (0, 2, "hp", "pal", "refused")
            self.ends = (0, 0) if self.ring else (self.choose("lend", kinds), self.choose("rend", kinds))
        return self.line

    # ---- geometry
    def stored_side(self, x, line_side):
        """the stored side of node x that faces the given side of the line"""
        return line_side if self.fwd[x] else flip(line_side)

    def neighbour(self, x, stored_side):
        line = self.setup()
        line_side = stored_side if self.fwd[x] else flip(stored_side)
        i = line.index(x) + (1 if line_side == RIGHT else -1)
        if self.ring:
            return line[i % len(line)]
        if 0 <= i < len(line):
            return line[i]
        if self.ends[0 if line_side == LEFT else 1] == "hp":
            return x
        if self.ends[0 if line_side == LEFT else 1] == "pal" and not str(x).startswith(("P", "Q")):
            return "PL" if line_side == LEFT else "PR"
        if self.ends[0 if line_side == LEFT else 1] == "refused" and not str(x).startswith(("P", "Q")):
            return "QL" if line_side == LEFT else "QR"
        return None

    def known(self, x):
        return x in self.setup() or x in ("PL", "PR", "QL", "QR")

    def is_hairpin(self, x, stored_side):
        line = self.setup()
        if self.ring:
            return False
        line_side = stored_side if self.fwd[x] else flip(stored_side)
        i = line.index(x) + (1 if line_side == RIGHT else -1)
        return not (0 <= i < len(line)) and self.ends[0 if line_side == LEFT else 1] == "hp"

    def exts_byte(self, x):
        line = self.setup()
        m = 0
        if str(x).startswith(("P", "Q")):
            return 0x22         # the node beyond an end (palindromic k-mer / refused neighbour): one extension on either side
        for line_side in (LEFT, RIGHT):
            sd = self.stored_side(x, line_side)
            if self.neighbour(x, sd) is not None:
                bases = (1,)
            else:
                bases = (0, 1)[:self.ends[0 if line_side == LEFT else 1]]
            for b in bases:
                m |= 1 << (b + (4 if sd == RIGHT else 0))
        return m

    def end_bits(self, x, line_side):
        """the extensions leaving element x on the given side of the line, as they appear on that side of the merged node"""
        sd = self.stored_side(x, line_side)
        bits = (self.exts_byte(x) >> (4 if sd == RIGHT else 0)) & 0xF
        return bits if self.fwd[x] else _rev4(bits)

    def expectations(self):
        """[(node path left to right, ordered join pairs that must be asked)] — every acceptable outcome — and the set of pairs that may be asked"""
        line = self.setup()
        i0 = line.index("seed")
        allowed = set()
        n = len(line)
        for i in range(n):
            for j in ((i - 1, i + 1)):
                if self.ring:
                    allowed.add(((line[i],), (line[j % n],)))
                elif 0 <= j < n:
                    allowed.add(((line[i],), (line[j],)))
            allowed.add(((line[i],), (line[i],)))
        for e_, pn in ((line[0], "PL"), (line[-1], "PR"), (line[0], "QL"), (line[-1], "QR")):
            allowed.add(((e_,), (pn,)))
        if not self.ring:
            joins = set()
            for i in range(i0, 0, -1):
                joins.add(((line[i],), (line[i - 1],)))
            for i in range(i0, n - 1):
                joins.add(((line[i],), (line[i + 1],)))
            return [(list(line), joins)], allowed
        # a ring is cut at the seed: the walk that goes first takes everything
        left_first = line[i0 + 1:] + line[:i0] + ["seed"]           # ... l1 l0 seed, read left to right, after wrapping
        right_first = ["seed"] + line[i0 + 1:] + line[:i0]
        jl = {((left_first[i],), (left_first[i - 1],)) for i in range(n - 1, 0, -1)}
        jr = {((right_first[i],), (right_first[i + 1],)) for i in range(n - 1)}
        return [(left_first, jl), (right_first, jr)], allowed

    def avail_ops(self, it, fn, args):
        """BitSet::remove / insert on the availability set, exactly: the answer says whether the element was / was not in the set"""
        path = fn.get("path", "")
        name = path.split("::")[-1]
        if name in ("remove", "insert") and (path.endswith("BitSet::" + name) or "bit_set" in path.split("<")[0]) and len(args) == 2:
            x = self.id_of(args[1])
            if x is None:
                raise Undecided("%s of an unknown element on the availability set" % name)
            was_in = x not in self.removed
            if name == "remove":
                if was_in:
                    self.removed.append(x)
                self.log.append(("remove", x))
                return mkbool(was_in)
            self.removed = [y for y in self.removed if y != x]
            self.log.append(("insert", x))
            return mkbool(not was_in)
        return NotImplemented

    def on_call(self, it, fn, args, dest_ty, term, caller):
        path = fn.get("path", "")
        name = path.split("::")[-1]
        tr = fn.get("trait", "")
        if is_print_call(fn):
            return Opaque(dest_ty, {"fmt"})
        r_ = self.avail_ops(it, fn, args)
        if r_ is not NotImplemented:
            return r_
        if path.startswith("graph::Node::<") or path.startswith("graph::Node<"):
            n = recv(it, args[0])
            x = self.id_of(n.fields[0]) if isinstance(n, Adt) and n.fields else None
            if x is None or not self.known(x):
                raise Undecided("a node that is not on the scripted line (%r)" % (n,))
            if name == "sequence":
                return Opaque("DnaStringSlice", {"seq"}, {"node": x})
            if name == "exts":
                return Adt(EXTS, 0, [Int(8, False, val=self.exts_byte(x))])
            if name == "data":
                return self.data_ref(x)
            if name == "len":
                return Int(64, False, val=self.K if str(x).startswith("P") else self.K + 2)
        if tr in ("Vmer", "Mer") and args and isinstance(recv(it, args[0]), Opaque) and "seq" in tags_of(recv(it, args[0])):
            x = recv(it, args[0]).info.get("node")
            side = None
            if name == "first_kmer":
                side = LEFT
            elif name == "last_kmer":
                side = RIGHT
            elif name == "term_kmer":
                side = dir_of(args[1])
            elif name == "get_kmer" and isinstance(args[1], Int) and args[1].is_conc():
                side = LEFT if args[1].val == 0 else (RIGHT if args[1].val == 2 else None)
            elif name == "len":
                return Int(64, False, val=self.K if str(x).startswith("P") else self.K + 2)
            if side is not None:
                return Opaque("K", {"term"}, {"node": x, "side": side})
            raise Undecided("%s on a node's sequence" % name)
        if tr == "Kmer" and name == "is_palindrome":
            k = recv(it, args[0])
            if isinstance(k, Opaque) and "next" in k.tags:
                return mkbool(str(self.neighbour(k.info["node"], k.info["side"])).startswith("P"))
            if isinstance(k, Opaque) and "term" in k.tags:
                return mkbool(str(k.info.get("node")).startswith("P"))
            return mkbool(False)
        if tr == "Kmer" and name in ("extend", "extend_left", "extend_right"):
            k = recv(it, args[0])
            d = dir_of(args[2]) if name == "extend" else (LEFT if name == "extend_left" else RIGHT)
            b = args[1].val if isinstance(args[1], Int) and args[1].is_conc() else None
            if isinstance(k, Opaque) and "term" in k.tags and d is not None and k.info.get("side") == d and b is not None \
                    and (self.exts_byte(k.info["node"]) >> (b + (4 if d == RIGHT else 0))) & 1:
                return Opaque("K", {"next"}, {"node": k.info["node"], "side": d})
            raise Undecided("a k-mer that is not (terminal k-mer of a side of a node) extended by (an extension of that side): %r + %r towards %r" % (k, args[1], d))
        if name == "find_link" and len(args) == 3:
            k = recv(it, args[1])
            d = dir_of(args[2])
            if not (isinstance(k, Opaque) and "next" in k.tags) or d is None or k.info.get("side") != d:
                raise Undecided("find_link asked about %r towards %r" % (k, d))
            x = k.info["node"]
            y = self.neighbour(x, d)
            if y is None:
                return none()
            if self.is_hairpin(x, d):
                # the element's reverse complement follows it: the link arrives at the same side it left from
                return some(Tup([Int(64, False, bits=[TOP] * 64, tags=frozenset({"id:" + x})), dir_v(d), mkbool(True)]))
            if str(y).startswith(("P", "Q")):
                return some(Tup([Int(64, False, bits=[TOP] * 64, tags=frozenset({"id:" + y})), dir_v(flip(d)), mkbool(False)]))
            line_side = d if self.fwd[x] else flip(d)          # the side of the line the walk moves to
            s_in = self.stored_side(y, flip(line_side))
            return some(Tup([Int(64, False, bits=[TOP] * 64, tags=frozenset({"id:" + y})), dir_v(s_in), mkbool(s_in == d)]))
        if (path.endswith("BitSet::contains") or (name == "contains" and "bit_set" in path.split("<")[0])) and len(args) == 2:
            x = self.id_of(args[1])
            if x is None:
                raise Undecided("availability of an unknown node")
            return mkbool(x not in self.removed)
        if name == "join_test" and "CompressionSpec" in tr:
            a, b = recv(it, args[1]), recv(it, args[2])
            self.joins.append((a.info.get("fold") if isinstance(a, Opaque) else None, b.info.get("fold") if isinstance(b, Opaque) else None))
            refused = any(isinstance(x_, Opaque) and any(str(f_).startswith("Q") for f_ in (x_.info.get("fold") or ())) for x_ in (a, b))
            return mkbool(not refused)
        if name == "sequence_of_path":
            itv = args[1]
            vals = None
            if isinstance(itv, IterV) and itv.kind == "deque":
                vals = list(it.read(itv.a[0].cell, itv.a[0].path).elems)
            elif isinstance(itv, IterV):
                from .models import drain_iter
                items = drain_iter(it, itv, term, caller)
                if items is not None:
                    vals = [deref_val(it, e) for e in items]
            if vals is not None and all(isinstance(e, Tup) and len(e.fields) == 2 for e in vals):
                self.seq_path = [(self.id_of(e.fields[0]), dir_of(e.fields[1])) for e in vals]
            return Opaque("DnaString", {"path-seq"})
        return self.common(it, fn, args, dest_ty, term, caller)


def _rev4(m):
    return ((m & 1) << 3) | ((m & 2) << 1) | ((m & 4) >> 1) | ((m & 8) >> 3)


def graph_chain_table(F, rep, rule):
    """the graph route's node builder with its growth and step functions, all interpreted together, on scripted lines of nodes"""
    try:
        step, ext = find_extender(F, True)
        builders = find_callers(F, ext["path"], exclude=(ext["path"],))
    except Unsupported as e:
        rep.inconclusive(rule, "graph-chain", str(e))
        return
    if len(builders) != 1:
        rep.inconclusive(rule, "graph-chain", "role discovery: expected one caller of the graph growth function, found %d" % len(builders))
        return
    body = builders[0]
    if body["argc"] != 2:
        rep.inconclusive(rule, "graph-chain", "the node builder does not take (self, seed node): %d parameters" % body["argc"])
        return
    adt_path = C.adt_name(F, body["locals"][1])
    key0 = "graph-chain(%s)" % body["path"].split("::")[-1]
    problems = []
    rows = 0
    for stranded in (False, True):
        def mk(script, stranded=stranded):
            return ChainOracles(script, stranded, preclaimed=driver_preclaims(F, True))

        def run(h, stranded=stranded):
            it = Interp(F, False, h)
            me = struct_of(F, adt_path, {"stranded": mkbool(stranded), "spec": Ref(Cell(Opaque("S", {"spec"}))),
                                         "available_nodes": Opaque("bit_set::BitSet", {"available"}),
                                         "graph": Ref(Cell(Opaque("graph", {"graph"})))})
            return it.call_body(body, [Ref(Cell(me, "self")), Int(64, False, bits=[TOP] * 64, tags=frozenset({"id:seed"}))])
        for a, out, h in explore(mk, run):
            rows += 1
            rep.evaluations += 1
            row = dict(a, stranded=stranded)
            if isinstance(out, tuple) and out and out[0] == "inconclusive":
                rep.inconclusive(rule, key0 + "/row%d" % rows, "graph route on a scripted line: %s (row %s)" % (out[1], row))
                return
            if isinstance(out, tuple) and out and out[0] == "diverge":
                problems.append(("the builder diverges: %s" % out[1], row))
                continue
            line = h.setup()
            outcomes, allowed = h.expectations()
            match = [(pth, jn) for (pth, jn) in outcomes if h.seq_path == [(x, LEFT if h.fwd[x] else RIGHT) for x in pth]]
            if not match:
                problems.append(("the node path handed to sequence_of_path is %s; the %s is %s ((node, Left = as stored))" % (
                    h.seq_path, "ring, cut at the seed," if h.ring else "line", " or ".join(str([(x, LEFT if h.fwd[x] else RIGHT) for x in pth]) for pth, _ in outcomes)), row))
                continue
            npth, want_joins = match[0]
            if not (want_joins <= set(h.joins) <= (want_joins | allowed)) or (not h.ring and not ({"hp", "pal", "refused"} & set(h.ends)) and set(h.joins) != want_joins):
                bad = [j for j in h.joins if j not in (want_joins | allowed)] or [j for j in want_joins if j not in h.joins] or [j for j in h.joins if j not in want_joins]
                problems.append(("the join predicate is asked about the payload pairs %s; required: once per link of the line, (payload of the node the walk stands on, "
                                 "payload of the node it wants to enter) = %s — first difference %s" % (h.joins, sorted(want_joins), bad[0]), row))
                continue
            if not (isinstance(out, Tup) and len(out.fields) == 4):
                rep.inconclusive(rule, key0 + "/row%d" % rows, "graph route on a scripted line: result shape %r" % (out,))
                return
            seq, ex, npath, data = out.fields
            fold = data.info.get("fold") if isinstance(data, Opaque) else None
            if fold is None or sorted(fold) != sorted(line):
                problems.append(("the payload is folded over %s; the merged node consists of exactly %s" % (fold, line), row))
                continue
            if sorted(set(h.removed)) != sorted(line):
                problems.append(("nodes %s are taken out of the availability set; the merged node consists of %s" % (sorted(set(h.removed), key=str), sorted(line)), row))
                continue
            ev = ex.fields[0] if isinstance(ex, Adt) and ex.name == EXTS else None
            want = h.end_bits(npth[0], LEFT) | (h.end_bits(npth[-1], RIGHT) << 4)
            if not (isinstance(ev, Int) and ev.is_conc()):
                rep.inconclusive(rule, key0 + "/row%d" % rows, "graph route on a scripted line: the merged node's extensions could not be evaluated (%r)" % (ev,))
                return
            if ev.val != want:
                problems.append(("the merged node's extensions are %s; the line's two ends give %s (the extensions leaving the line, complemented where the end "
                                 "node is stored reverse-complemented)" % (bin(ev.val), bin(want)), row))
    if problems:
        msg, row = problems[0]
        rep.violated(rule, key0, "graph route (step + growth + node builder interpreted together) on a scripted line of nodes: %s  [line %s]" % (msg, row),
                     witness={"kind": "row", "row": {k: str(v) for k, v in row.items()}, "problem": msg, "count": len(problems)},
                     site=F.site(body, body["line"]))
    else:
        rep.holds(rule, key0, "graph route end to end: on all %d scripted lines (0-2 nodes on either side of the seed, every orientation, open / branching ends, "
                  "stranded and not) the merged node is the whole line, the join predicate is asked exactly about the payloads of the two linked nodes, and the "
                  "terminal extensions are those of the line's ends" % rows, sample={"lines": rows})


class KmerChainOracles(ChainOracles):
    """the same scripted line, for the k-mer route: the elements are the keys of the index, each stored in line orientation or
    reverse-complemented (unstranded only: the canonical form decides), the step function's neighbour is the stored key or its reverse
    complement accordingly"""

    def on_call(self, it, fn, args, dest_ty, term, caller):
        path = fn.get("path", "")
        name = path.split("::")[-1]
        tr = fn.get("trait", "")
        if is_print_call(fn):
            return Opaque(dest_ty, {"fmt"})
        r_ = self.avail_ops(it, fn, args)
        if r_ is not NotImplemented:
            return r_
        if name == "get_key" and "BoomHashMap" in path:
            return some(Ref(Cell(kmer_v("seed"), "seed")))
        if name == "get_kmer_data" or (name in ("get", "get_mut") and "BoomHashMap" in path):
            k = recv(it, args[1])
            if kid(k) is None or not self.known(kid(k)[0]):
                raise Undecided("data look-up of a k-mer that is not on the scripted line (%r)" % (k,))
            if kid(k)[1]:
                raise Undecided("data look-up by the reverse complement of a key")
            x = kid(k)[0]
            if name == "get_kmer_data":
                return Tup([Ref(Cell(Adt(EXTS, 0, [Int(8, False, val=self.exts_byte(x))]), "exts[%s]" % x)), self.data_ref(x)])
            raise Undecided("index read %s" % name)
        if name == "get_kmer_id" or (name == "get_key_id" and "BoomHashMap" in path):
            k = recv(it, args[1])
            if kid(k) is None:
                raise Undecided("id look-up of an unknown k-mer %r" % (k,))
            if kid(k)[1] or not self.known(kid(k)[0]):
                return none()       # the reverse complement of a key is not a key
            return some(Int(64, False, bits=[TOP] * 64, tags=frozenset({"id:" + kid(k)[0]})))
        if tr == "Kmer" and name == "is_palindrome":
            k = recv(it, args[0])
            return mkbool(bool(kid(k)) and str(kid(k)[0]).startswith("P"))
        if tr == "Kmer" and name in ("extend", "extend_left", "extend_right"):
            k = recv(it, args[0])
            d = dir_of(args[2]) if name == "extend" else (LEFT if name == "extend_left" else RIGHT)
            b = args[1].val if isinstance(args[1], Int) and args[1].is_conc() else None
            if kid(k) and not kid(k)[1] and kid(k)[0] in self.setup() and d is not None and b is not None \
                    and (self.exts_byte(kid(k)[0]) >> (b + (4 if d == RIGHT else 0))) & 1:
                x = kid(k)[0]
                y = self.neighbour(x, d)
                if y is not None and self.is_hairpin(x, d):
                    return Opaque("K", {"kmer"}, {"k": x, "rc": True})      # the k-mer's own reverse complement follows it
                if y is not None and str(y).startswith(("P", "Q")):
                    return Opaque("K", {"kmer"}, {"k": y, "rc": False})     # (a palindrome is its own reverse complement; the refused neighbour is stored as met)
                if y is not None:
                    # the neighbour as reached from x: its stored key, reverse-complemented when the two are stored in opposite orientations
                    return Opaque("K", {"kmer"}, {"k": y, "rc": self.fwd[x] != self.fwd[y]})
                return Opaque("K", {"kmer"}, {"k": "outside(%s,%s)" % (x, d), "rc": False})
            raise Undecided("a k-mer that is not (a key of the line) extended by (one of its extensions): %r + %r towards %r" % (k, args[1], d))
        if tr == "Kmer" and name in ("min_rc", "min_rc_flip") and kid(recv(it, args[0])):
            k = recv(it, args[0])
            can = kmer_v(kid(k)[0], False)     # the keys are the canonical forms
            return Tup([can, mkbool(kid(k)[1])]) if name == "min_rc_flip" else can
        if (path.endswith("BitSet::contains") or (name == "contains" and "bit_set" in path.split("<")[0])) and len(args) == 2:
            x = self.id_of(args[1])
            if x is None:
                raise Undecided("availability of an unknown k-mer")
            return mkbool(x not in self.removed)
        if name == "join_test" and "CompressionSpec" in tr:
            a, b = recv(it, args[1]), recv(it, args[2])
            self.joins.append((a.info.get("fold") if isinstance(a, Opaque) else None, b.info.get("fold") if isinstance(b, Opaque) else None))
            refused = any(isinstance(x_, Opaque) and any(str(f_).startswith("Q") for f_ in (x_.info.get("fold") or ())) for x_ in (a, b))
            return mkbool(not refused)
        return self.common(it, fn, args, dest_ty, term, caller)


def kmer_chain_table(F, rep, rule):
    """the k-mer route's node builder with its growth and step functions, all interpreted together, on scripted lines of k-mers"""
    try:
        step, ext = find_extender(F, False)
        builders = find_callers(F, ext["path"], exclude=(ext["path"],))
    except Unsupported as e:
        rep.inconclusive(rule, "kmer-chain", str(e))
        return
    if len(builders) != 1:
        rep.inconclusive(rule, "kmer-chain", "role discovery: expected one caller of the growth function, found %d" % len(builders))
        return
    body = builders[0]
    if body["argc"] != 4:
        rep.inconclusive(rule, "kmer-chain", "the node builder does not take (self, seed id, path buffer, sequence buffer): %d parameters" % body["argc"])
        return
    adt_path = C.adt_name(F, body["locals"][1])
    key0 = "kmer-chain(%s)" % body["path"].split("::")[-1]
    problems = []
    rows = 0
    K = 3
    for stranded in (False, True):
        def mk(script, stranded=stranded):
            h = KmerChainOracles(script, stranded, preclaimed=driver_preclaims(F, False))
            h.K = K
            return h

        def run(h, stranded=stranded):
            it = Interp(F, False, h)
            me = struct_of(F, adt_path, {"stranded": mkbool(stranded), "spec": Ref(Cell(Opaque("S", {"spec"}))),
                                         "available_kmers": Opaque("bit_set::BitSet", {"available"}),
                                         "index": Ref(Cell(Opaque("index", {"index"})))})
            pcell = Cell(VecV([Tup([kmer_v("junk"), dir_v(LEFT)])]), "path")
            ecell = Cell(DequeV([Int(8, False, val=9)]), "edge_seq")
            r = it.call_body(body, [Ref(Cell(me, "self")), Int(64, False, bits=[TOP] * 64, tags=frozenset({"id:seed"})), Ref(pcell), Ref(ecell)])
            return (r, ecell.v)
        for a, out, h in explore(mk, run):
            rows += 1
            rep.evaluations += 1
            row = dict(a, stranded=stranded)
            if isinstance(out, tuple) and out and out[0] == "inconclusive":
                rep.inconclusive(rule, key0 + "/row%d" % rows, "k-mer route on a scripted line: %s (row %s)" % (out[1], row))
                return
            if isinstance(out, tuple) and out and out[0] == "diverge":
                problems.append(("the builder diverges: %s" % out[1], row))
                continue
            r, dq = out
            line = h.setup()
            outcomes, allowed = h.expectations()

            def spelled(pth):
                j0 = pth.index("seed")
                w_ = [norm_base(x, not h.fwd[x], 0, K) for x in pth[:j0]]
                w_ += [norm_base("seed", False, i, K) for i in range(K)]
                w_ += [norm_base(x, not h.fwd[x], K - 1, K) for x in pth[j0 + 1:]]
                return w_
            got_seq = [base_tag(e) for e in dq.elems] if isinstance(dq, DequeV) else None
            if got_seq is None or any(x is None for x in got_seq):
                rep.inconclusive(rule, key0 + "/row%d" % rows, "k-mer route on a scripted line: a base of the assembled sequence could not be traced to a k-mer position (%s)" % (got_seq,))
                return
            match = [(pth, jn) for (pth, jn) in outcomes if got_seq == spelled(pth)]
            if not match:
                problems.append(("the assembled node sequence is %s; the %s spells %s (b:<k-mer>:<stored position>:<complemented>)" % (
                    got_seq, "ring, cut at the seed," if h.ring else "line", " or ".join(str(spelled(pth)) for pth, _ in outcomes)), row))
                continue
            npth, want_joins = match[0]
            if not (want_joins <= set(h.joins) <= (want_joins | allowed)) or (not h.ring and not ({"hp", "pal", "refused"} & set(h.ends)) and set(h.joins) != want_joins):
                bad = [j for j in h.joins if j not in (want_joins | allowed)] or [j for j in want_joins if j not in h.joins] or [j for j in h.joins if j not in want_joins]
                problems.append(("the join predicate is asked about the payload pairs %s; required: once per link of the line, (payload of the k-mer the walk stands on, "
                                 "payload of the k-mer it wants to enter) = %s — first difference %s" % (h.joins, sorted(want_joins), bad[0]), row))
                continue
            if not (isinstance(r, Tup) and len(r.fields) == 2):
                rep.inconclusive(rule, key0 + "/row%d" % rows, "k-mer route on a scripted line: result shape %r" % (r,))
                return
            ex, data = r.fields
            fold = data.info.get("fold") if isinstance(data, Opaque) else None
            if fold is None or sorted(fold) != sorted(line):
                problems.append(("the payload is folded over %s; the node consists of exactly %s" % (fold, line), row))
                continue
            if sorted(set(h.removed)) != sorted(line):
                problems.append(("k-mers %s are taken out of the availability set; the node consists of %s" % (sorted(set(h.removed), key=str), sorted(line)), row))
                continue
            ev = ex.fields[0] if isinstance(ex, Adt) and ex.name == EXTS else None
            want = h.end_bits(npth[0], LEFT) | (h.end_bits(npth[-1], RIGHT) << 4)
            if not (isinstance(ev, Int) and ev.is_conc()):
                rep.inconclusive(rule, key0 + "/row%d" % rows, "k-mer route on a scripted line: the node's extensions could not be evaluated (%r)" % (ev,))
                return
            if ev.val != want:
                problems.append(("the node's extensions are %s; the line's two ends give %s (the extensions leaving the line, complemented where the end k-mer "
                                 "is stored reverse-complemented)" % (bin(ev.val), bin(want)), row))
    if problems:
        msg, row = problems[0]
        rep.violated(rule, key0, "k-mer route (step + growth + node builder interpreted together) on a scripted line of k-mers: %s  [line %s]" % (msg, row),
                     witness={"kind": "row", "row": {k: str(v) for k, v in row.items()}, "problem": msg, "count": len(problems)},
                     site=F.site(body, body["line"]))
    else:
        rep.holds(rule, key0, "k-mer route end to end: on all %d scripted lines (0-2 k-mers on either side of the seed, every stored orientation, open / branching "
                  "ends, stranded and not) the node is the whole line spelled base by base, the join predicate is asked exactly about the payloads of the two linked "
                  "k-mers, every k-mer of the node is taken out of the availability set and the terminal extensions are those of the line's ends" % rows,
                  sample={"lines": rows})


# =========================================================================== drivers

from .dt import SetV, bitset_model


class DriverOracles(WalkOracles):
    N = 3

    def __init__(self, script, builder_path, graph_route, step_path=None):
        WalkOracles.__init__(self, script)
        self.builder_path = builder_path
        self.graph_route = graph_route
        self.step_path = step_path
        self.events = []
        self.new_stranded = None

    def conc(self, v):
        return v.val if isinstance(v, Int) and v.is_conc() else None

    def on_call(self, it, fn, args, dest_ty, term, caller):
        p = fn.get("rpath") or fn.get("path", "")
        path = fn.get("path", "")
        name = path.split("::")[-1]
        if is_print_call(fn):
            return Opaque(dest_ty, {"fmt"})
        if name == "len" and ("BoomHashMap" in path or "DebruijnGraph" in path):
            return Int(64, False, val=self.N)
        r_ = bitset_model(it, fn, args, dest_ty, term, caller, on_event=lambda k, x: self.events.append((k, x)))
        if r_ is not NotImplemented:
            return r_
        if "BoomHashMap" in path and name == "iter" and args and "index" in tags_of(recv(it, args[0])):
            # the table's entries in slot order: (k-mer, extensions, payload) of ids 0..N — the extensions are arbitrary (symbolic)
            from .models import IterV
            items = [Tup([Ref(Cell(Opaque("K", {"kmer", "id-%d" % i}), "k%d" % i)), Ref(Cell(exts_sym("tx%d" % i), "x%d" % i)),
                          Ref(Cell(Opaque("D", {"data"}, {"fold": ("t%d" % i,)}), "d%d" % i))]) for i in range(self.N)]
            return IterV("owned", (Ref(Cell(VecV(items), "index-iter")), 0, self.N))
        if "BoomHashMap" in path and name == "get_key" and len(args) == 2 and self.conc(args[1]) is not None and self.conc(args[1]) < self.N:
            i = self.conc(args[1])
            return some(Ref(Cell(Opaque("K", {"kmer", "id-%d" % i}), "k%d" % i)))
        if self.step_path and (p == self.step_path or path == self.step_path) and len(args) == 3:
            # the driver itself asks the step function about an entry (a helper deciding where to start): whether the line continues
            # from that entry in that direction is a fact about the data — both answers are explored
            cur = recv(it, args[1])
            ident = None
            for t in tags_of(cur):
                if t.startswith("id-") or t.startswith("id:"):
                    ident = t[3:]
            if ident is None and isinstance(cur, Int) and cur.is_conc():
                ident = str(cur.val)
            d = dir_of(args[2])
            cont = self.choose("line-continues(%s,%s)" % (ident, dir_name(d)), (False, True))
            adt = "compression::ExtModeNode" if self.graph_route else "compression::ExtMode"
            if cont:
                nxt = Int(64, False, bits=[TOP] * 64, tags=frozenset({"id:q"})) if self.graph_route else Opaque("K", {"kmer", "id-q"})
                return Adt(adt, 0, [nxt, dir_v(d), exts_sym("q")])
            return Adt(adt, 1, [exts_sym("final")])
        if p == self.builder_path or path == self.builder_path:
            # this table scripts the node builder through its interface (self, seed[, buffers]) -> (…, extensions, …, payload) and judges what the
            # DRIVER does with the result; a builder with another interface (one that adds the node to the output itself, say) is a different
            # private protocol, which only the end-to-end tables can follow
            bb = it.facts.fns.get(self.builder_path) or {}
            rt = it.facts.ty(bb["locals"][0]) if bb.get("locals") else {}
            want_shape = (2, 4) if self.graph_route else (4, 2)
            if bb and (bb.get("argc") != want_shape[0] or rt.get("k") != "tuple" or len(rt.get("ts") or []) != want_shape[1]):
                raise Undecided("the node builder's interface is not (%s) -> %d-tuple: the driver table cannot script it" % (
                    "self, seed" if self.graph_route else "self, seed, path buffer, sequence buffer", want_shape[1]))
            me = args[0]
            comp = it.read(me.cell, me.path)
            i = self.conc(args[1])
            if i is None:
                raise Undecided("builder called with a symbolic seed id")
            # locate the availability set inside the worker struct
            fi = None
            for k, f in enumerate(comp.fields):
                if isinstance(f, SetV):
                    fi = k
            if fi is None:
                raise Undecided("the worker struct carries no availability set")
            avail = comp.fields[fi].s
            strand = [f for f in comp.fields if isinstance(f, Int) and f.kind == "bool"]
            if self.events and self.events[-1] == ("remove", i) and i not in avail:
                # the driver itself claims the seed right before it has the node built (on the pinned tree the growth function does):
                # for what follows the seed counts as available at its turn
                avail = set(avail) | {i}
                self.preclaims = getattr(self, "preclaims", 0) + 1
            self.events.append(("build", i, i in avail, strand[0].val if strand and strand[0].is_conc() else None, frozenset(avail)))
            # the walk consumes the seed and a scripted subset of the other still-available ids
            others = sorted(avail - {i})
            eaten = {i}
            for o in others:
                if self.choose("build%d-eats-%d" % (i, o), (False, True)):
                    eaten.add(o)
            it.write(me.cell, me.path + (("f", fi),), SetV(avail - eaten, comp.fields[fi].nbits))
            if self.graph_route:
                # the returned node path lists the seed and everything the walks consumed (seed first here; the orientations are the builder's)
                npath = DequeV([Tup([Int(64, False, val=x), dir_v(LEFT)]) for x in [i] + sorted(eaten - {i})])
                return Tup([Opaque("DnaString", {"seq:%d" % i}), exts_sym("n%d" % i), npath, Opaque("D", {"data"}, {"fold": ("n%d" % i,)})])
            er = args[3]
            it.write(er.cell, er.path, DequeV([Int(8, False, val=100 + i)]))
            return Tup([exts_sym("n%d" % i), Opaque("D", {"data"}, {"fold": ("n%d" % i,)})])
        if path.startswith("graph::BaseGraph") and name == "new":
            self.new_stranded = args[0]
            return Opaque("BaseGraph", {"new-graph"})
        if path.startswith("graph::BaseGraph") and name == "add":
            seq = recv(it, args[1])
            sid = None
            if isinstance(seq, DequeV) and seq.elems and isinstance(seq.elems[0], Int):
                sid = seq.elems[0].val - 100
            for t in tags_of(seq):
                if t.startswith("seq:"):
                    sid = int(t[4:])
            ex = args[2].fields[0] if isinstance(args[2], Adt) else None
            eid = None
            if isinstance(ex, Int) and not ex.is_conc():
                nm = bv.var_name(next(iter(next(iter(ex.getbits()[0])))))[0] if ex.getbits()[0] not in (ZERO, ONE, TOP) else None
                eid = nm
            fold = args[3].info.get("fold") if isinstance(args[3], Opaque) else None
            tgt = recv(it, args[0])
            self.events.append(("add", sid, eid, fold, "new-graph" in tags_of(tgt)))
            return Tup([])
        if path.startswith("graph::BaseGraph") and name in ("finish", "finish_serial"):
            self.events.append(("finish", "new-graph" in tags_of(args[0])))
            return Opaque("DebruijnGraph", {"finished-new-graph"})
        if name == "fix_exts":
            g = recv(it, args[0])
            a = args[1]
            arg = None
            if isinstance(a, Adt) and a.name.endswith("Option"):
                if a.variant == 0:
                    arg = "None"
                else:
                    sv = recv(it, a.fields[0])
                    arg = ("Some", tuple(sorted(sv.s))) if isinstance(sv, SetV) else ("Some", "?")
            which = "new" if "finished-new-graph" in tags_of(g) else ("old" if "old-graph" in tags_of(g) else "?")
            self.events.append(("fix_exts", which, arg))
            return Tup([])
        if name == "is_compressed":
            # a construction path that ASKS whether the graph is already compressed: both answers are explored, and a path that acts on
            # "already compressed" is judged together with the exactness of that test (graph driver table)
            ans = self.choose("is_compressed", ("not-compressed", "compressed"))
            self.events.append(("asked-is_compressed", ans))
            if ans == "compressed":
                return none()
            return some(Tup([Int(64, False, val=0), Int(64, False, val=1)]))
        return self.common(it, fn, args, dest_ty, term, caller)


def _exts_var_of(v):
    """name of the symbolic extension byte a value consists of ('tx1' …), or None"""
    if not isinstance(v, Int) or v.is_conc():
        return None
    names = set()
    for t in v.getbits():
        if t is TOP:
            return None
        for m in t:
            for i in m:
                names.add(bv.var_name(i)[0])
    return names.pop() if len(names) == 1 else None


def _driver_unknown_compare(self, it, op, a, b):
    # emptiness tests on a table entry's (arbitrary) extensions: both answers are possible
    if op in ("Eq", "Ne"):
        for x, y in ((a, b), (b, a)):
            nm = _exts_var_of(x)
            if nm and nm.startswith("tx") and isinstance(y, Int) and y.is_conc() and y.val == 0:
                empty = self.choose("exts-of-%s-empty" % nm[2:], (False, True))
                return empty if op == "Eq" else not empty
    return None


DriverOracles.unknown_compare = _driver_unknown_compare


def find_builder(F, graph_route):
    step, ext = find_extender(F, graph_route)
    bs = find_callers(F, ext["path"], exclude=(ext["path"],))
    if len(bs) != 1:
        raise Unsupported("role discovery: node builder of the %s route not unique (%d)" % ("graph" if graph_route else "k-mer", len(bs)))
    ds = find_callers(F, bs[0]["path"], exclude=(bs[0]["path"],))
    if len(ds) != 1:
        raise Unsupported("role discovery: driver of the %s route not unique (%d)" % ("graph" if graph_route else "k-mer", len(ds)))
    return step, ext, bs[0], ds[0]


def driver_checks(events, n, censored, stranded, graph_route):
    """shared specification of the driver loop, over the event log"""
    probs = []
    avail = set(range(n)) - set(censored)
    builds = [e for e in events if e[0] == "build"]
    # state-based: when the first node is built the availability set holds exactly the non-censored ids (however it was constructed)
    if builds:
        got = set(builds[0][4])
        if got != avail:
            extra, missing = sorted(got - avail), sorted(avail - got)
            if extra and set(extra) <= set(censored):
                probs.append("censored id(s) %s are still available when building starts (censor list %s)" % (extra, list(censored)))
            else:
                probs.append("when building starts the availability set is %s, not every non-censored id %s" % (sorted(got), sorted(avail)))
    elif avail:
        probs.append("no node is built although ids %s are available" % sorted(avail))
    for e in builds:
        if not e[2]:
            probs.append("a node is built from seed %d although it is no longer available (it was placed in an earlier node or censored)" % e[1])
        if e[3] is not None and e[3] != stranded:
            probs.append("the worker's strandedness flag is %s, the caller passed %s" % (e[3], stranded))
    return probs, avail, builds


def hash_driver_table(F, rep, rule):
    try:
        step, ext, builder, body = find_builder(F, False)
    except Unsupported as e:
        rep.inconclusive(rule, "kmer-driver", str(e))
        return
    key0 = "kmer-driver(%s)" % body["path"].split("::")[-1]
    problems = []
    rows = 0
    for stranded in (False, True):
        def mk(script):
            return DriverOracles(script, builder["path"], False, step["path"])

        def run(h, stranded=stranded):
            it = Interp(F, False, h)
            r = it.call_body(body, [mkbool(stranded), Ref(Cell(Opaque("S", {"spec"}))), Ref(Cell(Opaque("index", {"index"})))])
            return r
        for a, out, h in explore(mk, run):
            rows += 1
            rep.evaluations += 1
            row = dict(a, stranded=stranded)
            if isinstance(out, tuple) and out and out[0] in ("inconclusive",):
                rep.inconclusive(rule, key0 + "/row%d" % rows, "driver: %s (row %s)" % (out[1], row))
                continue
            if isinstance(out, tuple) and out and out[0] == "diverge":
                problems.append(("the driver diverges: %s" % out[1], row))
                continue
            probs, avail, builds = driver_checks(h.events, DriverOracles.N, [], stranded, False)
            # which seeds must be built: simulate
            eaten = set()
            want_builds = []
            for i in range(DriverOracles.N):
                if i in eaten:
                    continue
                want_builds.append(i)
                eaten.add(i)
                for o in range(DriverOracles.N):
                    if a.get("build%d-eats-%d" % (i, o)):
                        eaten.add(o)
            got_builds = [e[1] for e in builds]
            if got_builds != want_builds:
                probs.append("nodes are built from seeds %s; every id still available at its turn must seed exactly one node: %s" % (got_builds, want_builds))
            adds = [e for e in h.events if e[0] == "add"]
            want_adds = [(i, "n%d" % i, ("n%d" % i,), True) for i in want_builds]
            if [tuple(e[1:]) for e in adds] != want_adds:
                probs.append("nodes added to the graph: %s; each built node must be added exactly once with its own sequence, extensions and payload: %s" % (
                    [tuple(e[1:]) for e in adds], want_adds))
            # each add directly follows its build
            order = [e[0] for e in h.events if e[0] in ("build", "add")]
            if order != ["build", "add"] * len(want_builds):
                probs.append("build/add interleaving is %s" % order)
            ns = h.new_stranded
            if not (isinstance(ns, Int) and ns.is_conc() and bool(ns.val) == stranded):
                probs.append("the graph is created with strandedness %r, the caller passed %s" % (ns, stranded))
            if not (isinstance(out, Opaque) and "new-graph" in out.tags):
                probs.append("the returned value is not the graph the nodes were added to")
            for pmsg in probs:
                problems.append((pmsg, row))
    if problems:
        msg, row = problems[0]
        rep.violated(rule, key0, "k-mer route driver (%s): %s  [scenario %s]" % (body["path"].split("::")[-1], msg, row),
                     witness={"kind": "row", "row": {k: str(v) for k, v in row.items()}, "problem": msg, "count": len(problems)},
                     site=F.site(body, body["line"]))
    else:
        rep.holds(rule, key0, "k-mer route driver: on all %d scenarios (3 ids, every pattern of ids consumed by earlier walks, both strandedness values) "
                  "every id is made available, each id still available at its turn seeds exactly one node, and each built node is added once" % rows,
                  sample={"scenarios": rows})
    return body


def graph_driver_table(F, rep, rule):
    try:
        step, ext, builder, body = find_builder(F, True)
    except Unsupported as e:
        rep.inconclusive(rule, "graph-driver", str(e))
        return
    key0 = "graph-driver(%s)" % body["path"].split("::")[-1]
    problems = []
    rows = 0
    OPTION = "std::option::Option"
    for stranded in (False, True):
        for censored in (None, [], [1], [0, 2], [2, 0], [1, 1]):
            def mk(script):
                return DriverOracles(script, builder["path"], True, step["path"])

            def run(h, stranded=stranded, censored=censored):
                it = Interp(F, False, h)
                cn = Adt(OPTION, 0, []) if censored is None else Adt(OPTION, 1, [VecV([Int(64, False, val=c) for c in censored])])
                return it.call_body(body, [mkbool(stranded), Ref(Cell(Opaque("S", {"spec"}))), Opaque("DebruijnGraph", {"old-graph"}), cn])
            for a, out, h in explore(mk, run):
                rows += 1
                rep.evaluations += 1
                row = dict(a, stranded=stranded, censored=censored)
                if isinstance(out, tuple) and out and out[0] == "inconclusive":
                    rep.inconclusive(rule, key0 + "/row%d" % rows, "driver: %s (row %s)" % (out[1], row))
                    continue
                if isinstance(out, tuple) and out and out[0] == "diverge":
                    problems.append(("the driver diverges: %s" % out[1], row))
                    continue
                cens = censored or []
                if ("asked-is_compressed", "compressed") in h.events and not [e for e in h.events if e[0] == "build"] and not cens:
                    # the "nothing to do" short cut: the old graph is handed back.  Right exactly when (i) nothing is censored, (ii) the
                    # test it relies on is exact, (iii) hanging extensions are still pruned
                    from .dt_graph import is_compressed_exact
                    ok, why = is_compressed_exact(F)
                    fx = [e for e in h.events if e[0] == "fix_exts"]
                    if ok is None:
                        rep.inconclusive(rule, key0 + "/row%d" % rows, "driver: the old graph is returned when is_compressed says so; whether that test is exact "
                                         "could not be decided (%s) (row %s)" % (why, row))
                    elif not ok:
                        problems.append(("the graph is handed back unchanged when is_compressed() reports it compressed, but that test is not exact: %s" % why, row))
                    elif not (isinstance(out, Opaque) and "old-graph" in out.tags) or not any(e[1] == "old" and e[2] == "None" for e in fx):
                        problems.append(("on the `already compressed` short cut the old graph must be returned with its hanging extensions pruned "
                                         "(events %s)" % (h.events,), row))
                    continue
                probs, avail, builds = driver_checks(h.events, DriverOracles.N, cens, stranded, True)
                eaten = set(cens)
                want_builds = []
                for i in range(DriverOracles.N):
                    if i in eaten:
                        continue
                    want_builds.append(i)
                    eaten.add(i)
                    for o in range(DriverOracles.N):
                        if a.get("build%d-eats-%d" % (i, o)):
                            eaten.add(o)
                if [e[1] for e in builds] != want_builds:
                    probs.append("nodes are built from seeds %s; required %s (every non-censored id still available at its turn)" % ([e[1] for e in builds], want_builds))
                adds = [tuple(e[1:]) for e in h.events if e[0] == "add"]
                want_adds = [(i, "n%d" % i, ("n%d" % i,), True) for i in want_builds]
                if adds != want_adds:
                    probs.append("nodes added: %s; required %s" % (adds, want_adds))
                # order: prune(old, Some(available)) -> builds -> finish -> prune(new, None)
                kinds = [e for e in h.events if e[0] in ("fix_exts", "build", "finish")]
                want_first = ("fix_exts", "old", ("Some", tuple(sorted(set(range(DriverOracles.N)) - set(cens)))))
                if not kinds or kinds[0] != want_first:
                    probs.append("before building, the old graph's extensions must be pruned against exactly the non-censored nodes %s; first event is %s" % (
                        want_first[2], kinds[0] if kinds else None))
                seq = [e[0] if e[0] != "fix_exts" else "fix_exts:%s:%s" % (e[1], e[2] if e[2] == "None" else "Some") for e in kinds]
                want_seq = ["fix_exts:old:Some"] + ["build"] * len(want_builds) + ["finish", "fix_exts:new:None"]
                if seq != want_seq:
                    probs.append("order of pruning / building / finishing is %s; required %s (no path may return a graph that skipped the final pruning)" % (seq, want_seq))
                if not (isinstance(out, Opaque) and "finished-new-graph" in out.tags):
                    probs.append("the returned graph is not the finished new graph")
                for pmsg in probs:
                    problems.append((pmsg, row))
    if problems:
        msg, row = problems[0]
        rep.violated(rule, key0, "graph route driver (%s): %s  [scenario %s]" % (body["path"].split("::")[-1], msg, row),
                     witness={"kind": "row", "row": {k: str(v) for k, v in row.items()}, "problem": msg, "count": len(problems)},
                     site=F.site(body, body["line"]))
    else:
        rep.holds(rule, key0, "graph route driver: on all %d scenarios censored ids are removed first, extensions are pruned against the surviving nodes, "
                  "every surviving id still available seeds one node, and the result is finish()ed then pruned again" % rows, sample={"scenarios": rows})
    return body



# =========================================================================== entry points and node storage

class EntryOracles(WalkOracles):
    def __init__(self, script, driver_path):
        WalkOracles.__init__(self, script)
        self.driver_path = driver_path
        self.driver_calls = []
        self.index_new = None
        self.contains_asked = []

    # ---- the key set of the no-extensions entry point, semantically: two keys k0, k1 listed in the caller's order, whose true order is
    # an oracle; ONE probe (a single-base neighbour of k0) is varied: absent from the key set, equal to k1, or equal to k0 itself (a
    # homopolymer / hairpin); an absent probe sorts before, between or after the keys (oracle).  Every way of asking "is the neighbour a
    # key?" — hash set, sorted vector + binary search, partition_point, linear scan — answers from this one model.
    active = None
    unsorted_search = None

    def ident(self, v):
        """('key', name) / ('absent', probe) / None"""
        if isinstance(v, Tup) and v.fields:
            v = v.fields[0]
        if isinstance(v, Opaque) and kid(v):
            if kid(v)[1] and not v.info.get("canon"):
                return None         # the reverse complement of a key, taken literally: a different k-mer, about which nothing is known
            return ("key", kid(v)[0])
        if isinstance(v, Opaque) and "of" in v.info:
            pr = (v.info.get("of"), v.info.get("side"), v.info.get("base"))
            # the reverse complement of a neighbour is the neighbour itself once canonicalised; taken literally it is another k-mer, whose
            # membership is a separate fact about the key set
            lit_rc = bool(v.info.get("rc")) and not v.info.get("canon")
            if self.active is not None and pr == ("k0",) + tuple(self.active):
                st = self.choose("rc-of-probe" if lit_rc else "probe", ("absent", "is-k1", "is-k0"))
                if st != "absent":
                    return ("key", st[3:])
            return ("absent", pr + (("rc",) if lit_rc else ()))
        return None

    def key_rank(self, name):
        lt = self.choose("k0<k1", (True, False))
        return (0 if lt else 1) if name == "k0" else (1 if lt else 0)

    def cmp_ident(self, a, b):
        if a is None or b is None:
            return None
        if a[0] == "key" and b[0] == "key":
            return 0 if a[1] == b[1] else (-1 if self.key_rank(a[1]) < self.key_rank(b[1]) else 1)
        if a[0] == "absent" and b[0] == "absent":
            return 0 if a[1] == b[1] else None
        if a[0] == "absent":
            # before both keys / between / after both: an oracle for the varied probe, a fixed (but varied across probes) place for the others
            if self.active is not None and a[1] == ("k0",) + tuple(self.active):
                pos = self.choose("absent-sorts", (0, 1, 2))
            else:
                pos = (sum(x if isinstance(x, int) else len(str(x)) for x in a[1][1:]) + (0 if a[1][0] == "k0" else 1)) % 3
            return -1 if pos <= self.key_rank(b[1]) else 1
        c = self.cmp_ident(b, a)
        return None if c is None else -c

    def on_call(self, it, fn, args, dest_ty, term, caller):
        p = fn.get("rpath") or fn.get("path", "")
        path = fn.get("path", "")
        name = path.split("::")[-1]
        tr = fn.get("trait", "")
        if p == self.driver_path or path == self.driver_path:
            self.driver_calls.append(args)
            return Opaque("BaseGraph", {"driver-result"})
        if "BoomHashMap2" in path and name in ("new", "new_parallel"):
            self.index_new = args
            return Opaque("BoomHashMap2", {"built-index"})
        if getattr(self, "mode", None) == "slice-noexts":
            from .models import seq_of, call_callable
            trn = tr.split("::")[-1].split("<")[0]
            # comparisons between k-mers (keys / probes)
            if name in ("cmp", "partial_cmp", "lt", "le", "gt", "ge", "eq", "ne") and trn in ("Ord", "PartialOrd", "PartialEq") and len(args) == 2:
                c = self.cmp_ident(self.ident(recv(it, args[0])), self.ident(recv(it, args[1])))
                if c is not None:
                    if name == "cmp":
                        return Adt("std::cmp::Ordering", c + 1, [])
                    if name == "partial_cmp":
                        return some(Adt("std::cmp::Ordering", c + 1, []))
                    return mkbool({"lt": c < 0, "le": c <= 0, "gt": c > 0, "ge": c >= 0, "eq": c == 0, "ne": c != 0}[name])
            # set membership, whatever the set type
            if name == "contains" and len(args) == 2 and any(x in path for x in ("HashSet", "BTreeSet", "hash::set", "btree::set")):
                k = recv(it, args[1])
                self.contains_asked.append(dict(k.info) if isinstance(k, Opaque) else {})
                i_ = self.ident(k)
                if i_ is None:
                    raise Undecided("membership of an unidentified k-mer")
                return mkbool(i_[0] == "key")
            if name == "len" and len(args) == 1 and any(x in path for x in ("HashSet", "BTreeSet", "hash::set", "btree::set")):
                return Int(64, False, val=self.n_keys)
            # ordered sequences of keys: sort / dedup / searches
            if args and isinstance(args[0], Ref) and name in ("sort", "sort_unstable", "dedup", "binary_search", "binary_search_by_key", "contains",
                                                              "sort_by_key", "sort_unstable_by_key", "dedup_by_key"):
                sq = seq_of(it, args[0])
                if sq is not None:
                    v, off, cnt = sq
                    el = list(v.elems[off:off + cnt])

                    def keyf(e, ci):
                        return self.ident(call_callable(it, args[ci], [Ref(Cell(e, "elt"))], term, caller, 0)) if ci is not None else self.ident(e)
                    ci = {"sort_by_key": 1, "sort_unstable_by_key": 1, "dedup_by_key": 1, "binary_search_by_key": 2}.get(name)
                    ids = [keyf(deref_val(it, e) if isinstance(e, Ref) and ci is None else e, ci) for e in el]
                    if all(i_ is not None for i_ in ids) and (el or name.startswith("binary") or name == "contains"):
                        import functools
                        if name.startswith("sort"):
                            order = sorted(range(len(el)), key=functools.cmp_to_key(lambda i, j: self.cmp_ident(ids[i], ids[j]) or 0))
                            it.write(args[0].cell, args[0].path, type(v)(list(v.elems[:off]) + [el[i] for i in order] + list(v.elems[off + cnt:])))
                            return Tup([])
                        if name.startswith("dedup"):
                            keep = [i for i in range(len(el)) if i == 0 or self.cmp_ident(ids[i], ids[i - 1]) != 0]
                            it.write(args[0].cell, args[0].path, type(v)(list(v.elems[:off]) + [el[i] for i in keep] + list(v.elems[off + cnt:])))
                            return Tup([])
                        probe = recv(it, args[1])
                        self.contains_asked.append(dict(probe.info) if isinstance(probe, Opaque) else {})
                        pid = self.ident(probe)
                        if pid is None:
                            raise Undecided("search for an unidentified k-mer")
                        cs = [self.cmp_ident(i_, pid) for i_ in ids]
                        if name == "contains":
                            return mkbool(any(c == 0 for c in cs))
                        if any(self.cmp_ident(ids[i], ids[i + 1]) == 1 for i in range(len(ids) - 1)):
                            # the library leaves the result of a binary search on an unsorted slice unspecified
                            self.unsorted_search = [i_[1] for i_ in ids]
                        lo_, hi_ = 0, len(el)
                        while lo_ < hi_:
                            mid = (lo_ + hi_) // 2
                            if cs[mid] == 0:
                                return Adt("std::result::Result", 0, [Int(64, False, val=mid)])
                            if cs[mid] < 0:
                                lo_ = mid + 1
                            else:
                                hi_ = mid
                        return Adt("std::result::Result", 1, [Int(64, False, val=lo_)])
        if "HashSet" in path and name == "contains":
            k = recv(it, args[1])
            info = k.info if isinstance(k, Opaque) else {}
            self.contains_asked.append(dict(info))
            nm = "has:%s:%s:%s" % (info.get("of"), info.get("side"), info.get("base"))
            return mkbool(self.choose(nm, (False, True)))
        if "HashSet" in path and name == "len":
            return Int(64, False, val=self.n_keys)
        if tr == "Kmer" and name in ("extend_left", "extend_right", "extend"):
            k = recv(it, args[0])
            b = args[1].val if isinstance(args[1], Int) and args[1].is_conc() else "?"
            side = LEFT if name == "extend_left" else (RIGHT if name == "extend_right" else dir_of(args[2]))
            if kid(k) and kid(k)[1] and not k.info.get("canon") and b != "?":
                # rc(k) extended on one side by b = rc(k extended on the other side by the complement of b)
                return Opaque("K", {"ext"}, {"of": kid(k)[0], "side": LEFT if side == RIGHT else RIGHT, "base": 3 - b, "canon": False, "rc": True})
            if kid(k) and kid(k)[1] and not k.info.get("canon"):
                return Opaque("K", {"ext"}, {"of": "?", "side": side, "base": b, "canon": False})
            return Opaque("K", {"ext"}, {"of": kid(k)[0] if kid(k) else "?", "side": side, "base": b, "canon": False})
        if tr == "Mer" and name == "rc" and isinstance(recv(it, args[0]), Opaque) and "of" in recv(it, args[0]).info and not kid(recv(it, args[0])):
            k = recv(it, args[0])
            info = dict(k.info)
            if info.get("canon"):
                info["of"] = "?"
            info["rc"] = not info.get("rc")
            return Opaque("K", set(k.tags), info)
        if tr == "Kmer" and name in ("min_rc", "min_rc_flip"):
            k = recv(it, args[0])
            info = dict(k.info) if isinstance(k, Opaque) else {}
            info["canon"] = True
            r = Opaque("K", {"ext", "canon"}, info)
            if name == "min_rc_flip":
                return Tup([r, mkbool(self.choose("flip:%s" % (info,), (False, True)))])
            return r
        return self.common(it, fn, args, dest_ty, term, caller)


def entry_points_table(F, rep, rule):
    try:
        step, ext, builder, driver = find_builder(F, False)
    except Unsupported as e:
        rep.inconclusive(rule, "entry-points", str(e))
        return
    # public functions of the crate that (transitively) reach the driver
    entries = [b for b in F.fns.values() if b["vis"] == "pub" and b["kind"] == "Fn" and b["path"] != driver["path"] and reaches_fn(F, b, driver["path"])]
    rep.floor("public entry points of the k-mer route", 3, len(entries))
    for body in entries:
        nm = body["path"].split("::")[-1]
        key0 = "entry(%s)" % nm
        # shape of the third parameter decides the harness
        t3 = F.ty(body["locals"][3])
        elem = F.ty(F.ty(t3.get("t", "")).get("t", "")) if t3.get("k") == "ref" else {}
        problems = []
        rows = 0
        is_noexts = t3.get("k") == "ref" and F.ty(t3["t"]).get("k") == "slice" and not (len(elem.get("ts") or []) == 2 and F.ty((elem.get("ts") or [0, ""])[1]).get("k") == "tuple")
        actives = [(sd, b) for sd in (LEFT, RIGHT) for b in range(4)] if is_noexts else [None]
        for stranded, active in [(st_, ac_) for st_ in (False, True) for ac_ in actives]:
            def mk(script, active=active):
                h = EntryOracles(script, driver["path"])
                h.n_keys = 1
                h.active = active
                return h

            def run(h, stranded=stranded):
                it = Interp(F, False, h)
                spec = Ref(Cell(Opaque("S", {"spec"}), "spec"))
                if t3.get("k") == "ref" and F.ty(t3["t"]).get("k") == "slice":
                    ets = elem.get("ts") or []
                    if len(ets) == 2 and F.ty(ets[1]).get("k") == "tuple":   # (K, (Exts, D))
                        items = [Tup([kmer_v("k%d" % i), Tup([exts_sym("e%d" % i), Opaque("D", {"data"}, {"fold": ("d%d" % i,)})])]) for i in range(2)]
                        h.n_keys = 2
                        h.mode = "slice-exts"
                    else:                                                      # (K, D): two keys in the caller's order (their true order is an oracle)
                        items = [Tup([kmer_v("k%d" % i), Opaque("D", {"data"}, {"fold": ("d%d" % i,)})]) for i in range(2)]
                        h.n_keys = 2
                        h.mode = "slice-noexts"
                    third = Ref(Cell(Arr(items), "input"))
                else:
                    third = Ref(Cell(Opaque("index", {"caller-index"}), "index"))
                    h.mode = "index"
                return it.call_body(body, [mkbool(stranded), spec, third])
            for a, out, h in explore(mk, run):
                rows += 1
                rep.evaluations += 1
                row = dict(a, stranded=stranded)
                if active is not None:
                    row["probe"] = "k0 extended to the %s by base %d" % (dir_name(active[0]), active[1])
                    row.setdefault("probe-is", a.get("probe", "absent"))
                if isinstance(out, tuple) and out and out[0] == "inconclusive":
                    rep.inconclusive(rule, key0 + "/row%d" % rows, "%s: %s" % (nm, out[1]))
                    break
                if isinstance(out, tuple) and out and out[0] == "diverge":
                    problems.append(("diverges: %s" % out[1], row))
                    continue
                if len(h.driver_calls) != 1:
                    problems.append(("the compression driver is invoked %d times" % len(h.driver_calls), row))
                    continue
                dargs = h.driver_calls[0]
                s0 = dargs[0]
                if not (isinstance(s0, Int) and s0.is_conc() and bool(s0.val) == stranded):
                    problems.append(("the driver receives strandedness %r, the caller passed %s" % (s0, stranded), row))
                if "spec" not in tags_of(recv(Interp(F, False), dargs[1])) and "spec" not in tags_of(dargs[1]):
                    pass
                if not (isinstance(out, Opaque) and "driver-result" in out.tags):
                    problems.append(("the returned graph is not the driver's result", row))
                idx = recv(Interp(F, False), dargs[2])
                if h.mode == "index":
                    if "caller-index" not in tags_of(idx):
                        problems.append(("the driver is not given the caller's index", row))
                    continue
                if "built-index" not in tags_of(idx) or h.index_new is None:
                    problems.append(("the driver is not given the index built from the caller's table", row))
                    continue
                keys, exts, data = h.index_new[:3]
                kn = [kid(k)[0] if kid(k) else None for k in keys.elems] if isinstance(keys, VecV) else None
                dn = [d.info.get("fold") if isinstance(d, Opaque) else None for d in data.elems] if isinstance(data, VecV) else None
                n = h.n_keys
                # the index is a map: key i must be stored with ITS payload (and extensions), in whatever order the entries are handed over
                if kn is None or dn is None or len(kn) != len(dn) or sorted(zip(kn, dn), key=str) != sorted([("k%d" % i, ("d%d" % i,)) for i in range(n)], key=str):
                    problems.append(("the built index pairs keys %s with payloads %s; every key of the caller's table must be stored once, with its own payload" % (kn, dn), row))
                    continue
                if h.unsorted_search is not None:
                    problems.append(("a binary search is run on the sequence %s, which is not sorted in this row (the caller's list may come in any order; "
                                     "the result of a binary search on an unsorted slice is unspecified)" % (h.unsorted_search,), row))
                    continue
                if h.mode == "slice-exts":
                    ok = isinstance(exts, VecV) and len(exts.elems) == n and all(
                        isinstance(e, Adt) and list(e.fields[0].getbits())[:4] == [var("e%d" % i, j) for j in range(4)] for i, e in enumerate(exts.elems))
                    if not ok:
                        problems.append(("the extensions stored with the keys are not the caller's, in lockstep", row))
                else:
                    # extensions found on the fly: bit (side, base) <=> the neighbour is in the key set; neighbour canonical iff unstranded
                    bad_e = False
                    for i_k, kname in enumerate(kn):
                        e0 = exts.elems[i_k] if isinstance(exts, VecV) and len(exts.elems) == n else None
                        ev = e0.fields[0] if isinstance(e0, Adt) else None
                        if not (isinstance(ev, Int) and ev.is_conc()):
                            rep.inconclusive(rule, key0 + "/row%d" % rows, "%s: the computed extensions of %s could not be evaluated (%r)" % (nm, kname, ev))
                            bad_e = True
                            break
                        want = 0
                        if kname == "k0" and active is not None and a.get("probe", "absent") != "absent":
                            want = 1 << (active[1] + (4 if active[0] == RIGHT else 0))
                        if ev.val != want:
                            problems.append(("the extension byte computed for %s is %s; its neighbours that are keys give %s" % (kname, bin(ev.val), bin(want)), row))
                            bad_e = True
                            break
                    if bad_e:
                        continue
                    # (which membership queries are made, and through which container, is the function's business: the extension bytes above
                    # are what is decided; the queries that were observed must use the key form of the table)
                    for c in h.contains_asked:
                        if bool(c.get("canon")) != (not stranded):
                            problems.append(("a neighbour is looked up in its %s form in %s mode (keys are %s)" % (
                                "canonical" if c.get("canon") else "plain", "stranded" if stranded else "unstranded",
                                "forward-strand k-mers" if stranded else "canonical k-mers"), row))
                            break
        if problems:
            msg, row = problems[0]
            rep.violated(rule, key0, "entry point %s: %s  [row %s]" % (nm, msg, {k: str(v) for k, v in row.items() if not k.startswith("has:") or v}),
                         witness={"kind": "row", "row": {k: str(v) for k, v in row.items()}, "problem": msg, "count": len(problems)},
                         site=F.site(body, body["line"]))
        else:
            rep.holds(rule, key0, "entry point %s reaches the driver exactly once with the caller's strandedness and table (%d rows)" % (nm, rows),
                      sample={"rows": rows})


def node_storage_rules(F, rep, rule):
    """BaseGraph::add keeps sequence / extensions / payload in lockstep"""
    cands = [b for b in F.fns.values() if b["path"].startswith("graph::BaseGraph") and b["path"].endswith("::add")]
    if len(cands) != 1:
        rep.violated(rule, "BaseGraph::add", "anchor-missing: BaseGraph::add", witness={"kind": "anchor-missing"})
        return
    body = cands[0]
    adt_path = C.adt_name(F, body["locals"][1])

    class H(Oracles):
        def __init__(self):
            Oracles.__init__(self)
            self.adds = []

        def on_call(self, it, fn, args, dest_ty, term, caller):
            path = fn.get("path", "")
            if "PackedDnaStringSet" in path and path.endswith("::add"):
                self.adds.append((tags_of(recv(it, args[0])), tags_of(args[1])))
                return Tup([])
            return NotImplemented
    h = H()
    it = Interp(F, False, h)
    junk_e, junk_d = exts_sym("junk"), Opaque("D", {"junk"})
    try:
        me = struct_of(F, adt_path, {"sequences": Opaque("PackedDnaStringSet", {"seqs"}), "exts": VecV([junk_e]), "data": VecV([junk_d]),
                                     "stranded": mkbool(False)})
        cell = Cell(me, "self")
        it.call_body(body, [Ref(cell), Opaque("S", {"the-sequence"}), exts_sym("e"), Opaque("D", {"the-data"})])
    except (Undecided, Unsupported, Diverge) as e:
        rep.inconclusive(rule, "BaseGraph::add", "BaseGraph::add: %s" % e)
        return
    rep.evaluations += 1
    names = [f["name"] for f in F.adts[adt_path]["variants"][0]["fields"]]
    st = cell.v
    ex = st.fields[names.index("exts")]
    da = st.fields[names.index("data")]
    ok = (len(h.adds) == 1 and "seqs" in h.adds[0][0] and "the-sequence" in h.adds[0][1]
          and isinstance(ex, VecV) and len(ex.elems) == 2 and list(ex.elems[1].fields[0].getbits())[:4] == [var("e", j) for j in range(4)]
          and isinstance(da, VecV) and len(da.elems) == 2 and "the-data" in tags_of(da.elems[1]))
    if ok:
        rep.holds(rule, "BaseGraph::add", "BaseGraph::add appends the sequence, the extensions and the payload exactly once each (parallel arrays stay aligned)")
    else:
        rep.violated(rule, "BaseGraph::add", "BaseGraph::add does not append exactly one sequence, one extension set and one payload "
                     "(sequence adds: %d, exts: %r, data: %r)" % (len(h.adds), ex, da), site=F.site(body, body["line"]),
                     witness={"kind": "lockstep"})

