"""Decision tables / abstract walks for the compression loops: extenders, node builders, drivers
(C01.1–C01.5, C02.3, C09.1, C09.3–C09.5).  The step function is scripted (its own table is C02.1 / C09.2)."""
from . import bv, cfg as C
from .bv import Int, mkbool, ZERO, ONE, TOP, var
from .absint import (Adt, Arr, Cell, Closure, Diverge, FnItem, Harness, Interp, Opaque, Ref, Tup, Undecided,
                     Unsupported, VecV, UNINIT, tags_of, with_tags)
from .dt import (BOTTOM, DIR, LEFT, RIGHT, Oracles, check_table, dir_name, dir_of, dir_v, explore, flip, is_print_call,
                 xor_dir)
from .dt_tables import EXTS, find_step, recv, struct_of
from .models import DequeV, IterV, some, none, deref_val
from .report import HOLDS, VIOLATED, INCONCLUSIVE


def kmer_v(name, rc=False):
    return Opaque("K", {"kmer"}, {"k": name, "rc": rc})


def kid(v):
    if isinstance(v, Opaque) and "k" in v.info:
        return (v.info["k"], v.info.get("rc", False))
    return None


def exts_sym(src):
    """a single-direction extension set: low nibble symbolic, high nibble zero"""
    return Adt(EXTS, 0, [Int(8, False, bits=[var(src, i) for i in range(4)] + [ZERO] * 4)])


def nibble_bits(src, complemented):
    b = [var(src, i) for i in range(4)]
    return [b[3 - i] for i in range(4)] if complemented else b


class WalkOracles(Oracles):
    """oracles shared by the extender / builder / driver harnesses"""

    def __init__(self, script, K=3):
        Oracles.__init__(self, script)
        self.K = K
        self.removed = []
        self.log = []
        self.data_cells = {}
        self.exts_cells = {}
        self.step_fn = None
        self.step_calls = []

    # identity-carrying abstract values
    def data_ref(self, name):
        if name not in self.data_cells:
            self.data_cells[name] = Cell(Opaque("D", {"data"}, {"fold": (name,)}), "data[%s]" % name)
        return Ref(self.data_cells[name])

    def exts_ref(self, name):
        if name not in self.exts_cells:
            self.exts_cells[name] = Cell(Opaque(EXTS, {"exts"}, {"exts_of": name}), "exts[%s]" % name)
        return Ref(self.exts_cells[name])

    def id_of(self, v):
        for t in tags_of(v):
            if t.startswith("id:"):
                return t[3:]
        return None

    def common(self, it, fn, args, dest_ty, term, caller):
        p = fn.get("path", "")
        name = p.split("::")[-1]
        tr = fn.get("trait", "")
        if is_print_call(fn):
            return Opaque(dest_ty, {"fmt"})
        if name == "k" and tr == "Kmer":
            return Int(64, False, val=self.K)
        if tr == "Mer" and name == "get":
            k = recv(it, args[0])
            i = args[1]
            idx = i.val if isinstance(i, Int) and i.is_conc() else "?"
            return Int(8, False, bits=[TOP] * 8, tags=frozenset({"base"}) | frozenset({"b:%s:%s:%s" % (kid(k)[0] if kid(k) else "?", "rc" if kid(k) and kid(k)[1] else "fw", idx)}))
        if tr == "Mer" and name == "rc":
            k = recv(it, args[0])
            if kid(k):
                return kmer_v(kid(k)[0], not kid(k)[1])
        if name == "clone" and tr.endswith("Clone"):
            return recv(it, args[0])
        if name == "get_kmer_data":
            k = recv(it, args[1])
            if kid(k) is None:
                raise Undecided("data look-up of unknown k-mer %r" % (k,))
            if kid(k)[1]:
                self.log.append(("lookup-of-rc", kid(k)))
            return Tup([self.exts_ref(kid(k)[0]), self.data_ref(kid(k)[0])])
        if name == "get_kmer_id":
            k = recv(it, args[1])
            if kid(k) is None:
                raise Undecided("id look-up of unknown k-mer %r" % (k,))
            return some(Int(64, False, bits=[TOP] * 64, tags=frozenset({"id:" + kid(k)[0]})))
        if name == "reduce" and "CompressionSpec" in tr:
            acc = recv(it, args[1])
            d = recv(it, args[2])
            fa = acc.info.get("fold") if isinstance(acc, Opaque) else None
            fd = d.info.get("fold") if isinstance(d, Opaque) else None
            if fa is None or fd is None:
                raise Undecided("reduce on unknown payloads %r %r" % (acc, d))
            return Opaque("D", {"data"}, {"fold": tuple(fa) + tuple(fd)})
        if p.endswith("BitSet::remove") or (name == "remove" and "bit_set" in p):
            i = self.id_of(args[1])
            if i is None and isinstance(args[1], Int) and args[1].is_conc():
                i = "#%d" % args[1].val
            self.removed.append(i)
            self.log.append(("remove", i))
            return mkbool(True)
        return NotImplemented


# =========================================================================== extenders

class ExtenderOracles(WalkOracles):
    def __init__(self, script, step_path, graph_route):
        WalkOracles.__init__(self, script)
        self.step_path = step_path
        self.graph_route = graph_route
        self.n_unique = 0

    def on_call(self, it, fn, args, dest_ty, term, caller):
        p = fn.get("rpath") or fn.get("path", "")
        if p == self.step_path or fn.get("path") == self.step_path:
            cur = recv(it, args[1])
            d = dir_of(args[2])
            ident = (self.id_of(cur) if self.graph_route else (kid(cur)[0] if kid(cur) else None))
            self.step_calls.append((ident, d, tuple(self.removed)))
            more = self.n_unique < 2 and self.choose("step%d" % self.n_unique, ("terminal", "unique"))
            if more == "unique":
                i = self.n_unique
                self.n_unique += 1
                nd = self.choose("dir%d" % i, (LEFT, RIGHT))
                if self.graph_route:
                    nxt = Int(64, False, bits=[TOP] * 64, tags=frozenset({"id:p%d" % i}))
                    return Adt("compression::ExtModeNode", 0, [nxt, dir_v(nd), exts_sym("u%d" % i)])
                return Adt("compression::ExtMode", 0, [kmer_v("p%d" % i), dir_v(nd), exts_sym("u%d" % i)])
            adt = "compression::ExtModeNode" if self.graph_route else "compression::ExtMode"
            return Adt(adt, 1, [exts_sym("final")])
        r = self.common(it, fn, args, dest_ty, term, caller)
        return r


def extender_table(F, rep, rule, graph_route):
    """the growth loop: typestate of the availability set, advance of (current, dir), path contents, exit only on Terminal"""
    suffix = "compression::ExtModeNode" if graph_route else "compression::ExtMode"
    label = "graph route" if graph_route else "k-mer route"
    try:
        step = find_step(F, suffix)
    except Unsupported as e:
        rep.violated(rule, "extender", str(e), witness={"kind": "anchor-missing"})
        return
    # extender = the function in the same impl that calls the step function inside a loop
    cands = []
    for b in F.fns.values():
        if b is step or b.get("derived"):
            continue
        g = C.CFG(b)
        sites = g.calls_to(step["path"])
        sites = [s for s in g.calls() if s[2] and (s[2].get("rpath") == step["path"] or s[2].get("path") == step["path"])]
        if sites and any(g.loop_of(s[0]) for s in sites):
            cands.append(b)
    if len(cands) != 1:
        rep.violated(rule, "extender", "anchor-missing: expected one function calling the %s step function in a loop, found %d" % (label, len(cands)),
                     witness={"kind": "anchor-missing"})
        return
    body = cands[0]
    adt_path = C.adt_name(F, body["locals"][1])
    key0 = "%s-extender(%s)" % ("graph" if graph_route else "kmer", body["path"].split("::")[-1])
    problems = []
    n_rows = 0
    for start in (LEFT, RIGHT):
        def mk(script):
            return ExtenderOracles(script, step["path"], graph_route)

        def run(h, start=start):
            it = Interp(F, False, h)
            fields = {"stranded": mkbool(False), "spec": Ref(Cell(Opaque("S", {"spec"}))),
                      "available_kmers": Opaque("bit_set::BitSet", {"available"}),
                      "available_nodes": Opaque("bit_set::BitSet", {"available"}),
                      "index": Ref(Cell(Opaque("index", {"index"}))), "graph": Ref(Cell(Opaque("graph", {"graph"})))}
            a = F.adts[adt_path]["variants"][0]["fields"]
            me = struct_of(F, adt_path, {f["name"]: fields[f["name"]] for f in a if f["name"] in fields})
            if graph_route:
                args = [Ref(Cell(me, "self")), Int(64, False, bits=[TOP] * 64, tags=frozenset({"id:seed"})), dir_v(start)]
                r = it.call_body(body, args)
                if not isinstance(r, Tup) or len(r.fields) != 2:
                    raise Unsupported("extender result shape %r" % (r,))
                pv, ex = r.fields
            else:
                junk = Tup([kmer_v("junk"), dir_v(LEFT)])
                pcell = Cell(VecV([junk]), "path")
                args = [Ref(Cell(me, "self")), kmer_v("seed"), dir_v(start), Ref(pcell)]
                ex = it.call_body(body, args)
                pv = pcell.v
            return (pv, ex)
        leaves = explore(mk, run)
        for a, out, h in leaves:
            n_rows += 1
            rep.evaluations += 1
            row = {k: v for k, v in a.items()}
            if isinstance(out, tuple) and out and out[0] == "inconclusive":
                rep.inconclusive(rule, key0 + "/row%d" % n_rows, "%s growth loop: %s (row %s)" % (label, out[1], row))
                continue
            if isinstance(out, tuple) and out and out[0] == "diverge":
                problems.append(("the loop diverges: %s" % out[1], row))
                continue
            pv, ex = out
            nu = h.n_unique
            # expected sequence of step calls
            want_calls = [("seed", start)]
            for i in range(nu):
                d_i = a["dir%d" % i]
                want_calls.append(("p%d" % i, d_i))
            got_calls = [(c[0], c[1]) for c in h.step_calls]
            if got_calls != want_calls:
                problems.append(("the step function is consulted for %s, the walk requires %s (current element and direction must advance to the "
                                 "step's result)" % (got_calls, want_calls), row))
                continue
            for i, c in enumerate(h.step_calls):
                need = ["seed"] + ["p%d" % j for j in range(i)]
                missing = [x for x in need if x not in c[2]]
                if missing:
                    problems.append(("when the step function is consulted for the %s element, %s %s already placed but still marked available "
                                     "(a placed element that stays available can be entered again)" % (
                                         ["first", "second", "third"][i], missing, "is" if len(missing) == 1 else "are"), row))
                    break
            else:
                # after the loop everything placed is removed
                need = ["seed"] + ["p%d" % j for j in range(nu)]
                missing = [x for x in need if x not in h.removed]
                if missing:
                    problems.append(("%s placed but never removed from the availability set" % missing, row))
                # path contents
                elems = list(pv.elems) if isinstance(pv, VecV) else None
                if elems is None or len(elems) != nu:
                    problems.append(("the returned path has %s entries after %d accepted steps" % (len(elems) if elems is not None else "?", nu), row))
                else:
                    for i, e in enumerate(elems):
                        kk, dd = e.fields
                        ident = h.id_of(kk) if graph_route else (kid(kk)[0] if kid(kk) else None)
                        want_d = flip(a["dir%d" % i]) if graph_route else a["dir%d" % i]
                        if ident != "p%d" % i or dir_of(dd) != want_d:
                            problems.append(("path entry %d is (%s, %s); the walk requires (%s, %s)" % (
                                i, ident, dir_name(dir_of(dd)) if dir_of(dd) in (0, 1) else dd, "p%d" % i, dir_name(want_d)), row))
                            break
                # terminal extensions
                ev = ex.fields[0] if isinstance(ex, Adt) and ex.name == EXTS else None
                want_bits = [var("final", i) for i in range(4)] + [ZERO] * 4
                if not (isinstance(ev, Int) and list(ev.getbits()) == want_bits):
                    problems.append(("the returned terminal extensions are not those reported by the terminating step", row))
    if problems:
        msg, row = problems[0]
        rep.violated(rule, key0, "%s growth loop (%s): %s  [scripted steps %s]" % (label, body["path"].split("::")[-1], msg, row),
                     witness={"kind": "row", "row": {k: str(v) for k, v in row.items()}, "problem": msg, "count": len(problems)},
                     site=F.site(body, body["line"]))
    else:
        rep.holds(rule, key0, "%s growth loop: on all %d scripted walks (0–2 accepted steps, both directions) every placed element is removed "
                  "from the availability set before the next step is consulted, (current, dir) advance to the step's result, the path "
                  "lists the accepted elements in order, the loop ends only on Terminal and returns its extensions" % (label, n_rows),
                  sample={"walks": n_rows})
    return body


def hash_builder_table(F, rep, rule):
    pass


def graph_builder_table(F, rep, rule):
    pass


def hash_driver_table(F, rep, rule):
    pass


def graph_driver_table(F, rep, rule):
    pass


def node_storage_rules(F, rep, rule):
    pass


def both_directions(F, rep, rule):
    pass
