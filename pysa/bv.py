"""Bit-level abstract domain: each bit of an integer is an ANF term (XOR of AND-monomials over
named input bits), or TOP.  Concrete integers are the special case with constant bits.

A term is a frozenset of monomials; a monomial is a frozenset of variable ids.
ZERO = {} ; ONE = {∅}.  TOP is None.
"""

MAX_MONOMIALS = 96

ZERO = frozenset()
ONE = frozenset([frozenset()])
TOP = None

_var_names = []
_var_ids = {}


def var(src, idx):
    key = (src, idx)
    i = _var_ids.get(key)
    if i is None:
        i = len(_var_names)
        _var_names.append(key)
        _var_ids[key] = i
    return frozenset([frozenset([i])])


def var_name(i):
    return _var_names[i]


def t_not(a):
    if a is TOP:
        return TOP
    return a ^ ONE


def t_xor(a, b):
    if a is TOP or b is TOP:
        return TOP
    r = a ^ b
    if len(r) > MAX_MONOMIALS:
        return TOP
    return r


def t_and(a, b):
    if a is ZERO or b is ZERO:
        return ZERO
    if a is not TOP and len(a) == 0:
        return ZERO
    if b is not TOP and len(b) == 0:
        return ZERO
    if a is TOP or b is TOP:
        return TOP
    if a == ONE:
        return b
    if b == ONE:
        return a
    if len(a) * len(b) > 4 * MAX_MONOMIALS:
        return TOP
    acc = {}
    for m1 in a:
        for m2 in b:
            m = m1 | m2
            if m in acc:
                del acc[m]
            else:
                acc[m] = 1
    if len(acc) > MAX_MONOMIALS:
        return TOP
    return frozenset(acc.keys())


def t_or(a, b):
    # a | b = a ^ b ^ ab
    if a is not TOP and a == ONE:
        return ONE
    if b is not TOP and b == ONE:
        return ONE
    if a is not TOP and len(a) == 0:
        return b
    if b is not TOP and len(b) == 0:
        return a
    if a is TOP or b is TOP:
        return TOP
    return t_xor(t_xor(a, b), t_and(a, b))


def t_subst(a, env):
    """substitute constants for variables in an ANF term: env maps variable id -> 0 / 1"""
    if a is TOP or not env:
        return a
    out = set()
    for m in a:
        m2 = set()
        dead = False
        for v in m:
            if v in env:
                if env[v] == 0:
                    dead = True
                    break
            else:
                m2.add(v)
        if dead:
            continue
        fm = frozenset(m2)
        if fm in out:
            out.discard(fm)
        else:
            out.add(fm)
    return frozenset(out)


def t_is_const(a):
    if a is TOP:
        return None
    if len(a) == 0:
        return 0
    if a == ONE:
        return 1
    return None


def t_str(a):
    if a is TOP:
        return "T"
    if len(a) == 0:
        return "0"
    parts = []
    for m in sorted(a, key=lambda m: (len(m), sorted(m))):
        if len(m) == 0:
            parts.append("1")
        else:
            parts.append("&".join("%s[%s]" % var_name(i) for i in sorted(m)))
    return " ^ ".join(parts)


class Int:
    """Abstract integer of width w.  Either concrete (val is an int, bits None) or symbolic
    (bits is a tuple of w terms, LSB first)."""
    __slots__ = ("w", "signed", "val", "bits", "tags", "kind", "aff", "sf")

    def __init__(self, w, signed=False, val=None, bits=None, tags=frozenset(), kind="int", aff=None):
        self.w = w
        self.signed = signed
        self.tags = tags
        self.kind = kind  # int | bool | char
        self.aff = aff    # affine form over named atoms: (tuple of (atom, coef), const) — only meaningful for non-concrete values
        self.sf = None    # sum fields (see sf_lift): the word as a concatenation of independent counters of 0/1 terms
        if bits is not None:
            # normalise to concrete if all bits constant
            v = 0
            conc = True
            for i, b in enumerate(bits):
                c = t_is_const(b)
                if c is None:
                    conc = False
                    break
                v |= c << i
            if conc:
                self.val = v
                self.bits = None
            else:
                self.val = None
                self.bits = tuple(bits)
        else:
            self.val = val & ((1 << w) - 1)
            self.bits = None

    # ---- views
    def is_conc(self):
        return self.val is not None

    def sval(self):
        """signed interpretation of a concrete value"""
        v = self.val
        if self.signed and v >> (self.w - 1):
            v -= 1 << self.w
        return v

    def getbits(self):
        if self.bits is not None:
            return self.bits
        v = self.val
        return tuple(ONE if (v >> i) & 1 else ZERO for i in range(self.w))

    def has_top(self):
        return self.bits is not None and any(b is TOP for b in self.bits)

    def rng(self):
        """(min,max) unsigned range implied by constant bits"""
        if self.val is not None:
            return (self.val, self.val)
        lo = hi = 0
        for i, b in enumerate(self.bits):
            c = t_is_const(b)
            if c is None:
                hi |= 1 << i
            elif c:
                lo |= 1 << i
                hi |= 1 << i
        return (lo, hi)

    def like(self, val=None, bits=None):
        return Int(self.w, self.signed, val=val, bits=bits, kind=self.kind)

    def __repr__(self):
        if self.val is not None:
            if self.kind == "bool":
                return "true" if self.val else "false"
            return "%d_%s%d" % (self.sval(), "i" if self.signed else "u", self.w)
        if self.aff is not None:
            return "<%s>" % aff_str(self.aff)
        return "sym%s%d[%s]" % ("i" if self.signed else "u", self.w,
                                ",".join(t_str(b) for b in reversed(self.bits)))


def top_int(w, signed=False, kind="int"):
    return Int(w, signed, bits=[TOP] * w, kind=kind)


def sym_int(w, src, signed=False, nbits=None):
    """fresh symbolic integer; only the low nbits are symbolic (rest zero)"""
    n = w if nbits is None else nbits
    return Int(w, signed, bits=[var(src, i) if i < n else ZERO for i in range(w)])


def mkbool(v):
    return Int(1, False, val=1 if v else 0, kind="bool")


UNKNOWN_BOOL = None  # created on demand


def unknown_bool():
    return Int(1, False, bits=[TOP], kind="bool")


class UB(Exception):
    pass


# ---- affine forms -------------------------------------------------------------------------------

def aff_of(x):
    """(dict atom->coef, const) of an Int, or None if it has no affine description"""
    if x.is_conc():
        return ({}, x.sval() if x.signed else x.val)
    if x.aff is None:
        return None
    return (dict(x.aff[0]), x.aff[1])


def aff_pack(d, c):
    d = {k: v for k, v in d.items() if v != 0}
    return (tuple(sorted(d.items())), c)


def aff_str(af):
    if af is None:
        return "?"
    d, c = (dict(af[0]), af[1]) if isinstance(af[0], tuple) else af
    parts = []
    for k, v in sorted(d.items()):
        if v == 1:
            parts.append("+" + k)
        elif v == -1:
            parts.append("-" + k)
        else:
            parts.append("%+d*%s" % (v, k))
    if c or not parts:
        parts.append("%+d" % c)
    s = "".join(parts)
    return s[1:] if s.startswith("+") else s


def atom_int(w, name, signed=False, tags=frozenset()):
    """an unknown integer described by a named atom"""
    return Int(w, signed, bits=[TOP] * w, tags=tags, aff=(((name, 1),), 0))


def aff_int(w, d, c, signed=False, tags=frozenset()):
    d = {k: v for k, v in d.items() if v != 0}
    if not d:
        return Int(w, signed, val=c, tags=tags)
    return Int(w, signed, bits=[TOP] * w, tags=tags, aff=aff_pack(d, c))


def aff_binop(op, a, b):
    base = op.replace("Unchecked", "")
    fa, fb = aff_of(a), aff_of(b)
    if base in ("Add", "Sub"):
        if fa is None or fb is None:
            return None
        d = dict(fa[0])
        sgn = 1 if base == "Add" else -1
        for k, v in fb[0].items():
            d[k] = d.get(k, 0) + sgn * v
        return aff_pack(d, fa[1] + sgn * fb[1])
    if base == "Mul":
        for x, y in ((fa, fb), (fb, fa)):
            if x is not None and y is not None and not y[0]:
                return aff_pack({k: v * y[1] for k, v in x[0].items()}, x[1] * y[1])
        return None
    if base == "Shl" and fa is not None and fb is not None and not fb[0] and 0 <= fb[1] < 64:
        m = 1 << fb[1]
        return aff_pack({k: v * m for k, v in fa[0].items()}, fa[1] * m)
    # non-linear use of an affine operand: a derived atom, so that equal expressions stay recognisably equal
    if fa is not None and fb is not None and (fa[0] or fb[0]) and base in ("Shr", "Div", "Rem", "BitAnd", "Shl", "Mul", "BitOr", "BitXor"):
        name = "(%s %s %s)" % (aff_str(fa), base, aff_str(fb))
        return aff_pack({name: 1}, 0)
    return None


# ---------------------------------------------------------------------------------------------------------------------- sum fields
# A second description of a word, carried next to its bits: a tuple of fields (lo, width, terms) — bits lo..lo+width hold
# (the number of terms that are 1) mod 2^width, every bit outside the fields is 0.  It is what in-register counting ("SWAR" population
# counts: mask, shift, add, fold) keeps exact when the per-bit polynomials have long become too large: adding two words whose fields line up
# adds the counters, masking keeps / drops / truncates them, shifting moves them.  Every operation either yields the exact description or None.

def sf_lift(x):
    if x.sf is not None:
        return x.sf
    if x.is_conc():
        return tuple((i, 1, (ONE,)) for i in range(x.w) if (x.val >> i) & 1)
    out = []
    for i, t in enumerate(x.bits):
        if t is TOP:
            return None
        if len(t):
            out.append((i, 1, (t,)))
    return tuple(out)


def _sf_exact_width(f):
    """bits a field really occupies: an exact counter of n terms needs n.bit_length() bits"""
    lo, wd, terms = f
    return min(wd, len(terms).bit_length())


def sf_add(w, fa, fb):
    if fa is None or fb is None:
        return None
    by_lo = {}
    for f in list(fa) + list(fb):
        if len(f[2]) >= (1 << f[1]):
            return None         # a counter already reduced modulo 2^width: sums of such are not counters
        by_lo.setdefault(f[0], []).append(f)
    out = []
    los = sorted(by_lo)
    for i, lo in enumerate(los):
        terms = tuple(t for f in by_lo[lo] for t in f[2])
        need = len(terms).bit_length()
        nxt = los[i + 1] if i + 1 < len(los) else None
        if nxt is not None and lo + need > nxt:
            return None         # a carry could run into the next counter
        # operands whose fields overlap without starting at the same bit
        for f in by_lo[lo]:
            if nxt is not None and lo + _sf_exact_width(f) > nxt:
                return None
        out.append((lo, min(need, w - lo), terms))
    return tuple(out)


def sf_mask(fa, mask):
    if fa is None:
        return None
    out = []
    for f in fa:
        lo, wd, terms = f
        ew = _sf_exact_width(f) if len(terms) < (1 << wd) else wd
        m = (mask >> lo) & ((1 << ew) - 1)
        if m == 0:
            continue
        if m == (1 << ew) - 1:
            out.append(f)
        elif m & (m + 1) == 0:
            out.append((lo, m.bit_length(), terms))        # the low bits of the counter: the count modulo 2^k
        else:
            return None
    return tuple(out)


def sf_shift(fa, n, w, left):
    if fa is None:
        return None
    out = []
    for (lo, wd, terms) in fa:
        if left:
            if lo + n >= w:
                continue
            out.append((lo + n, min(wd, w - lo - n), terms))
        else:
            if lo >= n:
                out.append((lo - n, wd, terms))
            elif lo + _sf_exact_width((lo, wd, terms)) <= n and len(terms) < (1 << wd):
                continue
            else:
                return None
    return tuple(out)


def sf_union(fa, fb):
    """OR / XOR of words whose counters occupy disjoint bits"""
    if fa is None or fb is None:
        return None
    fs = sorted(list(fa) + list(fb))
    for x, y in zip(fs, fs[1:]):
        if x[0] + x[1] > y[0]:
            return None
    return tuple(fs)


def _sf_result(op, a, b, r):
    if r.is_conc():
        return None
    base = op.replace("Unchecked", "")
    if base == "Add":
        return sf_add(r.w, sf_lift(a), sf_lift(b))
    if a.sf is None and b.sf is None:
        return None
    if base == "BitAnd":
        if b.is_conc():
            return sf_mask(a.sf, b.val)
        if a.is_conc():
            return sf_mask(b.sf, a.val)
        return None
    if base in ("BitOr", "BitXor"):
        return sf_union(sf_lift(a), sf_lift(b))
    if base in ("Shl", "Shr") and b.is_conc() and a.sf is not None and not (base == "Shr" and a.signed):
        return sf_shift(a.sf, b.val, r.w, base == "Shl")
    if base == "Mul":
        for x, y in ((a, b), (b, a)):
            if y.is_conc() and x.sf is not None and 0 < bin(y.val).count("1") <= 16:
                acc = ()
                for i in range(y.val.bit_length()):
                    if (y.val >> i) & 1:
                        acc = sf_add(r.w, acc, sf_shift(x.sf, i, r.w, True))
                        if acc is None:
                            return None
                return acc
    return None


def sf_attach(r, sf):
    """record the description on a result; bits the ANF lost (TOP) are refined to 0 where no counter lives"""
    if sf is None or r.is_conc():
        return r
    r.sf = sf
    if r.bits is not None and any(t is TOP for t in r.bits):
        live = set()
        for (lo, wd, terms) in sf:
            live.update(range(lo, lo + wd))
        r.bits = tuple((t if (i in live or t is not TOP) else ZERO) for i, t in enumerate(r.bits))
    return r


def binop(op, a, b):
    """returns Int (or tuple for WithOverflow ops handled by caller)"""
    r = _binop(op, a, b)
    if isinstance(r, Int) and not r.is_conc() and op.replace("Unchecked", "") in ("Add", "BitAnd", "BitOr", "BitXor", "Shl", "Shr", "Mul"):
        try:
            sf_attach(r, _sf_result(op, a, b, r))
        except (TypeError, AttributeError):
            pass
    if isinstance(r, Int) and not r.is_conc() and op not in ("Eq", "Ne", "Lt", "Le", "Gt", "Ge") and (a.aff is not None or b.aff is not None):
        af = aff_binop(op, a, b)
        if af is not None:
            if not af[0]:
                return Int(r.w, r.signed, val=af[1], kind=r.kind)
            r.aff = af
    return r


def _binop(op, a, b):
    w = a.w
    mask = (1 << w) - 1
    if op in ("Add", "AddUnchecked", "Sub", "SubUnchecked", "Mul", "MulUnchecked"):
        base = op.replace("Unchecked", "")
        if a.is_conc() and b.is_conc():
            if base == "Add":
                return a.like(val=(a.val + b.val) & mask)
            if base == "Sub":
                return a.like(val=(a.val - b.val) & mask)
            return a.like(val=(a.val * b.val) & mask)
        if base == "Mul":
            # symbolic * power of two
            for x, y in ((a, b), (b, a)):
                if y.is_conc() and y.val != 0 and (y.val & (y.val - 1)) == 0:
                    sh = y.val.bit_length() - 1
                    bits = x.getbits()
                    return a.like(bits=[ZERO] * sh + list(bits[: w - sh]))
                if y.is_conc() and y.val == 0:
                    return a.like(val=0)
            return top_int(w, a.signed)
        # ripple carry add / sub
        xa = a.getbits()
        xb = b.getbits()
        if base == "Sub":
            xb = [t_not(t) for t in xb]
            carry = ONE
        else:
            carry = ZERO
        out = []
        for i in range(w):
            s = t_xor(t_xor(xa[i], xb[i]), carry)
            out.append(s)
            # carry = maj(a,b,c) = ab ^ c(a^b)
            carry = t_xor(t_and(xa[i], xb[i]), t_and(carry, t_xor(xa[i], xb[i])))
        return a.like(bits=out)
    if op in ("BitAnd", "BitOr", "BitXor"):
        if a.is_conc() and b.is_conc():
            v = {"BitAnd": a.val & b.val, "BitOr": a.val | b.val, "BitXor": a.val ^ b.val}[op]
            return a.like(val=v)
        f = {"BitAnd": t_and, "BitOr": t_or, "BitXor": t_xor}[op]
        return a.like(bits=[f(x, y) for x, y in zip(a.getbits(), b.getbits())])
    if op in ("Shl", "ShlUnchecked", "Shr", "ShrUnchecked"):
        if not b.is_conc():
            return top_int(w, a.signed)
        sh = b.val
        if sh >= w:
            if op.endswith("Unchecked"):
                raise UB("shift amount %d >= width %d" % (sh, w))
            raise UB("shift amount %d >= width %d (panics in debug builds, wraps in release)" % (sh, w))
        if a.is_conc():
            if op.startswith("Shl"):
                return a.like(val=(a.val << sh) & mask)
            if a.signed:
                return a.like(val=(a.sval() >> sh) & mask)
            return a.like(val=a.val >> sh)
        bits = list(a.getbits())
        if op.startswith("Shl"):
            return a.like(bits=[ZERO] * sh + bits[: w - sh])
        fill = bits[-1] if a.signed else ZERO
        return a.like(bits=bits[sh:] + [fill] * sh)
    if op in ("Div", "Rem"):
        if a.is_conc() and b.is_conc():
            if b.val == 0:
                raise UB("division by zero")
            if a.signed:
                q = abs(a.sval()) // abs(b.sval())
                if (a.sval() < 0) != (b.sval() < 0):
                    q = -q
                r = a.sval() - q * b.sval()
                return a.like(val=(q if op == "Div" else r) & mask)
            return a.like(val=(a.val // b.val) if op == "Div" else (a.val % b.val))
        if b.is_conc() and b.val != 0 and (b.val & (b.val - 1)) == 0 and not a.signed:
            sh = b.val.bit_length() - 1
            bits = list(a.getbits())
            if op == "Div":
                return a.like(bits=bits[sh:] + [ZERO] * sh)
            return a.like(bits=bits[:sh] + [ZERO] * (w - sh))
        return top_int(w, a.signed)
    if op in ("Eq", "Ne", "Lt", "Le", "Gt", "Ge"):
        r = compare(op, a, b)
        return mkbool(r) if r is not None else unknown_bool()
    raise NotImplementedError(op)


def compare(op, a, b):
    """three-valued comparison: True / False / None"""
    if (a.aff is not None or b.aff is not None) and not (a.is_conc() and b.is_conc()):
        fa, fb = aff_of(a), aff_of(b)
        if fa is not None and fb is not None:
            d = dict(fa[0])
            for k, v in fb[0].items():
                d[k] = d.get(k, 0) - v
            d = {k: v for k, v in d.items() if v != 0}
            if not d:
                c = fa[1] - fb[1]
                return {"Eq": c == 0, "Ne": c != 0, "Lt": c < 0, "Le": c <= 0, "Gt": c > 0, "Ge": c >= 0}[op]
        return None
    if a.is_conc() and b.is_conc():
        x, y = (a.sval(), b.sval()) if a.signed else (a.val, b.val)
        return {"Eq": x == y, "Ne": x != y, "Lt": x < y, "Le": x <= y, "Gt": x > y, "Ge": x >= y}[op]
    if op in ("Eq", "Ne"):
        ba, bb = a.getbits(), b.getbits()
        same = all((x is not TOP) and (y is not TOP) and x == y for x, y in zip(ba, bb))
        if same:
            return op == "Eq"
        # a definite differing constant bit
        for x, y in zip(ba, bb):
            cx, cy = t_is_const(x), t_is_const(y)
            if cx is not None and cy is not None and cx != cy:
                return op == "Ne"
            # x = not y
            if x is not TOP and y is not TOP and x == t_not(y):
                return op == "Ne"
        return None
    if a.signed:
        return None
    # structural decision: scan from the most significant bit; identical terms cannot decide, the first pair of different constants does
    ba, bb = a.getbits(), b.getbits()
    if len(ba) == len(bb):
        verdict = 0
        for x, y in zip(reversed(ba), reversed(bb)):
            if x is TOP or y is TOP:
                verdict = None
                break
            if x == y:
                continue
            cx, cy = t_is_const(x), t_is_const(y)
            if cx is not None and cy is not None:
                verdict = -1 if cx < cy else 1
            else:
                verdict = None
            break
        if verdict is not None:
            return {"Lt": verdict < 0, "Le": verdict <= 0, "Gt": verdict > 0, "Ge": verdict >= 0}[op]
    (alo, ahi), (blo, bhi) = a.rng(), b.rng()
    if op == "Lt":
        if ahi < blo:
            return True
        if alo >= bhi:
            return False
    elif op == "Le":
        if ahi <= blo:
            return True
        if alo > bhi:
            return False
    elif op == "Gt":
        if alo > bhi:
            return True
        if ahi <= blo:
            return False
    elif op == "Ge":
        if alo >= bhi:
            return True
        if ahi < blo:
            return False
    return None


def unop(op, a):
    if op == "Not":
        if a.kind == "bool":
            if a.is_conc():
                return mkbool(not a.val)
            return Int(1, False, bits=[t_not(a.getbits()[0])], kind="bool")
        if a.is_conc():
            return a.like(val=~a.val)
        return a.like(bits=[t_not(x) for x in a.getbits()])
    if op == "Neg":
        zero = a.like(val=0)
        return binop("Sub", zero, a)
    raise NotImplementedError(op)


def cast(a, w, signed, kind="int"):
    if a.is_conc():
        v = a.sval() if a.signed else a.val
        return Int(w, signed, val=v, kind=kind)
    bits = list(a.getbits())
    if w < a.w:
        # truncation is not linear: a derived atom (so that a comparison on the truncated value is recognisably not the original one)
        af = None if a.aff is None else aff_pack({"(trunc%d %s)" % (w, aff_str(a.aff)): 1}, 0)
        r = Int(w, signed, bits=bits[:w], kind=kind, aff=af)
        if a.sf is not None and not r.is_conc():
            r.sf = sf_mask(a.sf, (1 << w) - 1)
        return r
    if w == a.w:
        r = Int(w, signed, bits=bits[:w], kind=kind, aff=a.aff)
    else:
        fill = bits[-1] if a.signed else ZERO
        r = Int(w, signed, bits=bits + [fill] * (w - a.w), kind=kind, aff=a.aff)
    if a.sf is not None and not r.is_conc() and not a.signed:
        r.sf = a.sf
    return r


def popcount_terms(a):
    """the multiset of bit terms whose sum is count_ones(a) (zero terms dropped)"""
    return [t for t in a.getbits() if not (t is not TOP and len(t) == 0)]
