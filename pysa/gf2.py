"""Affine systems over GF(2) on the named input bits of the bit-vector domain (bv.py): a decision procedure for comparisons between
bit-vectors whose bits are XORs of input bits (permutations, complements, shifts, masks with constants).  An equation is
(frozenset of variable ids, constant bit) meaning XOR(vars) = const."""
from . import bv


def term_eq(t):
    """the equation `t = 0` for an ANF term t, if t is affine (degree <= 1); None otherwise"""
    if t is bv.TOP:
        return None
    vs, c = set(), 0
    for m in t:
        if len(m) == 0:
            c ^= 1
        elif len(m) == 1:
            vs ^= set(m)
        else:
            return None
    return (frozenset(vs), c)


def vec_eqs(a_bits, b_bits):
    """equations for `a == b` bit by bit, or None if some bit is not affine"""
    out = []
    for x, y in zip(a_bits, b_bits):
        if x is bv.TOP or y is bv.TOP:
            return None
        e = term_eq(bv.t_xor(x, y))
        if e is None:
            return None
        out.append(e)
    return out


class System:
    """row-reduced affine system; `rows` maps a pivot variable to (other variables, constant)"""

    def __init__(self, eqs=()):
        self.rows = {}
        self.consistent = True
        for e in eqs:
            self.add(e)

    def copy(self):
        s = System()
        s.rows = dict(self.rows)
        s.consistent = self.consistent
        return s

    def reduce(self, eq):
        vs, c = set(eq[0]), eq[1]
        changed = True
        while changed:
            changed = False
            for v in list(vs):
                if v in self.rows:
                    rv, rc = self.rows[v]
                    vs ^= {v}
                    vs ^= set(rv)
                    c ^= rc
                    changed = True
        return frozenset(vs), c

    def add(self, eq):
        """-> 'redundant' | 'new' | 'inconsistent'"""
        vs, c = self.reduce(eq)
        if not vs:
            if c:
                self.consistent = False
                return "inconsistent"
            return "redundant"
        p = min(vs)
        rest = frozenset(vs - {p})
        # substitute the new pivot into the existing rows
        for q, (rv, rc) in list(self.rows.items()):
            if p in rv:
                nv = set(rv) ^ {p} ^ set(rest)
                self.rows[q] = (frozenset(nv), rc ^ c)
        self.rows[p] = (rest, c)
        return "new"

    def status(self, eq):
        """'implied' / 'contradicted' / 'open' for a single equation under this system"""
        vs, c = self.reduce(eq)
        if not vs:
            return "contradicted" if c else "implied"
        return "open"

    def solution(self, prefer=None):
        """one solution (dict var -> bit); free variables take `prefer.get(v, 0)`"""
        prefer = prefer or {}
        sol = {}
        free = set()
        for p, (rv, rc) in self.rows.items():
            free |= set(rv)
        free -= set(self.rows)
        for v in free:
            sol[v] = prefer.get(v, 0)
        for p, (rv, rc) in self.rows.items():
            b = rc
            for v in rv:
                b ^= sol.get(v, prefer.get(v, 0))
            sol[p] = b
        return sol


def holds(eq, sol):
    b = 0
    for v in eq[0]:
        b ^= sol.get(v, 0)
    return b == eq[1]
