"""Decision tables of DESIGN.md Appendix B, checked with the DT harness."""
from . import bv, cfg as C
from .bv import Int, mkbool
from .absint import (Adt, Arr, Cell, Closure, Diverge, FnItem, Harness, Interp, Opaque, Ref, Tup, Undecided,
                     Unsupported, VecV, UNINIT, tags_of, with_tags)
from .dt import (BOTTOM, DIR, LEFT, RIGHT, Oracles, builds_variant, check_table, dir_name, dir_of, dir_v, explore,
                 flip, is_print_call, xor_dir)
from .models import some, none, deref_val

EXTS = "Exts"


def role_of(v):
    """role of a k-mer-like abstract value from its provenance tags"""
    t = tags_of(v)
    if "next" in t:
        return "next"
    if "cur" in t:
        return "cur"
    return None


def recv(it, a):
    """value behind a (possibly double) reference"""
    v = a
    n = 0
    while isinstance(v, Ref) and n < 4:
        v = it.read(v.cell, v.path)
        n += 1
    return v


def struct_of(F, adt_path, fields):
    """build an Adt value for a local struct from a name->value dict (declared field order)"""
    a = F.adts.get(adt_path)
    if a is None:
        raise Unsupported("anchor-missing: struct %s" % adt_path)
    vals = []
    for f in a["variants"][0]["fields"]:
        if f["name"] in fields:
            vals.append(fields[f["name"]])
        elif "PhantomData" in f["ty"]:
            vals.append(Adt("std::marker::PhantomData", 0, []))
        else:
            # a field the harness knows nothing about (added by a refactoring: a cached length, a redundant counter …): an unknown value of
            # its type.  Code that merely carries it along is unaffected; code that branches on it makes the run undecided (INCONCLUSIVE)
            ty = f["ty"]
            widths = {"u8": 8, "u16": 16, "u32": 32, "u64": 64, "usize": 64, "u128": 128, "i8": 8, "i16": 16, "i32": 32, "i64": 64, "isize": 64, "i128": 128}
            if ty in widths:
                vals.append(Int(widths[ty], ty.startswith("i"), bits=[bv.TOP] * widths[ty], tags=frozenset({"unknown-field:" + f["name"]})))
            elif ty == "bool":
                vals.append(bv.unknown_bool())
            else:
                vals.append(Opaque(ty, {"unknown-field:" + f["name"]}))
    return Adt(adt_path, 0, vals)


# =========================================================================== B.1 hash-route step

class HashStepOracles(Oracles):
    """oracles for the function that constructs ExtMode::Unique (compression, hash route)"""

    DOMAINS = {
        "n_cur": (1, 0, 2), "pal_cur": (False, True), "flip": (False, True), "present": (True, False),
        "avail": (True, False), "n_in": (1, 0, 2), "pal_next": (False, True), "join": (True, False),
        "next_is_cur": (False, True), "next_is_rc_of_cur": (False, True),
    }

    def __init__(self, script, stranded, d):
        Oracles.__init__(self, script)
        self.fixed("stranded", stranded)
        self.fixed("dir", d)
        self.exts_cells = {}
        self.data_cells = {}

    def exts_ref(self, role):
        if role not in self.exts_cells:
            self.exts_cells[role] = Cell(Opaque(EXTS, {"exts", "exts-of-" + role}), "exts[%s]" % role)
        return Ref(self.exts_cells[role])

    def data_ref(self, role):
        if role not in self.data_cells:
            self.data_cells[role] = Cell(Opaque("D", {"data", "data-of-" + role}), "data[%s]" % role)
        return Ref(self.data_cells[role])

    def exts_role(self, v):
        t = tags_of(v)
        for r in ("cur", "next"):
            if "exts-of-" + r in t:
                return r
        return None

    def on_call(self, it, fn, args, dest_ty, term, caller):
        path = fn.get("rpath") or fn.get("path", "")
        p = fn.get("path", "")
        name = p.split("::")[-1]
        if is_print_call(fn):
            return Opaque(dest_ty, {"fmt"})
        # ---- index look-ups
        if name in ("get_kmer_data",) or (name == "get" and "BoomHashMap2" in p):
            k = recv(it, args[1])
            role = role_of(k)
            if role is None:
                raise Undecided("look-up of a k-mer with unknown role %r" % (k,))
            self.observe("lookup-data", (role, frozenset(tags_of(k))))
            if role == "next" and not self.choose("present", self.DOMAINS["present"]):
                if name == "get":
                    return none()
                raise Diverge("data look-up of an absent k-mer")
            t = Tup([self.exts_ref(role), self.data_ref(role)])
            return some(t) if name == "get" else t
        if name in ("get_kmer_id",) or (name == "get_key_id" and "BoomHashMap2" in p):
            k = recv(it, args[1])
            role = role_of(k)
            if role is None:
                raise Undecided("id look-up of a k-mer with unknown role %r" % (k,))
            self.observe("lookup-id", (role, frozenset(tags_of(k))))
            if role == "cur":
                return some(Int(64, False, bits=[bv.TOP] * 64, tags=frozenset({"id-of-cur"})))
            if self.choose("present", self.DOMAINS["present"]):
                w = 64
                return some(Int(w, False, bits=[bv.TOP] * w, tags=frozenset({"id-of-next"})))
            return none()
        # ---- availability
        if p.endswith("BitSet::contains") or path.endswith("BitSet::contains") or (name == "contains" and "bit_set" in p):
            idv = args[1]
            self.observe("contains-arg", frozenset(tags_of(idv)))
            return mkbool(self.choose("avail", self.DOMAINS["avail"]))
        if (p.endswith("BitSet::remove") or path.endswith("BitSet::remove") or (name == "remove" and "bit_set" in p.split("<")[0])) and len(args) == 2:
            # a step function that claims the element it accepts (a duty the growth function has on the pinned tree): what is claimed is
            # observed; whether every placed element is claimed in time is decided end to end by the chain tables
            self.observe("claimed", frozenset(tags_of(args[1])))
            # BitSet::remove answers whether the element was present: for the element the step is about to enter that is the availability oracle
            return mkbool(self.choose("avail", self.DOMAINS["avail"]))
        if (p.endswith("BitSet::insert") or path.endswith("BitSet::insert") or (name == "insert" and "bit_set" in p.split("<")[0])) and len(args) == 2:
            # ... and a claim that is handed back when the step is rejected after all
            self.observe("unclaimed", frozenset(tags_of(args[1])))
            return mkbool(True)
        # ---- extension queries
        if (p.startswith("Exts::") or path.startswith("Exts::")) and args:
            e = recv(it, args[0])
            role = self.exts_role(e)
            if role is not None and name in ("num_ext_dir", "get_unique_extension", "single_dir", "num_exts_l", "num_exts_r", "has_ext", "get"):
                if name in ("num_exts_l", "num_exts_r"):
                    side = LEFT if name == "num_exts_l" else RIGHT
                else:
                    side = dir_of(args[1]) if len(args) > 1 else None
                if side is None:
                    raise Undecided("extension query with undetermined side")
                oname = "n_cur" if role == "cur" else "n_in"
                if name in ("num_ext_dir", "num_exts_l", "num_exts_r"):
                    self.observe("asked-side-" + role, side)
                    n = self.choose(oname, self.DOMAINS[oname])
                    return Int(8, False, val=n)
                if name == "get_unique_extension":
                    self.observe("asked-side-" + role, side)
                    n = self.choose(oname, self.DOMAINS[oname])
                    if n == 1:
                        return some(Int(8, False, bits=[bv.TOP] * 8, tags=frozenset({"ext-base-of-" + role, "side-%d" % side})))
                    return none()
                if name == "single_dir":
                    return Adt(EXTS, 0, [Int(8, False, bits=[bv.TOP] * 8)], tags=frozenset({"single_dir", "of-" + role, "side-%d" % side}))
                raise Undecided("extension query %s not modelled in the step table" % name)
        # ---- k-mer predicates / constructors on the abstract k-mer type
        tr = fn.get("trait", "")
        if tr == "Kmer" or tr == "Mer":
            k = recv(it, args[0]) if args else None
            role = role_of(k) if k is not None else None
            if name == "is_palindrome":
                if role is None:
                    raise Undecided("palindrome test on unknown k-mer")
                self.observe("pal-asked", (role, frozenset(tags_of(k))))
                return mkbool(self.choose("pal_cur" if role == "cur" else "pal_next", (False, True)))
            if name in ("extend", "extend_left", "extend_right"):
                if name == "extend":
                    d = dir_of(args[2])
                else:
                    d = LEFT if name == "extend_left" else RIGHT
                self.observe("extend", (role, d, frozenset(tags_of(args[1]))))
                return Opaque("K", {"next", "plain", "extdir-%s" % d})
            if name == "min_rc_flip":
                self.observe("canonicalise", ("min_rc_flip", role))
                f = self.choose("flip", self.DOMAINS["flip"])
                base = tags_of(k) - {"plain"}
                return Tup([Opaque("K", base | {"canon"}), mkbool(f)])
            if name == "min_rc":
                self.observe("canonicalise", ("min_rc", role))
                base = tags_of(k) - {"plain"}
                return Opaque("K", base | {"canon"})
            if name == "rc":
                self.observe("canonicalise", ("rc", role))
                return Opaque("K", (tags_of(k) - {"plain", "canon"}) | {"rc-of"})
        if name == "join_test":
            a, b = recv(it, args[1]), recv(it, args[2])
            self.observe("join-args", (frozenset(tags_of(a)), frozenset(tags_of(b))))
            return mkbool(self.choose("join", self.DOMAINS["join"]))
        # ---- equality between the (plain) neighbour and the current k-mer / its reverse complement: a k-mer can be its own neighbour
        # (homopolymer) or the neighbour of its reverse complement (hairpin); both are facts about the data
        if name in ("eq", "ne") and fn.get("trait", "").endswith("PartialEq") and len(args) == 2:
            a, b = recv(it, args[0]), recv(it, args[1])
            if isinstance(a, Opaque) and isinstance(b, Opaque):
                for x, y in ((a, b), (b, a)):
                    tx, ty = tags_of(x), tags_of(y)
                    if "next" in tx and "plain" in tx and "cur" in ty and "next" not in ty:
                        which = "next_is_rc_of_cur" if "rc-of" in ty else "next_is_cur"
                        same = self.choose(which, (False, True))
                        return mkbool(same if name == "eq" else not same)
        return NotImplemented

    def opaque_field(self, it, v, i, fty):
        # the raw extension byte of the current / the neighbour k-mer read directly (bit tricks instead of the query methods): a concrete
        # byte consistent with the row — the walking / arrival side carries n_cur / n_in extensions, the far side any number (oracle)
        role = self.exts_role(v)
        if role is None or i != 0:
            return None
        d = self.memo.get("dir")
        stranded = self.memo.get("stranded")
        if role == "cur":
            side, n_side = d, self.choose("n_cur", self.DOMAINS["n_cur"])
            n_far = self.choose("n_cur_far", (1, 0, 2))
        else:
            f = (not stranded) and bool(self.memo.get("flip", False))
            side = xor_dir(flip(d), f)
            n_side = self.choose("n_in", self.DOMAINS["n_in"])
            n_far = self.choose("n_far", (1, 0, 2))
        m = 0
        for (sd, n) in ((side, n_side), (flip(side), n_far)):
            for b in range(n):
                m |= 1 << (b + (4 if sd == RIGHT else 0))
        return Int(8, False, val=m)


def hash_step_spec(g):
    stranded, d = g("stranded"), g("dir")
    canon = not stranded
    term = ("Terminal", "cur", d)
    if g("n_cur") != 1 or (canon and g("pal_cur")):
        return term
    # a neighbour that is the current k-mer itself (or, unstranded, its reverse complement: the same table entry) is already on the path
    # and therefore not available: rows claiming otherwise are outside the walk's invariant
    if g("next_is_cur") or (canon and g("next_is_rc_of_cur")):
        if g("present") and g("avail"):
            return BOTTOM
    f = canon and g("flip")
    if not g("present") or not g("avail"):
        return term
    pal = canon and g("pal_next")
    n_in = g("n_in")
    if n_in == 0 and not pal:
        return BOTTOM
    if g("join") and n_in == 1 and not pal:
        asked = xor_dir(flip(d), f)
        return ("Unique", "canon" if canon else "plain", xor_dir(d, f), "next", flip(asked))
    return term


class _Any:
    """a component of an outcome the code does not produce (and nobody can therefore read)"""

    def __eq__(self, other):
        return True

    def __ne__(self, other):
        return False

    def __hash__(self):
        return 0

    def __repr__(self):
        return "n/a"


ANY = _Any()


def outcome_of_extmode(r):
    """normalise an ExtMode / ExtModeNode result"""
    if not isinstance(r, Adt):
        return ("?", repr(r))

    def exts_id(e):
        t = tags_of(e)
        role = "cur" if "of-cur" in t else ("next" if "of-next" in t else "?")
        side = 0 if "side-0" in t else (1 if "side-1" in t else "?")
        if "single_dir" not in t:
            role = "not-single_dir:" + role
        return role, side
    if r.variant == 1 and len(r.fields) == 1:      # Terminal(exts)
        role, side = exts_id(r.fields[0])
        return ("Terminal", role, side)
    if r.variant == 0 and len(r.fields) == 3:      # Unique(k, dir, exts)
        k, d, e = r.fields
        kt = tags_of(k)
        kk = "canon" if "canon" in kt else ("plain" if "plain" in kt else ("id-of-next" if "id-of-next" in kt else "?"))
        role, side = exts_id(e)
        return ("Unique", kk, dir_of(d), role, side)
    if r.variant == 0 and len(r.fields) == 2:      # Unique(k, dir): the onward extensions (which no caller reads on the pinned tree) are not reported
        k, d = r.fields
        kt = tags_of(k)
        kk = "canon" if "canon" in kt else ("plain" if "plain" in kt else ("id-of-next" if "id-of-next" in kt else "?"))
        return ("Unique", kk, dir_of(d), ANY, ANY)
    return ("?", repr(r))


def show_step(o):
    if o == BOTTOM:
        return "⊥"
    if o[0] == "Terminal":
        return "Terminal(single_dir(exts[%s], %s))" % (o[1], dir_name(o[2]) if o[2] in (0, 1) else o[2])
    if o[0] == "Unique" and o[3] is ANY:
        return "Unique(%s k-mer, dir=%s)" % (o[1], dir_name(o[2]) if o[2] in (0, 1) else o[2])
    if o[0] == "Unique":
        return "Unique(%s k-mer, dir=%s, single_dir(exts[%s], %s))" % (
            o[1], dir_name(o[2]) if o[2] in (0, 1) else o[2], o[3], dir_name(o[4]) if o[4] in (0, 1) else o[4])
    return repr(o)


def find_step(F, adt_suffix):
    c = [b for b in F.fns.values() if builds_variant(b, adt_suffix, "Unique") and not b.get("derived")]
    if len(c) != 1:
        raise Unsupported("role discovery: expected exactly one function constructing %s::Unique, found %d" % (adt_suffix, len(c)))
    return c[0]


def hash_step_table(F, rep, rule="C02.1"):
    """the complete decision table of the hash-route step function against B.1"""
    try:
        body = find_step(F, "compression::ExtMode")
    except Unsupported as e:
        rep.inconclusive(rule, "hash-route-step", str(e))
        return None
    self_ty = body["locals"][1]
    adt_path = C.adt_name(F, self_ty)
    total = {"rows": 0, "bad": 0, "inc": 0}
    all_leaves = []
    for stranded in (False, True):
        for d in (LEFT, RIGHT):
            def mk(script, stranded=stranded, d=d):
                return HashStepOracles(script, stranded, d)

            def run(h, stranded=stranded, d=d):
                it = Interp(F, False, h)
                me = struct_of(F, adt_path, {
                    "stranded": mkbool(stranded),
                    "spec": Ref(Cell(Opaque("S", {"spec"}), "spec")),
                    "available_kmers": Opaque("bit_set::BitSet", {"available"}),
                    "index": Ref(Cell(Opaque("index", {"index"}), "index")),
                })
                args = [Ref(Cell(me, "self")), Opaque("K", {"cur"}), dir_v(d)]
                r = it.call_body(body, args)
                h.interp = it
                out = outcome_of_extmode(r)
                return out
            leaves = explore(mk, run)
            all_leaves.extend(leaves)
            n, bad, inc = check_table(rep, rule, "hash-route-step/stranded=%s/dir=%s" % (stranded, dir_name(d)), leaves,
                                      hash_step_spec, HashStepOracles.DOMAINS,
                                      "step function of the k-mer route (%s), stranded=%s, dir=%s" % (body["path"].split("::")[-1], stranded, dir_name(d)),
                                      site=F.site(body, body["line"]), show=show_step)
            total["rows"] += n
            total["bad"] += bad
            total["inc"] += inc
            # per-row side conditions: which side was asked of the neighbour, what was canonicalised, what was joined
            side_rules(rep, rule, leaves, stranded, d, body, F)
    return all_leaves


def side_rules(rep, rule, leaves, stranded, d, body, F):
    key = "hash-route-step/side-conditions/stranded=%s/dir=%s" % (stranded, dir_name(d))
    problems = []
    for a, out, h in leaves:
        if isinstance(out, tuple) and out and out[0] in ("inconclusive", "diverge"):
            continue
        canon = not stranded
        f = canon and a.get("flip", False)
        for s in h.obs.get("asked-side-cur", []):
            if s != d:
                problems.append(("the current k-mer's extensions are counted on side %s while walking %s" % (dir_name(s), dir_name(d)), a))
        for s in h.obs.get("asked-side-next", []):
            want = xor_dir(flip(d), f)
            if s != want:
                problems.append(("the neighbour's incoming extensions are counted on side %s; arriving from %s%s they are on side %s" % (
                    dir_name(s), dir_name(d), " with a strand flip" if f else "", dir_name(want)), a))
        for (_, role) in h.obs.get("canonicalise", []):
            if stranded:
                problems.append(("a canonicalising operation (reverse complement / min_rc) is applied in stranded mode", a))
        for (role, ed, btags) in h.obs.get("extend", []):
            if ed != d:
                problems.append(("the k-mer is extended to the %s while walking %s" % (dir_name(ed) if ed in (0, 1) else ed, dir_name(d)), a))
            if "ext-base-of-cur" not in btags or ("side-%d" % d) not in btags:
                problems.append(("the base shifted in is not the unique extension of the current k-mer on the walking side", a))
        for (ta, tb) in h.obs.get("join-args", []):
            if not ("data-of-cur" in ta and "data-of-next" in tb) and not ("data-of-next" in ta and "data-of-cur" in tb):
                problems.append(("join_test is not applied to the payloads of the current and the next k-mer", a))
        for t in h.obs.get("contains-arg", []):
            if "id-of-next" not in t:
                problems.append(("availability is tested for something other than the neighbour k-mer's id", a))
        # the k-mer looked up must be the canonical one when unstranded
        for (role, tags) in h.obs.get("lookup-id", []) + h.obs.get("lookup-data", []):
            if role == "next" and canon and "canon" not in tags:
                problems.append(("the neighbour is looked up by its non-canonical form in unstranded mode", a))
    rep.evaluations += len(leaves)
    if problems:
        msg, a = problems[0]
        rep.violated(rule, key, "step function (%s): %s  [row %s]" % (body["path"].split("::")[-1], msg, {k: v for k, v in a.items()}),
                     witness={"kind": "row", "row": {k: str(v) for k, v in a.items()}, "problem": msg, "count": len(problems)},
                     site=F.site(body, body["line"]))
    else:
        rep.holds(rule, key, "asked sides, canonicalisation, shifted base, join operands and availability operand are the specified ones on all %d rows" % len(leaves))


# =========================================================================== B.2 graph-route step

LINKS = (("some", LEFT, False), ("some", RIGHT, False), ("some", LEFT, True), ("some", RIGHT, True), ("none",))
CONSISTENT = {(LEFT, RIGHT, False), (LEFT, LEFT, True), (RIGHT, LEFT, False), (RIGHT, RIGHT, True)}


class GraphStepOracles(HashStepOracles):
    DOMAINS = dict(HashStepOracles.DOMAINS)
    DOMAINS.update({"len_is_K": (False, True), "pal_first": (False, True), "pal_cur_end": (False, True), "link": LINKS, "next_len_is_K": (False, True)})

    def node_role(self, n):
        t = tags_of(n)
        if "id-of-next" in t:
            return "next"
        if "cur-id" in t:
            return "cur"
        return None

    def on_call(self, it, fn, args, dest_ty, term, caller):
        p = fn.get("path", "")
        name = p.split("::")[-1]
        if is_print_call(fn):
            return Opaque(dest_ty, {"fmt"})
        if p.startswith("graph::Node::<") or p.startswith("graph::Node<"):
            n = recv(it, args[0])
            role = self.node_role(n)
            if role is None:
                raise Undecided("node of unknown role %r" % (n,))
            if name == "sequence":
                return Opaque("DnaStringSlice", {"seq", "seq-of-" + role, role})
            if name == "exts":
                return deref_val(it, self.exts_ref(role))
            if name == "data":
                return self.data_ref(role)
            if name == "len":
                return Int(64, False, bits=[bv.TOP] * 64, tags=frozenset({"len-of-" + role}))
        if name == "k" and fn.get("trait") == "Kmer":
            return Int(64, False, bits=[bv.TOP] * 64, tags=frozenset({"K"}))
        if fn.get("trait") == "Vmer" or fn.get("trait") == "Mer":
            s_ = recv(it, args[0]) if args else None
            st = tags_of(s_) if s_ is not None else frozenset()
            if "seq" in st:
                role = "next" if "next" in st else "cur"
                # first_kmer() is the terminal k-mer of the Left end, last_kmer() that of the Right end — however the code names it
                if name in ("get_kmer", "first_kmer"):
                    self.observe("first-kmer", role)
                    return Opaque("K", {role, "first-kmer", "term-kmer", "side-%s" % LEFT})
                if name == "last_kmer":
                    return Opaque("K", {role, "last-kmer", "term-kmer", "side-%s" % RIGHT})
                if name == "term_kmer":
                    d = dir_of(args[1])
                    self.observe("term-kmer", (role, d))
                    return Opaque("K", {role, "term-kmer", "side-%s" % d})
        if name == "find_link":
            k = recv(it, args[1])
            d = dir_of(args[2])
            self.observe("find_link", (frozenset(tags_of(k)), d))
            l = self.choose("link", self.DOMAINS["link"])
            if l[0] == "none":
                return none()
            return some(Tup([Int(64, False, bits=[bv.TOP] * 64, tags=frozenset({"id-of-next"})), dir_v(l[1]), mkbool(l[2])]))
        if name == "is_palindrome" and fn.get("trait") == "Kmer":
            k = recv(it, args[0])
            t = tags_of(k)
            if "first-kmer" in t and "cur" in t:
                return mkbool(self.choose("pal_first", (False, True)))
            if "next" in t:
                self.observe("pal-asked", ("next", frozenset(t)))
                return mkbool(self.choose("pal_next", (False, True)))
            if "cur" in t and ("term-kmer" in t or "last-kmer" in t):
                # the end k-mer of the current node: the node's only k-mer when the node has length K, an independent fact otherwise
                if self.choose("len_is_K", (False, True)):
                    return mkbool(self.choose("pal_first", (False, True)))
                return mkbool(self.choose("pal_cur_end", (False, True)))
            raise Undecided("palindrome test on %r" % (k,))
        if name in ("extend", "extend_left", "extend_right") and fn.get("trait") == "Kmer":
            k = recv(it, args[0])
            d = dir_of(args[2]) if name == "extend" else (LEFT if name == "extend_left" else RIGHT)
            self.observe("extend", ("cur" if "cur" in tags_of(k) else None, d, frozenset(tags_of(args[1])), frozenset(tags_of(k))))
            return Opaque("K", {"next", "plain", "extdir-%s" % d})
        return HashStepOracles.on_call(self, it, fn, args, dest_ty, term, caller)

    def opaque_field(self, it, v, i, fty):
        role = self.exts_role(v)
        if role != "next" or i != 0:
            return HashStepOracles.opaque_field(self, it, v, i, fty)
        # the neighbour node's raw extension byte: n_in extensions on the side the link arrives at, any number on the far side
        l = self.memo.get("link")
        if not l or l[0] != "some":
            return None
        side = l[1]
        n_side = self.choose("n_in", self.DOMAINS["n_in"])
        n_far = self.choose("n_far", (1, 0, 2))
        m = 0
        for (sd, n) in ((side, n_side), (flip(side), n_far)):
            for b in range(n):
                m |= 1 << (b + (4 if sd == RIGHT else 0))
        return Int(8, False, val=m)

    def unknown_compare(self, it, op, a, b):
        ta, tb = tags_of(a), tags_of(b)
        for x, y in ((ta, tb), (tb, ta)):
            if "K" in y and op in ("Eq", "Ne"):
                if "len-of-cur" in x:
                    v = self.choose("len_is_K", (False, True))
                    return v if op == "Eq" else not v
                if "len-of-next" in x:
                    v = self.choose("next_len_is_K", (False, True))
                    return v if op == "Eq" else not v
        return None


def graph_step_spec(g):
    stranded, d = g("stranded"), g("dir")
    term = ("Terminal", "cur", d)
    if g("n_cur") != 1:
        return term
    if (not stranded) and g("len_is_K") and g("pal_first"):
        return term
    l = g("link")
    if l[0] == "none":
        return BOTTOM
    side, rc = l[1], l[2]
    if (not g("next_len_is_K")) and (d, side, rc) not in CONSISTENT:
        return BOTTOM
    if (not g("avail")) or ((not stranded) and g("pal_next")) or (not g("join")):
        return term
    n_in = g("n_in")
    if n_in == 0:
        return BOTTOM
    if n_in == 1:
        return ("Unique", "id-of-next", flip(side), "next", flip(side))
    return term


def graph_step_table(F, rep, rule="C09.2"):
    try:
        body = find_step(F, "compression::ExtModeNode")
    except Unsupported as e:
        rep.inconclusive(rule, "graph-route-step", str(e))
        return None
    adt_path = C.adt_name(F, body["locals"][1])
    all_leaves = []
    for stranded in (False, True):
        for d in (LEFT, RIGHT):
            def mk(script, stranded=stranded, d=d):
                return GraphStepOracles(script, stranded, d)

            def run(h, stranded=stranded, d=d):
                it = Interp(F, False, h)
                me = struct_of(F, adt_path, {
                    "stranded": mkbool(stranded),
                    "spec": Ref(Cell(Opaque("S", {"spec"}), "spec")),
                    "available_nodes": Opaque("bit_set::BitSet", {"available"}),
                    "graph": Ref(Cell(Opaque("graph", {"graph"}), "graph")),
                })
                args = [Ref(Cell(me, "self")), Int(64, False, bits=[bv.TOP] * 64, tags=frozenset({"cur-id"})), dir_v(d)]
                return outcome_of_extmode(it.call_body(body, args))
            leaves = explore(mk, run)
            all_leaves.extend(leaves)
            check_table(rep, rule, "graph-route-step/stranded=%s/dir=%s" % (stranded, dir_name(d)), leaves, graph_step_spec,
                        GraphStepOracles.DOMAINS,
                        "step function of the graph route (%s), stranded=%s, dir=%s" % (body["path"].split("::")[-1], stranded, dir_name(d)),
                        site=F.site(body, body["line"]), show=show_step)
            graph_side_rules(rep, rule, leaves, stranded, d, body, F)
    return all_leaves


def graph_side_rules(rep, rule, leaves, stranded, d, body, F):
    key = "graph-route-step/side-conditions/stranded=%s/dir=%s" % (stranded, dir_name(d))
    problems = []
    for a, out, h in leaves:
        if isinstance(out, tuple) and out and out[0] in ("inconclusive", "diverge"):
            continue
        for s in h.obs.get("asked-side-cur", []):
            if s != d:
                problems.append(("the current node's extensions are counted on side %s while walking %s" % (dir_name(s), dir_name(d)), a))
        l = a.get("link")
        for s in h.obs.get("asked-side-next", []):
            if l and l[0] == "some" and s != l[1]:
                problems.append(("the neighbour's incoming extensions are counted on side %s, the link arrives on side %s" % (dir_name(s), dir_name(l[1])), a))
        for (role, td) in h.obs.get("term-kmer", []):
            if td != d:
                problems.append(("the terminal k-mer is taken from the %s end while walking %s" % (dir_name(td) if td in (0, 1) else td, dir_name(d)), a))
        for e in h.obs.get("extend", []):
            role, ed, btags, ktags = e
            if ed != d:
                problems.append(("the end k-mer is extended to the %s while walking %s" % (dir_name(ed) if ed in (0, 1) else ed, dir_name(d)), a))
            if "ext-base-of-cur" not in btags or ("side-%d" % d) not in btags:
                problems.append(("the base shifted in is not the unique extension on the walking side", a))
            if "term-kmer" not in ktags or ("side-%s" % d) not in ktags:
                problems.append(("the k-mer that is extended is not the terminal k-mer of the walking side", a))
        for (kt, fd) in h.obs.get("find_link", []):
            if "next" not in kt or fd != d:
                problems.append(("find_link is not asked for the extended k-mer in the walking direction", a))
        for (ta, tb) in h.obs.get("join-args", []):
            if not (("data-of-cur" in ta and "data-of-next" in tb) or ("data-of-next" in ta and "data-of-cur" in tb)):
                problems.append(("join_test is not applied to the payloads of the current and the next node", a))
        for t in h.obs.get("contains-arg", []):
            if "id-of-next" not in t:
                problems.append(("availability is tested for something other than the linked node's id", a))
    rep.evaluations += len(leaves)
    if problems:
        msg, a = problems[0]
        rep.violated(rule, key, "step function (%s): %s  [row %s]" % (body["path"].split("::")[-1], msg, dict(a)),
                     witness={"kind": "row", "row": {k: str(v) for k, v in a.items()}, "problem": msg, "count": len(problems)},
                     site=F.site(body, body["line"]))
    else:
        rep.holds(rule, key, "asked sides, terminal k-mer, shifted base, link query, join and availability operands are the specified ones on all %d rows" % len(leaves))


def slice_view_tables(F, rep):
    pass
