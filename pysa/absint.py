"""E2 — abstract interpreter over the MIR exported by dbgsa.

One interpreter, two harness modes (see DESIGN.md §3.2):
  * DT: generic bodies, calls on abstract (type-parameter) values answered by harness oracles;
    every branch must be decided, the outcome is one row of a decision table.
  * BV: monomorphic instances, integer inputs are vectors of per-bit provenance terms.

No solver, no path search: a branch whose condition is not decided by the abstract state makes
the run INCONCLUSIVE (Undecided), never a violation.
"""
from . import bv
from .bv import Int, mkbool

MAX_STEPS = 400000
MAX_DEPTH = 60


class Undecided(Exception):
    """a branch / discriminant could not be decided from the abstract state"""


class Diverge(Exception):
    """panic, failed assert, unreachable — the run has no result (⊥)"""


class Unsupported(Exception):
    """construct outside the modelled subset"""


class _Uninit:
    def __repr__(self):
        return "<uninit>"


UNINIT = _Uninit()


class Cell:
    __slots__ = ("v", "name")

    def __init__(self, v=UNINIT, name=None):
        self.v = v
        self.name = name


class Ref:
    __slots__ = ("cell", "path", "off", "len", "tags")

    def __init__(self, cell, path=(), off=0, len=None, tags=frozenset()):
        self.cell = cell
        self.path = path
        self.off = off      # for sub-slices: offset into the backing Arr/VecV
        self.len = len      # for sub-slices: length (None = whole container)
        self.tags = tags

    def __repr__(self):
        return "&%s%s%s" % (self.cell.name or "cell", list(self.path),
                            "" if self.len is None else "[%s..+%s]" % (self.off, self.len))


class Adt:
    __slots__ = ("name", "variant", "fields", "tags")

    def __init__(self, name, variant, fields, tags=frozenset()):
        self.name = name
        self.variant = variant
        self.fields = tuple(fields)
        self.tags = tags

    def __repr__(self):
        return "%s#%s(%s)" % (self.name.split("::")[-1], self.variant, ", ".join(map(repr, self.fields)))


class Tup:
    __slots__ = ("fields",)

    def __init__(self, fields):
        self.fields = tuple(fields)

    def __repr__(self):
        return "(%s)" % ", ".join(map(repr, self.fields))


class Arr:
    """fixed array or slice backing"""
    __slots__ = ("elems",)

    def __init__(self, elems):
        self.elems = tuple(elems)

    def __repr__(self):
        return "[%s]" % ", ".join(map(repr, self.elems))


class VecV:
    """model of Vec<T>: only its element sequence"""
    __slots__ = ("elems",)

    def __init__(self, elems=()):
        self.elems = tuple(elems)

    def __repr__(self):
        return "vec[%s]" % ", ".join(map(repr, self.elems))


class Closure:
    __slots__ = ("path", "upvars", "ckey")

    def __init__(self, path, upvars, ckey=None):
        self.path = path
        self.upvars = tuple(upvars)
        self.ckey = ckey

    def __repr__(self):
        return "closure<%s>" % self.path


class FnItem:
    __slots__ = ("fn",)

    def __init__(self, fn):
        self.fn = fn

    def __repr__(self):
        return "fn<%s>" % self.fn.get("path")


_opaque_ctr = [0]


class Opaque:
    """result of an unmodelled call / an abstract value of a type parameter"""
    __slots__ = ("ty", "tags", "id", "info")

    def __init__(self, ty, tags=frozenset(), info=None):
        self.ty = ty
        self.tags = frozenset(tags)
        _opaque_ctr[0] += 1
        self.id = _opaque_ctr[0]
        self.info = info or {}

    def __repr__(self):
        return "opaque<%s %s%s>" % (self.ty, sorted(self.tags), (" " + repr(self.info)) if self.info else "")


def tags_of(v):
    if isinstance(v, (Opaque, Adt, Int, Ref)):
        t = v.tags
        if isinstance(v, Adt):
            for f in v.fields:
                t = t | tags_of(f)
        return t
    if isinstance(v, Tup):
        t = frozenset()
        for f in v.fields:
            t = t | tags_of(f)
        return t
    return frozenset()


def with_tags(v, tags):
    tags = frozenset(tags)
    if not tags:
        return v
    if isinstance(v, Opaque):
        o = Opaque(v.ty, v.tags | tags, v.info)
        return o
    if isinstance(v, Adt):
        return Adt(v.name, v.variant, v.fields, v.tags | tags)
    if isinstance(v, Int):
        r = Int(v.w, v.signed, val=v.val, bits=v.bits, tags=v.tags | tags, kind=v.kind) if v.val is not None else \
            Int(v.w, v.signed, bits=v.bits, tags=v.tags | tags, kind=v.kind, aff=v.aff)
        return r
    if isinstance(v, Ref):
        return Ref(v.cell, v.path, v.off, v.len, v.tags | tags)
    return v


PANIC_PATHS = (
    "core::panicking::", "std::rt::panic_fmt", "std::rt::begin_panic", "core::option::unwrap_failed",
    "core::option::expect_failed", "core::result::unwrap_failed", "core::slice::index::slice_index_fail",
    "core::slice::index::slice_end_index_len_fail", "core::slice::index::slice_start_index_len_fail",
    "core::slice::index::slice_index_order_fail", "std::panicking::", "core::panic::", "std::process::abort",
    "core::slice::index::slice_end_index_overflow_fail", "core::str::slice_error_fail",
    "std::option::unwrap_failed", "std::option::expect_failed", "std::result::unwrap_failed",
)

ORD_NAME = "std::cmp::Ordering"

STRICT = True
BENIGN_PREFIXES = ("core::fmt", "std::fmt", "alloc::fmt", "std::io::_print", "std::io::_eprint", "std::io::stdio", "log::", "core::mem::drop", "std::mem::drop",
                   "core::mem::forget", "std::mem::forget", "core::hint::", "std::hint::", "core::panic::Location", "std::panic::Location")


def benign_opaque(fn):
    p = fn.get("path", "")
    rp = fn.get("rpath") or ""
    k = fn.get("key", "")
    if p.startswith(BENIGN_PREFIXES) or rp.startswith(BENIGN_PREFIXES) or "log::" in k:
        return True
    if p.split("::")[-1] in ("fmt",) and "fmt::" in (fn.get("trait") or ""):
        return True
    return False


class Frame:
    __slots__ = ("body", "locals", "depth")

    def __init__(self, body, depth):
        self.body = body
        self.locals = [Cell(UNINIT, "_%d" % i) for i in range(len(body["locals"]))]
        self.depth = depth


class Interp:
    def __init__(self, facts, mono, harness=None):
        self.facts = facts
        self.mono = mono
        self.h = harness
        self.steps = 0
        self.max_steps = None
        self.unmodelled = []
        if harness is not None:
            harness.interp = self
        self.trace = []      # (callee path, args, site line, caller path)
        self.events = []     # free-form events from models (push, remove, …)
        self.ub = []         # overflow-shift style events

    # ------------------------------------------------------------ types
    def tinfo(self, tystr):
        return self.facts.types.get(tystr) or {"k": "other"}

    def int_of_ty(self, tystr):
        t = self.tinfo(tystr)
        k = t.get("k")
        if k == "uint":
            return (t["w"], False, "int")
        if k == "int":
            return (t["w"], True, "int")
        if k == "bool":
            return (1, False, "bool")
        if k == "char":
            return (32, False, "char")
        return None

    def mkint(self, tystr, val):
        it = self.int_of_ty(tystr)
        if it is None:
            raise Unsupported("integer constant of non-integer type %s" % tystr)
        return Int(it[0], it[1], val=val, kind=it[2])

    def default_shell(self, tystr):
        t = self.tinfo(tystr)
        k = t.get("k")
        if k == "tuple":
            return Tup([UNINIT] * len(t["ts"]))
        if k == "adt":
            vf = t.get("vfields") or [[]]
            if len(vf) == 1:
                return Adt(t["name"], 0, [UNINIT] * len(vf[0]))
        if k == "array" and t.get("len") is not None:
            return Arr([UNINIT] * t["len"])
        return UNINIT

    # ------------------------------------------------------------ places
    def lvalue(self, fr, place):
        cell = fr.locals[place["l"]]
        path = ()
        off = 0
        ln = None          # length of the current slice window, when a sub-slice reference was dereferenced
        self.last_window_len = None
        for pe in place["p"]:
            if pe == "deref":
                v = self.read(cell, path)
                if isinstance(v, Ref):
                    cell, path, off = v.cell, v.path, v.off
                    ln = v.len
                elif isinstance(v, Opaque):
                    inner = self.tinfo(v.ty).get("t") or "?"
                    cell, path, off = Cell(Opaque(inner, v.tags | {"deref"}, v.info), "opaque*"), (), 0
                elif v is UNINIT:
                    raise Unsupported("deref of uninitialised value in %s" % fr.body["path"])
                else:
                    raise Unsupported("deref of %r" % (v,))
            elif isinstance(pe, dict) and "f" in pe:
                path = path + (("f", pe["f"]),)
            elif isinstance(pe, dict) and "idx" in pe:
                iv = fr.locals[pe["idx"]].v
                cont = self.read(cell, path)
                if isinstance(cont, Opaque) and self.h is not None:
                    r = self.h.opaque_index(self, cont, iv, None)
                    if isinstance(r, Ref):
                        cell, path, off = r.cell, r.path, r.off
                        continue
                if not isinstance(iv, Int) or not iv.is_conc():
                    lk = self.table_lookup(cont, iv, off) if isinstance(iv, Int) else None
                    if lk is None:
                        raise Undecided("symbolic index %r in %s" % (iv, fr.body["path"]))
                    cell, path, off = Cell(lk, "table-lookup (read-only)"), (), 0
                    continue
                path = path + (("e", iv.val + off),)
                off = 0
            elif isinstance(pe, dict) and "cidx" in pe:
                if pe["from_end"]:
                    cont = self.read(cell, path)
                    if not isinstance(cont, (Arr, VecV)):
                        raise Unsupported("from_end constant index into %r" % (cont,))
                    n = ln if ln is not None else len(cont.elems) - off
                    path = path + (("e", off + n - pe["cidx"]),)
                else:
                    path = path + (("e", pe["cidx"] + off),)
                off = 0
                ln = None
            elif isinstance(pe, dict) and "sub_from" in pe:
                # slice pattern `[a, b, rest @ ..]` / `[rest @ .., z]`: a window of the current slice
                cont = self.read(cell, path)
                if not isinstance(cont, (Arr, VecV)):
                    raise Unsupported("sub-slice of %r" % (cont,))
                n = ln if ln is not None else len(cont.elems) - off
                a_, b_ = pe["sub_from"], pe["sub_to"]
                new_len = (n - a_ - b_) if pe.get("from_end") else (b_ - a_)
                if new_len < 0 or a_ > n:
                    raise Diverge("sub-slice pattern on a slice of length %d" % n)
                off = off + a_
                ln = new_len
                self.last_window_len = ln
            elif isinstance(pe, dict) and "downcast" in pe:
                path = path + (("d", pe["downcast"]),)
            else:
                raise Unsupported("projection %r" % (pe,))
        return cell, path, off

    def table_lookup(self, cont, iv, off=0):
        """TABLE[i] for a constant table of integers and an index with at most 8 symbolic bits (all other bits constant), provably in
        range: every result bit as the algebraic normal form of the index bits (Moebius transform of its truth table)"""
        if not isinstance(cont, (Arr, VecV)) or not cont.elems:
            return None
        el = cont.elems[off:]
        if el and all(isinstance(e, Arr) and len(e.elems) == len(el[0].elems) for e in el):
            # a table of fixed-size rows (e.g. [[u8; 4]; 256]): look every column up separately
            cols = []
            for j in range(len(el[0].elems)):
                r = self.table_lookup(Arr([e.elems[j] for e in el]), iv, 0)
                if r is None:
                    return None
                cols.append(r)
            return Arr(cols)
        if not all(isinstance(e, Int) and e.is_conc() for e in el):
            return None
        bits = list(iv.getbits())
        sym = [i for i, b in enumerate(bits) if bv.t_is_const(b) is None]
        if any(bits[i] is bv.TOP for i in sym) or len(sym) > 8 or not sym:
            return None
        base = sum((bv.t_is_const(b) or 0) << i for i, b in enumerate(bits) if i not in sym)
        k = len(sym)
        idxs = []
        for m in range(1 << k):
            x = base
            for j, i in enumerate(sym):
                if (m >> j) & 1:
                    x |= 1 << i
            if x >= len(el):
                return None      # the index can be out of range
            idxs.append(x)
        w, signed, kind = el[0].w, el[0].signed, el[0].kind
        out = []
        for bit in range(w):
            a = [(el[x].val >> bit) & 1 for x in idxs]
            for i in range(k):
                step = 1 << i
                for j in range(len(a)):
                    if j & step:
                        a[j] ^= a[j ^ step]
            acc = bv.ZERO
            for m in range(1 << k):
                if a[m]:
                    term = bv.ONE
                    for j in range(k):
                        if (m >> j) & 1:
                            term = bv.t_and(term, bits[sym[j]])
                    acc = bv.t_xor(acc, term)
            out.append(acc)
        return Int(w, signed, bits=out, kind=kind)

    def read(self, cell, path):
        v = cell.v
        for step in path:
            v = self._step(v, step)
        return v

    def _step(self, v, step):
        kind, i = step
        if kind == "d":
            if isinstance(v, Adt):
                if v.variant is not None and v.variant != i:
                    raise Unsupported("downcast to variant %d of %r" % (i, v))
                return v
            if isinstance(v, Opaque):
                return v
            raise Unsupported("downcast of %r" % (v,))
        if kind == "f":
            if isinstance(v, (Adt, Tup)):
                if i >= len(v.fields):
                    raise Unsupported("field %d of %r" % (i, v))
                f = v.fields[i]
                if isinstance(v, Adt) and v.tags and f is not UNINIT:
                    f = with_tags(f, v.tags)
                return f
            if isinstance(v, Closure):
                return v.upvars[i]
            if isinstance(v, Opaque):
                t = self.tinfo(v.ty)
                fty = "?"
                if t.get("k") == "adt" and t.get("vfields") and len(t["vfields"]) >= 1:
                    vf = t["vfields"][0]
                    if i < len(vf):
                        fty = vf[i]
                elif t.get("k") == "tuple" and i < len(t["ts"]):
                    fty = t["ts"][i]
                if self.h is not None:
                    r = self.h.opaque_field(self, v, i, fty)
                    if r is not None:
                        return r
                return self.abstract_of(fty, v.tags | {"field%d" % i}, {"of": v.id, "field": i})
            if v is UNINIT:
                return UNINIT
            raise Unsupported("field %d of %r" % (i, v))
        if kind == "e":
            if isinstance(v, (Arr, VecV)) or type(v).__name__ == "DequeV":
                if i >= len(v.elems):
                    raise Diverge("index %d out of bounds (len %d)" % (i, len(v.elems)))
                return v.elems[i]
            if isinstance(v, Opaque):
                return Opaque("?", v.tags | {"elem"}, {"of": v.id, "elem": i})
            raise Unsupported("index into %r" % (v,))
        raise Unsupported(step)

    def abstract_of(self, tystr, tags=frozenset(), info=None):
        """an abstract value of the given type: ints are TOP vectors, everything else Opaque"""
        it = self.int_of_ty(tystr)
        if it is not None:
            return Int(it[0], it[1], bits=[bv.TOP] * it[0], tags=frozenset(tags), kind=it[2])
        return Opaque(tystr, tags, info)

    def write(self, cell, path, newv, tyhint=None):
        if cell.name == "table-lookup (read-only)":
            raise Undecided("write through a symbolic index")
        cell.v = self._set(cell.v, path, newv, tyhint)

    def _set(self, v, path, newv, tyhint):
        if not path:
            return newv
        (kind, i), rest = path[0], path[1:]
        if kind == "d":
            return self._set(v, rest, newv, None)
        if v is UNINIT and tyhint:
            v = self.default_shell(tyhint)
        if kind == "f":
            if isinstance(v, Adt):
                fs = list(v.fields)
                while len(fs) <= i:
                    fs.append(UNINIT)
                fs[i] = self._set(fs[i], rest, newv, None)
                return Adt(v.name, v.variant, fs, v.tags)
            if isinstance(v, Tup):
                fs = list(v.fields)
                while len(fs) <= i:
                    fs.append(UNINIT)
                fs[i] = self._set(fs[i], rest, newv, None)
                return Tup(fs)
            if isinstance(v, Closure):
                fs = list(v.upvars)
                fs[i] = self._set(fs[i], rest, newv, None)
                return Closure(v.path, fs, v.ckey)
            if isinstance(v, Opaque):
                self.events.append(("write-into-opaque", v, i, newv))
                return v
            raise Unsupported("write field %d of %r" % (i, v))
        if kind == "e":
            if isinstance(v, (Arr, VecV)) or type(v).__name__ == "DequeV":
                if i >= len(v.elems):
                    raise Diverge("index %d out of bounds on write (len %d)" % (i, len(v.elems)))
                es = list(v.elems)
                es[i] = self._set(es[i], rest, newv, None)
                return type(v)(es)
            if isinstance(v, Opaque):
                self.events.append(("write-into-opaque", v, i, newv))
                return v
            raise Unsupported("write elem of %r" % (v,))
        raise Unsupported(path[0])

    # ------------------------------------------------------------ operands
    def operand(self, fr, o):
        if "copy" in o or "move" in o:
            p = o.get("copy") or o.get("move")
            cell, path, off = self.lvalue(fr, p)
            v = self.read(cell, path)
            if v is UNINIT:
                # zero-sized / never-initialised locals (PhantomData, unit)
                lt = fr.body["locals"][p["l"]] if not p["p"] else None
                return self.zst_or_uninit(lt)
            return v
        if "const" in o:
            return self.const(o["const"])
        if "rtcheck" in o:
            return mkbool(False)
        raise Unsupported("operand %r" % (o,))

    def zst_or_uninit(self, tystr):
        if tystr is None:
            return UNINIT
        t = self.tinfo(tystr)
        if t.get("k") == "tuple" and not t["ts"]:
            return Tup([])
        if t.get("k") == "adt":
            vf = t.get("vfields") or []
            if len(vf) == 1 and len(vf[0]) == 0:
                return Adt(t["name"], 0, [])
            if "PhantomData" in t["name"]:
                return Adt(t["name"], 0, [])
        if t.get("k") == "fndef":
            return FnItem({"path": t["name"], "key": t["key"]})
        return UNINIT

    def const(self, c):
        ty = c["ty"]
        if "fn" in c:
            return FnItem(c["fn"])
        if "int" in c:
            return self.mkint(ty, c["int"])
        if "struct" in c:
            return self.const_struct(c["struct"])
        if "bytes" in c:
            cell = Cell(Arr([Int(8, False, val=b) for b in c["bytes"]]), "const-bytes")
            return Ref(cell, ())
        if c.get("zst"):
            z = self.zst_or_uninit(ty)
            if z is UNINIT:
                t = self.tinfo(ty)
                if t.get("k") == "closure":
                    return Closure(t["name"], [])
                return Opaque(ty, {"zst"})
            return z
        if "uneval" in c:
            if self.h is not None:
                r = self.h.uneval_const(self, c)
                if r is not None:
                    return r
            return self.abstract_of(ty, {"uneval-const"})
        return Opaque(ty, {"const"}, {"repr": c.get("other")})

    def const_struct(self, j):
        if "int" in j:
            return self.mkint(j["ty"], j["int"])
        if "ref" in j:
            return Ref(Cell(self.const_struct(j["ref"]), "const"))
        if "adt" in j:
            return Adt(j["adt"], j["variant"], [self.const_struct(f) for f in j["fields"]])
        if "tuple" in j:
            return Tup([self.const_struct(f) for f in j["tuple"]])
        if "array" in j:
            return Arr([self.const_struct(f) for f in j["array"]])
        raise Unsupported("constant %r" % (j,))

    # ------------------------------------------------------------ rvalues
    def rvalue(self, fr, rv, dest_ty):
        k = rv["k"]
        if k == "use":
            return self.operand(fr, rv["o"])
        if k == "ref" or k == "rawptr":
            cell, path, off = self.lvalue(fr, rv["p"])
            # reborrow of a sub-slice keeps its window
            if rv["p"]["p"] and rv["p"]["p"][-1] == "deref":
                src_cell, src_path, _ = self.lvalue(fr, {"l": rv["p"]["l"], "p": rv["p"]["p"][:-1]})
                sv = self.read(src_cell, src_path)
                if isinstance(sv, Ref):
                    return Ref(sv.cell, sv.path, sv.off, sv.len, sv.tags)
            if rv["p"]["p"] and isinstance(rv["p"]["p"][-1], dict) and "sub_from" in rv["p"]["p"][-1] and self.last_window_len is not None:
                return Ref(cell, path, off, self.last_window_len)
            return Ref(cell, path, off)
        if k == "bin":
            a = self.operand(fr, rv["a"])
            b = self.operand(fr, rv["b"])
            return self.binop(rv["op"], a, b, dest_ty)
        if k == "un":
            a = self.operand(fr, rv["o"])
            if rv["op"] == "PtrMetadata":
                return self.slice_len(a)
            if isinstance(a, Int):
                return bv.unop(rv["op"], a)
            if isinstance(a, Opaque):
                return self.abstract_of(dest_ty, a.tags)
            raise Unsupported("unop on %r" % (a,))
        if k == "cast":
            a = self.operand(fr, rv["o"])
            ck = rv["ck"]
            if ck == "int2int":
                it = self.int_of_ty(rv["ty"])
                if isinstance(a, Int) and it:
                    r = bv.cast(a, it[0], it[1], it[2])
                    return with_tags(r, a.tags)
                if isinstance(a, Adt):  # C-like enum to int
                    d = self.discr_of(a)
                    return Int(it[0], it[1], val=d)
                if isinstance(a, Opaque):
                    if "pop" in a.info:
                        return Opaque(rv["ty"], a.tags, a.info)
                    return self.abstract_of(rv["ty"], a.tags)
                raise Unsupported("int cast of %r" % (a,))
            if ck.startswith("coerce") or ck in ("ptr2ptr", "Subtype"):
                return a
            if ck == "transmute":
                it = self.int_of_ty(rv["ty"])
                if isinstance(a, Int) and it and it[0] == a.w:
                    return Int(it[0], it[1], val=a.val, bits=a.bits, kind=it[2]) if a.val is not None else Int(it[0], it[1], bits=a.bits, kind=it[2])
                if self.h is not None:
                    r = self.h.transmute(self, a, rv["ty"])
                    if r is not None:
                        return r
                # pointer-like value reinterpreted as another pointer type (NonNull<T> -> *const T, &T -> *const T): the same reference
                if isinstance(a, Ref) and (rv["ty"].startswith("*const ") or rv["ty"].startswith("*mut ") or rv["ty"].startswith("&")
                                           or rv["ty"].startswith("std::ptr::NonNull<")):
                    return a
                return self.abstract_of(rv["ty"], tags_of(a) | {"transmute"})
            return self.abstract_of(rv["ty"], tags_of(a))
        if k == "discr":
            cell, path, off = self.lvalue(fr, rv["p"])
            v = self.read(cell, path)
            d = self.discr_of(v)
            it = self.int_of_ty(dest_ty) or (64, True, "int")
            return Int(it[0], it[1], val=d)
        if k == "agg":
            ops = [self.operand(fr, o) for o in rv["ops"]]
            ak = rv["ak"]
            if ak == "tuple":
                return Tup(ops)
            if ak == "array":
                return Arr(ops)
            if ak == "adt":
                return Adt(rv["adt"], rv["variant"], ops)
            if ak == "closure":
                return Closure(rv["closure"], ops, rv.get("ckey"))
            raise Unsupported("aggregate " + ak)
        if k == "repeat":
            v = self.operand(fr, rv["o"])
            if rv["n"] is None:
                raise Unsupported("repeat with unknown length")
            return Arr([v] * rv["n"])
        raise Unsupported("rvalue " + k)

    def discr_of(self, v):
        if isinstance(v, Adt):
            if v.variant is None:
                raise Undecided("discriminant of %r" % (v,))
            ad = self.facts.adts.get(v.name)
            if ad and ad["kind"] == "enum":
                d = ad["variants"][v.variant]["discr"]
                return d if d is not None else v.variant
            return v.variant
        if isinstance(v, Int):
            return v.val
        if isinstance(v, Opaque) and self.h is not None:
            r = self.h.opaque_discr(self, v)
            if r is not None:
                return r
        raise Undecided("discriminant of %r" % (v,))

    def slice_len(self, a):
        if isinstance(a, Ref):
            if a.len is not None:
                return Int(64, False, val=a.len) if isinstance(a.len, int) else a.len
            v = self.read(a.cell, a.path)
            if isinstance(v, (Arr, VecV)):
                return Int(64, False, val=len(v.elems) - a.off)
            if isinstance(v, Opaque):
                if self.h is not None:
                    r = self.h.opaque_len(self, v)
                    if r is not None:
                        return r
                return Int(64, False, bits=[bv.TOP] * 64, tags=v.tags | {"len"})
        if isinstance(a, Opaque):
            if self.h is not None:
                r = self.h.opaque_len(self, a)
                if r is not None:
                    return r
            return Int(64, False, bits=[bv.TOP] * 64, tags=a.tags | {"len"})
        raise Unsupported("length of %r" % (a,))

    def binop(self, op, a, b, dest_ty):
        if isinstance(a, Int) and isinstance(b, Int):
            if op.endswith("WithOverflow"):
                base = op[:-len("WithOverflow")]
                r = bv.binop(base, a, b)
                if a.is_conc() and b.is_conc():
                    x, y = (a.sval(), b.sval()) if a.signed else (a.val, b.val)
                    exact = {"Add": x + y, "Sub": x - y, "Mul": x * y}[base]
                    rr = r.sval() if r.signed else r.val
                    return Tup([r, mkbool(exact != rr)])
                return Tup([r, bv.unknown_bool()])
            if op == "Cmp":
                lt = bv.compare("Lt", a, b)
                eq = bv.compare("Eq", a, b)
                if lt is None or eq is None:
                    if self.h is not None:
                        r = self.h.unknown_cmp(self, a, b)
                        if r is not None:
                            return Adt(ORD_NAME, r, [])
                    raise Undecided("three-way comparison of %r and %r" % (a, b))
                return Adt(ORD_NAME, 0 if lt else (1 if eq else 2), [])
            if op in ("Shl", "Shr", "ShlUnchecked", "ShrUnchecked") and b.w != a.w:
                pass
            try:
                if op in ("Eq", "Ne", "Lt", "Le", "Gt", "Ge") and self.h is not None and not (a.is_conc() and b.is_conc()):
                    r0 = bv.compare(op, a, b)
                    if r0 is None:
                        r = self.h.unknown_compare(self, op, a, b)
                        if r is not None:
                            return mkbool(r)
                r = bv.binop(op, a, b)
                if self.h is not None and bv.aff_of(a) is not None and bv.aff_of(b) is not None and not (a.is_conc() and b.is_conc()) and \
                        op in ("Add", "Sub", "Mul", "AddUnchecked", "SubUnchecked", "MulUnchecked") and getattr(self.h, "arith", None) is not None:
                    # machine arithmetic on affine counters: the affine description is only right while the mathematical result fits the type
                    self.h.arith.append((op.replace("Unchecked", ""), bv.aff_of(a), bv.aff_of(b), a.w, a.signed))
            except bv.UB as e:
                self.ub.append(str(e))
                raise Diverge("UB/overflow: %s" % e)
            t = a.tags | b.tags
            return with_tags(r, t) if t else r
        if op in ("Eq", "Ne") and isinstance(a, Adt) and isinstance(b, Adt) and not a.fields and not b.fields:
            return mkbool((a.variant == b.variant) == (op == "Eq"))
        if op in ("Add", "AddUnchecked") and (isinstance(a, Opaque) or isinstance(b, Opaque)):
            # sums of population counts stay exact: the multiset of counted bit terms
            def pop_of(x):
                """(counted terms, constant part)"""
                if isinstance(x, Opaque) and "pop" in x.info:
                    return list(x.info["pop"]), x.info.get("plus", 0)
                if isinstance(x, Int) and x.is_conc() and x.val < (1 << 20):
                    return [], x.val
                if isinstance(x, Int) and x.sf is not None and len(x.sf) == 1 and x.sf[0][0] == 0 and len(x.sf[0][2]) < (1 << x.sf[0][1]):
                    return list(x.sf[0][2]), 0         # counted in the register: one exact counter in the low bits
                return None
            pa, pb = pop_of(a), pop_of(b)
            if pa is not None and pb is not None:
                info = {"pop": pa[0] + pb[0], "w": 0}
                if pa[1] + pb[1]:
                    info["plus"] = pa[1] + pb[1]
                return Opaque(dest_ty, tags_of(a) | tags_of(b), info)
        if isinstance(a, Opaque) or isinstance(b, Opaque):
            if self.h is not None:
                r = self.h.opaque_binop(self, op, a, b, dest_ty)
                if r is not None:
                    return r
            return self.abstract_of(dest_ty, tags_of(a) | tags_of(b))
        raise Unsupported("binop %s on %r, %r" % (op, a, b))

    # ------------------------------------------------------------ execution
    def call_body(self, body, args, depth=0):
        if depth > MAX_DEPTH:
            raise Unsupported("call depth")
        fr = Frame(body, depth)
        argc = body["argc"]
        if len(args) != argc:
            # closure bodies take their arguments untupled
            if len(args) == 2 and isinstance(args[1], Tup) and 1 + len(args[1].fields) == argc:
                args = [args[0]] + list(args[1].fields)
            elif len(args) == 2 and isinstance(args[1], Tup) and argc == 1 + len(args[1].fields):
                args = [args[0]] + list(args[1].fields)
            else:
                raise Unsupported("arity mismatch calling %s: %d vs %d" % (body["path"], len(args), argc))
        for i, a in enumerate(args):
            fr.locals[i + 1].v = a
        bi = 0
        blocks = body["blocks"]
        while True:
            bb = blocks[bi]
            for st in bb["s"]:
                self.steps += 1
                if st["k"] == "assign":
                    p = st["p"]
                    dest_ty = body["locals"][p["l"]] if not p["p"] else self._proj_ty(p)
                    v = self.rvalue(fr, st["rv"], dest_ty)
                    cell, path, off = self.lvalue(fr, p)
                    self.write(cell, path, v, body["locals"][p["l"]])
                elif st["k"] == "setdiscr":
                    cell, path, off = self.lvalue(fr, st["p"])
                    v = self.read(cell, path)
                    if isinstance(v, Adt):
                        self.write(cell, path, Adt(v.name, st["variant"], v.fields, v.tags))
                    else:
                        raise Unsupported("setdiscr on %r" % (v,))
            if self.steps > (self.max_steps or MAX_STEPS):
                raise Unsupported("step bound exceeded in %s" % body["path"])
            t = bb["t"]
            k = t["k"]
            self.steps += 1
            if k == "goto":
                bi = t["t"]
            elif k == "switch":
                v = self.operand(fr, t["o"])
                if isinstance(v, Int) and v.is_conc():
                    val = v.val
                elif isinstance(v, Int) and self.h is not None and self.h.decide_switch(self, v, t, body) is not None:
                    val = self.h.decide_switch(self, v, t, body)
                else:
                    raise Undecided("branch on %r at %s" % (v, self.facts.site(body, t.get("ln"))))
                nxt = t["otherwise"]
                for tv, tb in t["targets"]:
                    if tv == val:
                        nxt = tb
                        break
                bi = nxt
            elif k == "return":
                return fr.locals[0].v if fr.locals[0].v is not UNINIT else self.zst_or_uninit(body["locals"][0])
            elif k == "call":
                dest = t["dest"]
                dest_ty = body["locals"][dest["l"]] if not dest["p"] else self._proj_ty(dest)
                f = self.operand(fr, t["f"])
                args2 = [self.operand(fr, a) for a in t["args"]]
                r = self.do_call(f, args2, dest_ty, t, body, depth)
                if t["t"] is None:
                    raise Diverge("call to diverging %r" % (f,))
                cell, path, off = self.lvalue(fr, dest)
                self.write(cell, path, r, body["locals"][dest["l"]])
                bi = t["t"]
            elif k == "assert":
                v = self.operand(fr, t["o"])
                if isinstance(v, Int) and v.is_conc():
                    if bool(v.val) != t["expected"]:
                        raise Diverge("assert(%s) failed at %s" % (t["msg"], self.facts.site(body, t.get("ln"))))
                bi = t["t"]
            elif k == "drop":
                bi = t["t"]
            elif k == "unreachable":
                raise Diverge("unreachable")
            else:
                raise Unsupported("terminator " + k)

    def _proj_ty(self, place):
        last = place["p"][-1]
        if isinstance(last, dict) and "ty" in last:
            return last["ty"]
        return "?"

    def do_call(self, f, args, dest_ty, term, caller, depth):
        if isinstance(f, FnItem):
            fn = f.fn
        elif isinstance(f, Closure):
            fn = {"path": f.path, "rpath": f.path, "key": f.path}
            args = [f] + list(args)
        else:
            if self.h is not None:
                r = self.h.indirect_call(self, f, args, dest_ty, term, caller)
                if r is not None:
                    return r
            return self.abstract_of(dest_ty, frozenset().union(*[tags_of(a) for a in args]) if args else frozenset())
        path = fn.get("path", "")
        rpath = fn.get("rpath") or path
        if not self.mono:
            op = (getattr(self.facts, "helper_summary", None) or {}).get(rpath) or (getattr(self.facts, "helper_summary", None) or {}).get(path)
            if op:
                # a crate helper generic over the k-mer type that the helper lemmas identified, for EVERY k-mer type, with a trait operation:
                # in the generic tables it is that operation
                fn = {"path": "Kmer::" + op, "trait": "Kmer", "key": "Kmer::" + op, "targs": fn.get("targs"), "crate": fn.get("crate")}
                path = rpath = fn["path"]
        site = term.get("ln")
        self.trace.append((rpath, path, args, site, caller["path"]))
        for pp in PANIC_PATHS:
            if path.startswith(pp) or rpath.startswith(pp):
                raise Diverge("panic via %s at %s" % (path, self.facts.site(caller, site)))
        # 1. harness oracles
        if self.h is not None:
            r = self.h.on_call(self, fn, args, dest_ty, term, caller)
            if r is not NotImplemented:
                return r
        # 1b. Fn*::call on a closure / fn item value whose type is a generic parameter (no resolved callee)
        if path.split("::")[-1] in ("call", "call_mut", "call_once") and fn.get("trait", "").split("::")[-1] in ("Fn", "FnMut", "FnOnce") \
                and len(args) == 2 and isinstance(args[1], Tup) and not fn.get("rpath"):
            rv = args[0]
            n = 0
            while isinstance(rv, Ref) and n < 3:
                rv = self.read(rv.cell, rv.path)
                n += 1
            if isinstance(rv, (Closure, FnItem)):
                from . import models as _m
                return _m.call_callable(self, args[0] if isinstance(rv, Closure) else rv, list(args[1].fields), term, caller, depth)
        # 2. builtin models
        from . import models
        r = models.apply(self, fn, args, dest_ty, term, caller, depth)
        if r is not NotImplemented:
            return r
        # 3. interpret the callee
        body = self.find_body(fn)
        if body is None and not self.mono and fn.get("trait") and args and not fn.get("rpath"):
            # generic tables: a trait method called on a type parameter (`<M as Mer>::len` inside a generic adapter) whose receiver is, in this
            # run, a value of a crate type: the impl of that type is what runs
            body = self.impl_for_receiver(fn, args[0])
        if body is not None:
            if path.split("::")[-1] in ("call", "call_mut", "call_once") and len(args) == 2 and isinstance(args[1], Tup):
                recv = args[0]
                if isinstance(recv, Ref):
                    rv = self.read(recv.cell, recv.path)
                else:
                    rv = recv
                if isinstance(rv, FnItem):
                    # calling a fn item through the Fn* traits: the receiver is not an argument
                    return self.call_body(body, list(args[1].fields), depth + 1)
                if isinstance(rv, Closure) and not isinstance(recv, Ref):
                    # closure passed by value (FnOnce) to a body that may expect a reference
                    b_arg = self.tinfo(body["locals"][1]).get("k") if body["argc"] >= 1 else None
                    if b_arg == "ref":
                        args = [Ref(Cell(rv, "closure-env"))] + [args[1]]
                if body.get("kind") == "Closure":
                    # closure bodies take the tupled arguments spread
                    return self.call_body(body, [args[0]] + list(args[1].fields), depth + 1)
            return self.call_body(body, args, depth + 1)
        # 4. nobody models this callee.  Continuing with an opaque value could make a later comparison with the
        #    specification fail for the wrong reason, so the run is INCONCLUSIVE unless the call is benign.
        tg = frozenset()
        for a in args:
            tg = tg | tags_of(a)
        if self.h is not None:
            self.h.note_opaque_call(self, fn, args, term, caller)
        if not benign_opaque(fn):
            self.unmodelled.append(fn.get("rpath") or path)
            if STRICT:
                raise Unsupported("call to %s is neither modelled nor interpretable (at %s)" % (fn.get("key") or path, self.facts.site(caller, site)))
        return self.abstract_of(dest_ty, tg, {"call": path})

    def impl_for_receiver(self, fn, a0):
        v = a0
        n = 0
        while isinstance(v, Ref) and n < 3:
            try:
                v = self.read(v.cell, v.path)
            except Exception:
                return None
            n += 1
        if not isinstance(v, Adt) or not getattr(v, "name", None):
            return None
        idx = getattr(self.facts, "_impl_index", None)
        if idx is None:
            idx = {}
            for p_, b_ in self.facts.fns.items():
                if p_.startswith("<") and " as " in p_ and ">::" in p_:
                    head, meth = p_[1:].rsplit(">::", 1)
                    if "::" in meth:
                        continue
                    sty, tr = head.split(" as ", 1)
                    idx.setdefault((sty.split("<")[0], tr.split("<")[0].split("::")[-1], meth), []).append(b_)
            self.facts._impl_index = idx
        c = idx.get((v.name, fn["trait"].split("<")[0].split("::")[-1], fn.get("path", "").split("::")[-1]), [])
        return c[0] if len(c) == 1 else None

    def find_body(self, fn):
        if self.mono:
            k = fn.get("rkey")
            if k and k in self.facts.insts:
                return self.facts.insts[k]
            k = fn.get("key")
            if k and k in self.facts.insts:
                return self.facts.insts[k]
        rp = fn.get("rpath")
        if rp and rp in self.facts.fns:
            return self.facts.fns[rp]
        p = fn.get("path")
        if p and p in self.facts.fns:
            return self.facts.fns[p]
        return None


class Harness:
    """default harness: no oracles"""

    def on_call(self, it, fn, args, dest_ty, term, caller):
        return NotImplemented

    def opaque_field(self, it, v, i, fty):
        return None

    def opaque_discr(self, it, v):
        return None

    def opaque_len(self, it, v):
        return None

    def opaque_binop(self, it, op, a, b, dest_ty):
        return None

    def unknown_cmp(self, it, a, b):
        return None

    def unknown_compare(self, it, op, a, b):
        return None

    def decide_switch(self, it, v, term, body):
        return None

    def indirect_call(self, it, f, args, dest_ty, term, caller):
        return None

    def note_opaque_call(self, it, fn, args, term, caller):
        pass

    def uneval_const(self, it, c):
        return None

    def transmute(self, it, a, ty):
        return None

    def size_of(self, it, ty):
        return None

    def into_iter(self, it, a, dest_ty):
        return None

    def opaque_vec_op(self, it, name, v, args, dest_ty):
        return None

    def opaque_index(self, it, v, idx, base):
        return None
