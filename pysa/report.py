"""Obligations, verdicts, evidence."""
import json
import os
import time

HOLDS = "HOLDS"
VIOLATED = "VIOLATED"
INCONCLUSIVE = "INCONCLUSIVE"
BROKEN = "CHECKER-BROKEN"


class Report:
    def __init__(self, pid, tier, seed):
        self.pid = pid
        self.tier = tier
        self.seed = seed
        self.obls = []          # dicts
        self.floors = {}        # name -> [expected, found]
        self.evaluations = 0    # abstract runs + graph queries
        self.notes = []
        self.t0 = time.time()
        self.engines = set()

    def add(self, rule, key, status, desc="", witness=None, site=None, nontrivial=True, sample=None):
        """key: semantic instance key (no line numbers) — used for known-finding matching"""
        o = {"rule": rule, "key": "%s/%s/%s" % (self.pid, rule, key), "status": status, "desc": desc,
             "nontrivial": bool(nontrivial)}
        if witness is not None:
            o["witness"] = witness
        if site:
            o["site"] = site
        if sample is not None:
            o["sample"] = sample
        self.obls.append(o)
        return o

    def holds(self, rule, key, desc="", **kw):
        return self.add(rule, key, HOLDS, desc, **kw)

    def violated(self, rule, key, desc, witness=None, site=None, **kw):
        return self.add(rule, key, VIOLATED, desc, witness=witness, site=site, **kw)

    def inconclusive(self, rule, key, desc, **kw):
        return self.add(rule, key, INCONCLUSIVE, desc, **kw)

    def run(self, fn, *args, **kw):
        """run one table / lemma family; an exception inside the checker itself is not evidence about the repository: it is recorded as
        INCONCLUSIVE (with the traceback tail) and the remaining tables still run"""
        import traceback
        try:
            return fn(*args, **kw)
        except Exception as e:      # noqa: BLE001 — deliberate catch-all at the table boundary
            tb = traceback.format_exc().strip().splitlines()
            rule = next((a for a in args[2:] if isinstance(a, str)), kw.get("rule", "checker"))
            self.add(str(rule), "checker-error/%s" % getattr(fn, "__name__", "?"), INCONCLUSIVE,
                     "internal error in %s: %s: %s  [%s]" % (getattr(fn, "__name__", "?"), type(e).__name__, e, " | ".join(tb[-4:-1])))
            return None

    def floor(self, name, expected, found):
        self.floors[name] = [expected, found]
        if found < expected:
            self.add("floor", name, VIOLATED,
                     "instance floor not met: rule %r matched %d site(s), at least %d were confirmed by hand on the pinned tree "
                     "(an anchor of this property is gone or was renamed — the rule would otherwise pass vacuously)" % (name, found, expected),
                     witness={"kind": "floor", "expected": expected, "found": found})
        else:
            self.add("floor", name, HOLDS, "floor %d met (%d)" % (expected, found), nontrivial=False)

    def extend(self, other_obls):
        self.obls.extend(other_obls)

    def counts(self):
        c = {HOLDS: 0, VIOLATED: 0, INCONCLUSIVE: 0}
        for o in self.obls:
            c[o["status"]] = c.get(o["status"], 0) + 1
        return c
