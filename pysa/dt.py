"""E2 decision-table harnesses — filled in incrementally."""


def slice_view_tables(F, rep):
    pass
