"""E2 decision-table harness (DT mode).

A function whose behaviour is a decision over the outcomes of a handful of predicates is interpreted on abstract
values; calls that consult data (hash look-ups, set membership, user predicates, k-mer comparisons …) are *oracles* with
finite result domains, identified by callee and by the role (provenance tags) of their arguments — never by position
in the source.  Oracles are resolved lazily and the space of oracle outcomes is enumerated exhaustively (trace
partitioning): every run is deterministic, every branch decided.  Each leaf (assignment of the consulted oracles,
observable outcome) is compared with the specification function written from the property statement; if the
specification needs a predicate the code never consulted, all completions are examined — a disagreement on any
completion is a definite violating row.
"""
from . import bv
from .bv import Int, mkbool
from .absint import (Adt, Arr, Cell, Closure, Diverge, FnItem, Harness, Interp, Opaque, Ref, Tup, Undecided,
                     Unsupported, VecV, UNINIT, tags_of, with_tags)
from .models import some, none

DIR = "Dir"
LEFT, RIGHT = 0, 1
BOTTOM = ("⊥",)


def dir_v(d):
    return Adt(DIR, d, [])


def dir_name(d):
    return "Left" if d == LEFT else "Right"


def dir_of(v):
    if isinstance(v, Ref):
        return None
    if isinstance(v, Adt) and v.name == DIR and v.variant is not None:
        return v.variant
    return None


def flip(d):
    return 1 - d


def xor_dir(d, b):
    return flip(d) if b else d


class NeedValue(Exception):
    def __init__(self, name):
        self.name = name


class Oracles(Harness):
    """lazy oracle store with a replay script"""

    def __init__(self, script=()):
        self.script = list(script)
        self.choices = []     # (name, domain, value) in the order first asked
        self.memo = {}
        self.obs = {}         # observations (named facts recorded by oracle handlers)
        self.events = []

    def choose(self, name, domain):
        if name in self.memo:
            return self.memo[name]
        i = len(self.choices)
        v = self.script[i] if i < len(self.script) else domain[0]
        self.choices.append((name, tuple(domain), v))
        self.memo[name] = v
        return v

    def fixed(self, name, value):
        """an input fixed by the harness (not an oracle)"""
        self.memo[name] = value

    def observe(self, k, v):
        self.obs.setdefault(k, []).append(v)

    # default: ignore prints
    def on_call(self, it, fn, args, dest_ty, term, caller):
        return NotImplemented


def explore(make_harness, run, max_runs=20000):
    """DFS over oracle outcomes.  make_harness(script) -> Oracles ; run(h) -> outcome.
    returns list of (assignment dict, outcome, harness)"""
    leaves = []
    stack = [[]]
    n = 0
    while stack:
        script = stack.pop()
        h = make_harness(script)
        try:
            out = run(h)
        except Diverge as e:
            out = ("diverge", str(e))
        except Undecided as e:
            out = ("inconclusive", "undecided: %s" % e)
        except Unsupported as e:
            out = ("inconclusive", "unsupported: %s" % e)
        except RecursionError:
            out = ("inconclusive", "recursion")
        assignment = dict(h.memo)
        leaves.append((assignment, out, h))
        for i in range(len(script), len(h.choices)):
            name, dom, val = h.choices[i]
            prefix = [c[2] for c in h.choices[:i]]
            for alt in dom[1:]:
                stack.append(prefix + [alt])
        n += 1
        if n > max_runs:
            raise Unsupported("decision table exceeds %d rows" % max_runs)
    return leaves


def spec_outcomes(spec, assignment, domains):
    """all outcomes of spec over the completions of the oracles it reads but the code did not consult.
    returns list of (completion dict, outcome)"""
    res = []
    stack = [dict()]
    while stack:
        extra = stack.pop()

        def g(name):
            if name in assignment:
                return assignment[name]
            if name in extra:
                return extra[name]
            raise NeedValue(name)
        try:
            res.append((extra, spec(g)))
        except NeedValue as e:
            if e.name not in domains:
                raise Unsupported("specification reads unknown oracle %r" % e.name)
            for v in domains[e.name]:
                x = dict(extra)
                x[e.name] = v
                stack.append(x)
        if len(res) > 100000:
            raise Unsupported("too many completions")
    return res


def fmt_row(assignment, order=None):
    keys = order or sorted(assignment)
    return {k: (dir_name(assignment[k]) if k.endswith("dir") and assignment[k] in (0, 1) and not isinstance(assignment[k], bool) else assignment[k])
            for k in keys if k in assignment}


def check_table(rep, rule, key, leaves, spec, domains, describe, site=None, show=None):
    """compare every leaf with the specification"""
    n_rows = 0
    bad = 0
    inconc = 0
    for assignment, out, h in leaves:
        rep.evaluations += 1
        n_rows += 1
        if isinstance(out, tuple) and out and out[0] == "inconclusive":
            inconc += 1
            if inconc <= 2:
                rep.inconclusive(rule, "%s/row%d" % (key, n_rows), "%s: %s (row %s)" % (describe, out[1], fmt_row(assignment)))
            continue
        try:
            specs = spec_outcomes(spec, assignment, domains)
        except Unsupported as e:
            rep.inconclusive(rule, "%s/row%d" % (key, n_rows), "%s: %s" % (describe, e))
            inconc += 1
            continue
        for extra, want in specs:
            if want == BOTTOM:
                continue
            ok = (out == want)
            if not ok:
                bad += 1
                row = dict(assignment)
                row.update(extra)
                if bad <= 3:
                    rep.violated(rule, "%s/%s" % (key, "row-" + "-".join("%s=%s" % (k, fmt_row(row)[k]) for k in sorted(row))[:180]),
                                 "%s: for %s the code yields %s, the property requires %s%s" % (
                                     describe, fmt_row(row), show(out) if show else (out,), show(want) if show else (want,),
                                     " (the code never consults %s)" % sorted(extra) if extra else ""),
                                 witness={"kind": "row", "row": fmt_row(row), "got": repr(out), "spec": repr(want),
                                          "unconsulted": sorted(extra)}, site=site)
                break
    if bad == 0 and inconc == 0:
        rep.holds(rule, key, "%s: all %d reachable rows agree with the specification" % (describe, n_rows),
                  sample={"table": describe, "rows": n_rows,
                          "example_row": fmt_row(leaves[0][0]) if leaves else None,
                          "example_outcome": repr(leaves[0][1]) if leaves else None})
    return n_rows, bad, inconc


# --------------------------------------------------------------------------- shared oracle helpers

def is_print_call(fn):
    p = fn.get("path", "")
    return p.startswith(("core::fmt", "std::fmt", "std::io::_print", "std::io::stdio::_print", "log::", "std::io::_eprint"))


def find_fn(F, pred, what):
    c = [b for b in F.fns.values() if pred(b)]
    if not c:
        raise Unsupported("anchor-missing: %s" % what)
    return c


def builds_variant(body, adt_suffix, vname):
    for bb in body["blocks"]:
        for st in bb["s"]:
            if st["k"] == "assign" and st["rv"]["k"] == "agg" and st["rv"].get("ak") == "adt" and \
                    st["rv"]["adt"].endswith(adt_suffix) and st["rv"]["vname"] == vname:
                return True
    return False


def slice_view_tables(F, rep):
    from . import dt_tables
    dt_tables.slice_view_tables(F, rep)


# --------------------------------------------------------------------------- linear-form oracles

class LinOracles(Oracles):
    """decides comparisons between affine integers by lazily refined integer intervals, one per linear form;
    each undecided comparison is an oracle choice (so both outcomes are explored)"""

    def __init__(self, script=()):
        Oracles.__init__(self, script)
        self.iv = {}   # canonical form -> [lo, hi]  (None = unbounded)
        self.excl = {}  # canonical form -> excluded values
        self.ncmp = 0

    @staticmethod
    def canon(d):
        items = tuple(sorted((k, v) for k, v in d.items() if v != 0))
        if not items:
            return items, 1
        if items[0][1] < 0:
            return tuple((k, -v) for k, v in items), -1
        return items, 1

    def assume(self, d, lo=None, hi=None):
        """assume lo <= sum(coef*atom) <= hi"""
        f, s = self.canon(d)
        if s < 0:
            lo, hi = (None if hi is None else -hi), (None if lo is None else -lo)
        cur = self.iv.setdefault(f, [None, None])
        if lo is not None:
            cur[0] = lo if cur[0] is None else max(cur[0], lo)
        if hi is not None:
            cur[1] = hi if cur[1] is None else min(cur[1], hi)

    def rng(self, d, c):
        f, s = self.canon(d)
        lo, hi = self.iv.get(f, [None, None])
        if s < 0:
            lo, hi = (None if hi is None else -hi), (None if lo is None else -lo)
        return (None if lo is None else lo + c), (None if hi is None else hi + c)

    def decide(self, op, d, c):
        """truth of (sum d + c) op 0, or None"""
        if not d:
            return {"Eq": c == 0, "Ne": c != 0, "Lt": c < 0, "Le": c <= 0, "Gt": c > 0, "Ge": c >= 0}[op]
        lo, hi = self.rng(d, c)
        if op == "Lt":
            if hi is not None and hi < 0:
                return True
            if lo is not None and lo >= 0:
                return False
        elif op == "Le":
            if hi is not None and hi <= 0:
                return True
            if lo is not None and lo > 0:
                return False
        elif op == "Gt":
            if lo is not None and lo > 0:
                return True
            if hi is not None and hi <= 0:
                return False
        elif op == "Ge":
            if lo is not None and lo >= 0:
                return True
            if hi is not None and hi < 0:
                return False
        elif op in ("Eq", "Ne"):
            if lo is not None and hi is not None and lo == hi == 0:
                return op == "Eq"
            if (lo is not None and lo > 0) or (hi is not None and hi < 0):
                return op == "Ne"
            f, s_ = self.canon(d)
            # E = s*Lc + c == 0  <=>  Lc == -c*s
            if (-c * s_) in self.excl.get(f, ()):
                return op == "Ne"
        return None

    def refine(self, op, d, c, truth):
        """record that (sum d + c) op 0 has the given truth value"""
        if not truth:
            op = {"Lt": "Ge", "Le": "Gt", "Gt": "Le", "Ge": "Lt", "Eq": "Ne", "Ne": "Eq"}[op]
        # E = L + c ; constraints on L
        if op == "Lt":
            self.assume(d, hi=-c - 1)
        elif op == "Le":
            self.assume(d, hi=-c)
        elif op == "Gt":
            self.assume(d, lo=-c + 1)
        elif op == "Ge":
            self.assume(d, lo=-c)
        elif op == "Eq":
            self.assume(d, lo=-c, hi=-c)
        else:  # Ne: an excluded value (tightens the interval when it sits at an end)
            f, s_ = self.canon(d)
            self.excl.setdefault(f, set()).add(-c * s_)
            lo, hi = self.rng(d, c)
            if lo == 0:
                self.assume(d, lo=-c + 1)
            elif hi == 0:
                self.assume(d, hi=-c - 1)

    def unknown_compare(self, it, op, a, b):
        fa, fb = bv.aff_of(a), bv.aff_of(b)
        if fa is None or fb is None:
            return None
        d = dict(fa[0])
        for k, v in fb[0].items():
            d[k] = d.get(k, 0) - v
        d = {k: v for k, v in d.items() if v != 0}
        c = fa[1] - fb[1]
        r = self.decide(op, d, c)
        if r is not None:
            return r
        self.ncmp += 1
        name = "%s %s 0" % (bv.aff_str((tuple(sorted(d.items())), c)), {"Lt": "<", "Le": "<=", "Gt": ">", "Ge": ">=", "Eq": "==", "Ne": "!="}[op])
        # the name is the predicate itself: the same predicate asked again is already decided by the interval
        v = self.choose("%s #%d" % (name, self.ncmp), (True, False))
        self.refine(op, d, c, v)
        self.observe("cmp", (name, v))
        return v

    def decide_switch(self, it, v, term, body):
        """a `match` on an affine integer: decide each listed value by the same interval oracles"""
        if v.aff is None:
            return None
        for tv, tb in term["targets"]:
            eq = self.unknown_compare(it, "Eq", v, Int(v.w, v.signed, val=tv))
            if eq is None:
                return None
            if eq:
                return tv
        used = {tv for tv, _ in term["targets"]}
        x = 0
        while x in used:
            x += 1
        return x

    def unknown_cmp(self, it, a, b):
        lt = self.unknown_compare(it, "Lt", a, b)
        if lt is None:
            return None
        if lt:
            return 0
        eq = self.unknown_compare(it, "Eq", a, b)
        if eq is None:
            return None
        return 1 if eq else 2

    def truth(self, op, da, ca):
        """for specifications: truth of a predicate under the refined intervals (None if undetermined)"""
        return self.decide(op, {k: v for k, v in da.items() if v != 0}, ca)

    def wraps(self, atoms, big=None):
        """the first recorded machine operation on affine counters whose mathematical result can leave the type's range under the recorded
        constraints: (op, lhs, rhs, model) or None.  (Only the FIRST such operation of a run is exact — later constraints were recorded
        with the affine description of a wrapped value — which is why the search stops there.)"""
        big = big or [(1 << 64) - 1, (1 << 64) - 2, 1 << 63]
        for (op, fa, fb, w, signed) in getattr(self, "arith", None) or []:
            lo, hi = (-(1 << (w - 1)), (1 << (w - 1)) - 1) if signed else (0, (1 << w) - 1)

            def val(f, e):
                return sum(c * e[a] for a, c in f[0].items()) + f[1]

            def pred(e, op=op, fa=fa, fb=fb):
                try:
                    x, y = val(fa, e), val(fb, e)
                except KeyError:
                    return False
                r = x + y if op == "Add" else (x - y if op == "Sub" else x * y)
                return r < lo or r > hi
            if any(a not in atoms for f in (fa, fb) for a in f[0]):
                continue
            env = self.find_model(atoms, pred, big=big)
            if env is not None:
                return (op, fa, fb, env)
        return None

    def find_model(self, atoms, pred, bound=9, extra=None, big=None):
        """search small non-negative integer values of the atoms satisfying every recorded interval / exclusion (and `extra`)
        for which pred(values) holds; returns the assignment or None.  A decision procedure for the tiny linear systems the
        iterator tables produce — it evaluates the recorded constraints, not the code."""
        import itertools
        atoms = list(atoms)
        # candidate values: the small ones, plus the landmarks the recorded constraints mention (e.g. usize::MAX for a sentinel score)
        cand = list(range(bound + 1))
        for f, (lo, hi) in self.iv.items():
            if len(f) == 1 and abs(f[0][1]) == 1:
                for c in (lo, hi):
                    if c is not None:
                        for v in (abs(c) - 1, abs(c), abs(c) + 1):
                            if 0 <= v < (1 << 64) and v not in cand:
                                cand.append(v)
        if len(cand) ** max(len(atoms), 1) > 400000:
            cand = cand[:bound + 1] + cand[-3:]
        if big:
            cand = cand[:6] + [v for v in big if v not in cand[:6]] if len(atoms) >= 4 else cand + [v for v in big if v not in cand]
        for vals in itertools.product(cand, repeat=len(atoms)):
            env = dict(zip(atoms, vals))
            ok = True
            for f, (lo, hi) in self.iv.items():
                try:
                    v = sum(c * env[a] for a, c in f)
                except KeyError:
                    continue
                if (lo is not None and v < lo) or (hi is not None and v > hi):
                    ok = False
                    break
                if v in self.excl.get(f, ()):
                    ok = False
                    break
            if not ok:
                continue
            if extra is not None and not extra(env):
                continue
            if pred(env):
                return env
        return None


# --------------------------------------------------------------------------- bit_set::BitSet over concrete small ids (shared model)
class SetV:
    """model of bit_set::BitSet over concrete small ids"""
    __slots__ = ("s", "nbits")

    def __init__(self, s=(), nbits=0):
        self.s = frozenset(s)
        # length of the underlying bit vector (it only ever grows): what `get_ref().storage()` exposes
        self.nbits = max(nbits, (max(self.s) + 1) if self.s else 0)

    def __repr__(self):
        return "set%s" % sorted(self.s)


def bitset_model(it, fn, args, dest_ty, term, caller, on_event=None):
    """BitSet operations on SetV values; NotImplemented when the call is not a BitSet operation.  on_event(kind, id) is told about
    insert / remove / contains"""
    from .models import IterV, drain_iter
    path = fn.get("path", "")
    name = path.split("::")[-1]
    if name in ("collect", "from_iter") and "BitSet" in (dest_ty or "") and args:
        items = drain_iter(it, args[0], term, caller)
        if items is None or not all(isinstance(x, Int) and x.is_conc() for x in items):
            raise Undecided("bit set collected from %r" % (args[0],))
        return SetV({x.val for x in items})
    # the underlying bit vector of a set, read word by word: `set.get_ref().storage()` — block k, bit b (least significant first) = id 32k+b
    if "bit_vec" in path or "BitVec" in path:
        if name == "storage" and args:
            r0 = args[0]
            sv0 = it.read(r0.cell, r0.path) if isinstance(r0, Ref) else r0
            while isinstance(sv0, Ref):
                sv0 = it.read(sv0.cell, sv0.path)
            if isinstance(sv0, SetV):
                nb = (sv0.nbits + 31) // 32
                words = [sum(1 << (i % 32) for i in sv0.s if i // 32 == k) for k in range(nb)]
                return Ref(Cell(VecV([Int(32, False, val=w) for w in words]), "bitvec-storage"))
        return NotImplemented
    if not ("BitSet" in path or path.startswith("bit_set::") or "::bit_set::" in path or "bit_set::BitSet" in fn.get("key", "")):
        return NotImplemented
    if name in ("with_capacity", "new", "default"):
        n0 = args[0].val if name == "with_capacity" and args and isinstance(args[0], Int) and args[0].is_conc() else 0
        return SetV((), n0)
    if name == "from_bytes" and len(args) == 1:
        # bit_vec's byte order: bit 0 of the set is the MOST significant bit of byte 0
        from .models import seq_of
        sq = seq_of(it, args[0]) if isinstance(args[0], Ref) else None
        if sq is not None and all(isinstance(e, Int) and e.is_conc() for e in sq[0].elems[sq[1]:sq[1] + sq[2]]):
            ids = set()
            for j, e in enumerate(sq[0].elems[sq[1]:sq[1] + sq[2]]):
                for b in range(8):
                    if (e.val >> (7 - b)) & 1:
                        ids.add(8 * j + b)
            return SetV(ids, 8 * sq[2])
        raise Undecided("BitSet::from_bytes of %r" % (args[0],))
    if not args:
        return NotImplemented
    if name in ("get_ref", "into_bit_vec") and len(args) == 1:
        return args[0]
    r = args[0]
    sv = it.read(r.cell, r.path) if isinstance(r, Ref) else r
    if isinstance(sv, Ref):
        r = sv
        sv = it.read(r.cell, r.path)
    if not isinstance(sv, SetV):
        raise Undecided("bit set operation on %r" % (sv,))

    def conc(v):
        return v.val if isinstance(v, Int) and v.is_conc() else None
    i = conc(args[1]) if len(args) > 1 else None
    ev = on_event or (lambda k, x: None)
    if name == "insert":
        if i is None:
            raise Undecided("insert of a symbolic id")
        it.write(r.cell, r.path, SetV(sv.s | {i}, sv.nbits))
        ev("insert", i)
        return mkbool(i not in sv.s)
    if name == "remove":
        if i is None:
            raise Undecided("remove of a symbolic id")
        it.write(r.cell, r.path, SetV(sv.s - {i}, sv.nbits))
        ev("remove", i)
        return mkbool(i in sv.s)
    if name == "contains":
        if i is None:
            raise Undecided("contains of a symbolic id")
        ev("contains", i)
        return mkbool(i in sv.s)
    if name == "extend" and len(args) == 2:
        items = drain_iter(it, args[1], term, caller)
        if items is None or not all(isinstance(x, Int) and x.is_conc() for x in items):
            raise Undecided("bit set extended by %r" % (args[1],))
        for x in items:
            ev("insert", x.val)
        it.write(r.cell, r.path, SetV(sv.s | {x.val for x in items}, sv.nbits))
        return Tup([])
    if name in ("iter", "into_iter"):
        items = [Int(64, False, val=x) for x in sorted(sv.s)]
        return IterV("owned", (Ref(Cell(VecV(items), "bitset-iter")), 0, len(items)))
    if name == "len":
        return Int(64, False, val=len(sv.s))
    if name == "is_empty":
        return mkbool(not sv.s)
    if name == "clear":
        it.write(r.cell, r.path, SetV((), sv.nbits))
        return Tup([])
    if name == "clone":
        return sv
    if name in ("union_with", "intersect_with", "difference_with") and len(args) == 2:
        o = args[1]
        ov = it.read(o.cell, o.path) if isinstance(o, Ref) else o
        if isinstance(ov, SetV):
            ns = {"union_with": sv.s | ov.s, "intersect_with": sv.s & ov.s, "difference_with": sv.s - ov.s}[name]
            it.write(r.cell, r.path, SetV(ns, max(sv.nbits, ov.nbits)))
            return Tup([])
    return NotImplemented
