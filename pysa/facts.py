"""Loader and indices for the fact file written by the dbgsa driver."""
import json
import os
import re
import shutil
import subprocess
import tempfile
import time

VERIF = os.path.dirname(os.path.dirname(os.path.abspath(__file__)))
DRIVER = os.path.join(VERIF, "sa", "target", "release", "dbgsa")
MIN_BODIES = 600  # 643 on the pinned tree; fail closed if the driver saw far less


class FactsError(Exception):
    pass


def repo_path():
    return os.environ.get("VERIF_REPO", "/repo")


def run_driver(thorough=False, repo=None, keep=False):
    """Run the driver over the repo's current working tree with a fresh target dir.
    Returns (facts_dict, info)."""
    repo = repo or repo_path()
    if not os.path.exists(DRIVER):
        raise FactsError("driver not built: run setup (cargo build --release in /verif/sa)")
    work = tempfile.mkdtemp(prefix="dbgsa.", dir=os.environ.get("VERIF_TMP", "/tmp"))
    out = os.path.join(work, "facts.json")
    sysroot = subprocess.check_output(["rustc", "+nightly", "--print", "sysroot"], text=True).strip()
    env = dict(os.environ)
    env.update({
        "LD_LIBRARY_PATH": sysroot + "/lib" + (":" + env["LD_LIBRARY_PATH"] if env.get("LD_LIBRARY_PATH") else ""),
        "RUSTFLAGS": "-Zmir-opt-level=0 -Awarnings -Cdebug-assertions=off -Coverflow-checks=off",
        "RUSTC_WORKSPACE_WRAPPER": DRIVER,
        "DBGSA_OUT": out,
        "DBGSA_THOROUGH": "1" if thorough else "0",
        "CARGO_TARGET_DIR": os.path.join(work, "target"),
        "CARGO_NET_OFFLINE": "true",
    })
    env.pop("RUSTC_WRAPPER", None)
    t0 = time.time()
    p = subprocess.run(
        ["cargo", "+nightly", "check", "--offline", "--lib", "--manifest-path", os.path.join(repo, "Cargo.toml")],
        env=env, stdout=subprocess.PIPE, stderr=subprocess.STDOUT, text=True)
    dt = time.time() - t0
    try:
        if p.returncode != 0:
            raise FactsError("cargo check failed (the tree does not compile?):\n" + p.stdout[-4000:])
        if not os.path.exists(out):
            raise FactsError("driver produced no fact file (wrapper skipped?)\n" + p.stdout[-2000:])
        with open(out) as f:
            d = json.load(f)
    finally:
        if not keep:
            shutil.rmtree(work, ignore_errors=True)
    if d.get("n_bodies", 0) < MIN_BODIES:
        raise FactsError("driver visited only %s bodies (< %d)" % (d.get("n_bodies"), MIN_BODIES))
    return d, {"driver_s": round(dt, 2), "bodies": d["n_bodies"], "instances": len(d["insts"])}


class Facts:
    def __init__(self, d):
        self.d = d
        self.types = d["types"]
        self.adts = d["adts"]
        self.fns = {}          # path -> generic body
        for b in d["fns"]:
            self.fns[b["path"]] = b
        self.insts = {}        # key -> monomorphic body
        for b in d["insts"]:
            self.insts[b["key"]] = b
        self.externs = {e["key"]: e for e in d["externs"]}
        self.roots = d["roots"]
        self.kmer_types = d["kmer_types"]
        self.impls = d["impls"]
        self.repo = repo_path()

    # ---------- lookup helpers
    def fn(self, path):
        b = self.fns.get(path)
        if b is None:
            raise FactsError("anchor-missing: no function body %r" % path)
        return b

    def find_fns(self, pred):
        return [b for b in self.fns.values() if pred(b)]

    def inst(self, key):
        b = self.insts.get(key)
        if b is None:
            raise FactsError("anchor-missing: no instance %r" % key)
        return b

    def roots_where(self, **kw):
        out = []
        for r in self.roots:
            if all(r.get(k) == v for k, v in kw.items()):
                out.append(r)
        return out

    def ty(self, s):
        return self.types.get(s) or {"k": "other"}

    def rel(self, path):
        if path.startswith(self.repo + "/"):
            return path[len(self.repo) + 1:]
        m = re.search(r"(src/[^/]+\.rs)$", path)
        return m.group(1) if m else path

    def site(self, body, ln):
        return "%s:%s" % (self.rel(body.get("file", "?")), ln)


# ---------- small MIR helpers shared by the engines

def callee_of(term):
    """Return the fn-ref dict of a call terminator (or None for indirect calls)."""
    if term.get("k") != "call":
        return None
    f = term["f"]
    c = f.get("const")
    if c and "fn" in c:
        return c["fn"]
    return None


def callee_path(term):
    fr = callee_of(term)
    if not fr:
        return None
    return fr.get("rpath") or fr["path"]


def iter_calls(body):
    for bi, bb in enumerate(body["blocks"]):
        t = bb["t"]
        if t.get("k") == "call":
            yield bi, t, callee_of(t)


def succs(term):
    k = term.get("k")
    if k == "goto":
        return [term["t"]]
    if k == "switch":
        return [b for _, b in term["targets"]] + [term["otherwise"]]
    if k in ("call", "drop", "assert"):
        return [term["t"]] if term.get("t") is not None else []
    return []
